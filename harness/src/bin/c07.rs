//! C07 — conditionals deliver only the selected branch; `\expandafter` acts on one token
//! (optimised = simple); `\noexpand` suppresses exactly one expansion.
//!
//! Case strings (integers as in `lean/Driver/C07.lean`):
//!   `cond <Text>` / `condR <Text>`  a well-nested conditional tree, rendered to TeX source and
//!        run through `texlang_stdlib::script::run_to_string` on a `VM::<StdLibState>`.
//!        S = Lean `Text.select` (compared with the real output and the real branch stack),
//!        M = Lean `expandAll (flatten t)`. The `R` variants redefine `\else \fi \or \iftrue
//!        \ifcase` as ordinary macros after `\let`-aliasing them: conditionals then only exist
//!        under alias names and the original names are "other" tokens.
//!   `condS <Text>`  the same with scoped alias histories: plain codes >= 1000 are operations
//!        "name j := meaning m, local/global" (executed only in selected text), codes >= 2000 are
//!        sprinkled names, alias flag 4 = written through a name that currently has the meaning.
//!   `tok <flat tokens>` / `tokR …`  any token list (not necessarily well nested): I vs M only
//!        (output, error class, exact branch stack).
//!   `xa <macros> <height> <stream>` a stream with `\expandafter` chains, aliases of it,
//!        `\noexpand`, macros with 0..2 parameters, `\iftrue`/`\fi`/`\relax`: run on two VMs
//!        that differ only in the installed `\expandafter` (simple / optimized). The two real
//!        outputs are compared with each other (S: indistinguishable) and with M.
//!   `raw <tex>` debugging aid: prints what the real code does (never generated).

use texlang::vm::VM;
use texlang_stdlib::StdLibState;
use vh::*;

// ------------------------------------------------------------------------------------------
// Running the real code
// ------------------------------------------------------------------------------------------

#[derive(Debug, Clone, PartialEq, Eq)]
enum Real {
    /// output with all whitespace removed, branch stack (bottom → top) as T/E/S letters
    Ok { out: String, stack: String },
    Err(String),
    Panic(String),
}

fn err_class(title: &str) -> String {
    let t = title;
    if t.contains("unexpected `else`") {
        "unexpected-else".into()
    } else if t.contains("unexpected `or`") {
        "unexpected-or".into()
    } else if t.contains("unexpected `fi`") {
        "unexpected-fi".into()
    } else if t.contains("skipping the true branch") {
        "eof-false".into()
    } else if t.contains("skipping the false branch") {
        "eof-else".into()
    } else if t.contains("skipping cases in an `ifcase`") {
        // `IfCaseEndOfInputError` and `OrEndOfInputError` share this text
        "eof-case-or".into()
    } else if t.contains("no group to end") {
        "no-group-to-end".into()
    } else if t.contains("first token after \\expandafter") {
        "xa-eof-first".into()
    } else if t.contains("second token after \\expandafter") {
        "xa-eof-second".into()
    } else if t.contains("which token to suppress expansion") {
        "noexpand-eof".into()
    } else if t.contains("while parsing a number") {
        "eof-number".into()
    } else if t.contains("beginning of a number") {
        "expected-number".into()
    } else if t.contains("expected a number in the range") {
        "number-too-big".into()
    } else if t.contains("expected a relation") {
        "expected-relation".into()
    } else if t.contains("nexpected end of input") {
        "eof-other".into()
    } else {
        "other-error".into()
    }
}

fn strip_ws(s: &str) -> String {
    s.chars().filter(|c| !c.is_whitespace()).collect()
}

thread_local! {
    /// Texts of the sources that `\\ps<id> ` pushes (filled by `wrap_in_macros`, per case).
    static PUSH_TEXTS: std::cell::RefCell<std::collections::HashMap<i32, String>> = std::cell::RefCell::new(std::collections::HashMap::new());
}

/// `\ps<id> `: an expansion primitive that pushes a new source in front of the input, the way
/// `\input` does (no file system needed): the text registered under `<id>`.
fn push_source_primitive(
    token: texlang::token::Token,
    input: &mut texlang::vm::ExpansionInput<StdLibState>,
) -> texlang::prelude::Result<()> {
    use texlang::traits::*;
    let id = i32::parse(input)?;
    let text = PUSH_TEXTS.with(|m| m.borrow().get(&id).cloned().unwrap_or_default());
    input.push_source(token, format!("pushed{id}.tex").into(), text)
}

fn run_tex(src: &str, simple_xa: bool) -> (Real, String) {
    let mut title = String::new();
    let r = caught(|| {
        let mut cmds = texlang_stdlib::built_in_commands::<StdLibState>();
        cmds.insert("ps", texlang::command::BuiltIn::new_expansion(push_source_primitive));
        if simple_xa {
            cmds.insert("expandafter", texlang_stdlib::expansion::get_expandafter_simple());
        }
        let mut vm = VM::<StdLibState>::new_with_built_in_commands(cmds);
        vm.push_source("c07.tex", src).unwrap();
        match texlang_stdlib::script::run_to_string(&mut vm) {
            Ok(s) => {
                let v = serde_json::to_value(&vm.state.conditional).unwrap();
                let mut stack = String::new();
                if let Some(a) = v.get("branches").and_then(|b| b.as_array()) {
                    for b in a {
                        let k = b.get("kind").and_then(|k| k.as_str()).unwrap_or("?");
                        stack.push(match k {
                            "True" => 'T',
                            "Else" => 'E',
                            "Switch" => 'S',
                            _ => '?',
                        });
                    }
                } else {
                    stack.push('!');
                }
                Ok((s, stack))
            }
            Err(e) => Err(e.error.title()),
        }
    });
    let real = match r {
        Err(p) => Real::Panic(p),
        Ok(Ok((s, stack))) => Real::Ok { out: strip_ws(&s), stack },
        Ok(Err(t)) => {
            title = t.clone();
            Real::Err(err_class(&t))
        }
    };
    (real, title)
}

thread_local! {
    /// Every character token the main loop hands over, spaces included (`run_tex_exact`).
    static DELIVERED_CHARS: std::cell::RefCell<String> = const { std::cell::RefCell::new(String::new()) };
}

/// Handlers that record every delivered character token exactly (the script handlers merge
/// and drop whitespace, which would hide whether the scanner consumed a terminating space).
struct ExactHandlers;
impl texlang::vm::Handlers<StdLibState> for ExactHandlers {
    fn character_handler(
        _: &mut texlang::vm::ExecutionInput<StdLibState>,
        _: texlang::token::Token,
        c: char,
    ) -> texlang::prelude::Result<()> {
        DELIVERED_CHARS.with(|d| d.borrow_mut().push(c));
        Ok(())
    }
}

/// Like `run_tex` (default built-ins), but the output is the exact sequence of delivered
/// character tokens.
fn run_tex_exact(src: &str) -> (Real, String) {
    let mut title = String::new();
    DELIVERED_CHARS.with(|d| d.borrow_mut().clear());
    let r = caught(|| {
        let mut vm = VM::<StdLibState>::new_with_built_in_commands(texlang_stdlib::built_in_commands::<StdLibState>());
        vm.push_source("c07.tex", src).unwrap();
        match vm.run::<ExactHandlers>() {
            Ok(()) => {
                let v = serde_json::to_value(&vm.state.conditional).unwrap();
                let mut stack = String::new();
                for b in v.get("branches").and_then(|b| b.as_array()).cloned().unwrap_or_default() {
                    stack.push(match b.get("kind").and_then(|k| k.as_str()).unwrap_or("?") {
                        "True" => 'T',
                        "Else" => 'E',
                        "Switch" => 'S',
                        _ => '?',
                    });
                }
                Ok(stack)
            }
            Err(e) => Err(e.error.title()),
        }
    });
    let real = match r {
        Err(p) => Real::Panic(p),
        Ok(Ok(stack)) => Real::Ok { out: DELIVERED_CHARS.with(|d| d.borrow().clone()), stack },
        Ok(Err(t)) => {
            title = t.clone();
            Real::Err(err_class(&t))
        }
    };
    (real, title)
}

// ------------------------------------------------------------------------------------------
// Conditional trees
// ------------------------------------------------------------------------------------------

const I32_MIN: i64 = -2147483648;
const I32_MAX: i64 = 2147483647;

#[derive(Clone, Debug, PartialEq)]
struct TestR {
    kind: i64, // 0 tt 1 ff 2 odd 3 num 4 case
    al: i64,
    sty: i64,
    ops: Vec<i64>,
}

#[derive(Clone, Debug, PartialEq)]
enum Item {
    Plain(i64),
    IfThen(TestR, Vec<Item>, i64),
    IfElse(TestR, Vec<Item>, i64, Vec<Item>, i64),
    /// branches with the alias flag of the `\or` that follows each but the last; optional else; fi flag
    Case(TestR, Vec<(Vec<Item>, i64)>, Option<(i64, Vec<Item>)>, i64),
}

#[derive(Clone, Debug, PartialEq)]
enum Flat {
    Plain(i64),
    If(TestR),
    Else(i64),
    Or(i64),
    Fi(i64),
}

fn enc_test(t: &TestR, out: &mut Vec<i64>) {
    out.extend([t.kind, t.al, t.sty]);
    out.extend(&t.ops);
}

fn enc_text(items: &[Item], out: &mut Vec<i64>) {
    for it in items {
        match it {
            Item::Plain(p) => out.extend([1, *p]),
            Item::IfThen(t, a, fi) => {
                out.push(2);
                enc_test(t, out);
                enc_text(a, out);
                out.push(*fi);
            }
            Item::IfElse(t, a, el, b, fi) => {
                out.push(3);
                enc_test(t, out);
                enc_text(a, out);
                out.push(*el);
                enc_text(b, out);
                out.push(*fi);
            }
            Item::Case(t, brs, els, fi) => {
                out.extend([4, t.al, t.sty, t.ops[0]]);
                for (i, (b, or)) in brs.iter().enumerate() {
                    let last = i + 1 == brs.len();
                    if !last {
                        out.push(3);
                        enc_text(b, out);
                        out.push(*or);
                    } else if let Some((el, e)) = els {
                        out.push(2);
                        enc_text(b, out);
                        out.push(*el);
                        enc_text(e, out);
                        out.push(*fi);
                    } else {
                        out.push(1);
                        enc_text(b, out);
                        out.push(*fi);
                    }
                }
            }
        }
    }
    out.push(0);
}

struct Cur<'a>(&'a [i64]);
impl<'a> Cur<'a> {
    fn next(&mut self) -> i64 {
        let (h, t) = self.0.split_first().expect("truncated encoding");
        self.0 = t;
        *h
    }
}

fn dec_test(c: &mut Cur) -> TestR {
    let kind = c.next();
    let al = c.next();
    let sty = c.next();
    let n = match kind {
        0 | 1 => 0,
        2 | 4 => 1,
        3 => 3,
        k => panic!("bad test kind {k}"),
    };
    let ops = (0..n).map(|_| c.next()).collect();
    TestR { kind, al, sty, ops }
}

fn dec_text(c: &mut Cur) -> Vec<Item> {
    let mut v = vec![];
    loop {
        match c.next() {
            0 => return v,
            1 => v.push(Item::Plain(c.next())),
            2 => {
                let t = dec_test(c);
                let a = dec_text(c);
                v.push(Item::IfThen(t, a, c.next()));
            }
            3 => {
                let t = dec_test(c);
                let a = dec_text(c);
                let el = c.next();
                let b = dec_text(c);
                v.push(Item::IfElse(t, a, el, b, c.next()));
            }
            4 => {
                let al = c.next();
                let sty = c.next();
                let n = c.next();
                let t = TestR { kind: 4, al, sty, ops: vec![n] };
                let mut brs = vec![];
                loop {
                    match c.next() {
                        1 => {
                            let b = dec_text(c);
                            let fi = c.next();
                            brs.push((b, 0));
                            v.push(Item::Case(t, brs, None, fi));
                            break;
                        }
                        2 => {
                            let b = dec_text(c);
                            let el = c.next();
                            let e = dec_text(c);
                            let fi = c.next();
                            brs.push((b, 0));
                            v.push(Item::Case(t, brs, Some((el, e)), fi));
                            break;
                        }
                        3 => {
                            let b = dec_text(c);
                            brs.push((b, c.next()));
                        }
                        k => panic!("bad cases tag {k}"),
                    }
                }
            }
            k => panic!("bad item tag {k}"),
        }
    }
}

fn flatten(items: &[Item], out: &mut Vec<Flat>) {
    for it in items {
        match it {
            Item::Plain(p) => out.push(Flat::Plain(*p)),
            Item::IfThen(t, a, fi) => {
                out.push(Flat::If(t.clone()));
                flatten(a, out);
                out.push(Flat::Fi(*fi));
            }
            Item::IfElse(t, a, el, b, fi) => {
                out.push(Flat::If(t.clone()));
                flatten(a, out);
                out.push(Flat::Else(*el));
                flatten(b, out);
                out.push(Flat::Fi(*fi));
            }
            Item::Case(t, brs, els, fi) => {
                out.push(Flat::If(t.clone()));
                for (i, (b, or)) in brs.iter().enumerate() {
                    flatten(b, out);
                    if i + 1 != brs.len() {
                        out.push(Flat::Or(*or));
                    }
                }
                if let Some((el, e)) = els {
                    out.push(Flat::Else(*el));
                    flatten(e, out);
                }
                out.push(Flat::Fi(*fi));
            }
        }
    }
}

fn enc_flat(fl: &[Flat]) -> Vec<i64> {
    let mut out = vec![];
    for f in fl {
        match f {
            Flat::Plain(p) => out.extend([1, *p]),
            Flat::If(t) => {
                out.push(2);
                enc_test(t, &mut out);
            }
            Flat::Else(a) => out.extend([3, *a]),
            Flat::Or(a) => out.extend([4, *a]),
            Flat::Fi(a) => out.extend([5, *a]),
        }
    }
    out
}

fn dec_flat(v: &[i64]) -> Vec<Flat> {
    let mut c = Cur(v);
    let mut out = vec![];
    while !c.0.is_empty() {
        match c.next() {
            1 => out.push(Flat::Plain(c.next())),
            2 => out.push(Flat::If(dec_test(&mut c))),
            3 => out.push(Flat::Else(c.next())),
            4 => out.push(Flat::Or(c.next())),
            5 => out.push(Flat::Fi(c.next())),
            k => panic!("bad flat tag {k}"),
        }
    }
    out
}

// ------------------------------------------------------------------------------------------
// Rendering to TeX
// ------------------------------------------------------------------------------------------

const N_PLAIN: i64 = 25;

/// Active characters `\let` equal to the eight conditional primitives, two sets (alias flag 2
/// and 3): (primitive, set A, set B).
const ACTIVE: [(&str, char, char); 8] = [
    ("iftrue", '!', ':'),
    ("iffalse", '?', ';'),
    ("ifodd", '|', '['),
    ("ifnum", '*', ']'),
    ("ifcase", '@', '~'),
    ("else", '(', ','),
    ("or", ')', '.'),
    ("fi", '/', '_'),
];
/// TeX source of `other n` and the text it prints when delivered.
fn plain_src(n: i64, redefine: bool) -> (&'static str, &'static str) {
    const L: [&str; 12] = ["a", "b", "c", "d", "e", "f", "g", "h", "i", "j", "k", "l"];
    match n.rem_euclid(N_PLAIN) {
        k @ 0..=11 => (L[k as usize], L[k as usize]),
        12 => ("\\mA ", "Q"),
        13 => ("\\mB ", "RS"),
        14 => ("\\mC ", ""),
        15 => ("\\mD ", "T"),
        16 => ("\\relax ", ""),
        17 => (if redefine { "\\else " } else { "\\mE " }, "V"),
        18 => (if redefine { "\\fi " } else { "\\mF " }, "W"),
        19 => (if redefine { "\\or " } else { "\\mG " }, "X"),
        20 => (if redefine { "\\iftrue " } else { "\\mH " }, "Y"),
        21 => (if redefine { "\\ifcase " } else { "\\mI " }, "Z"),
        // active characters that must NOT count as conditionals:
        22 => ("$", "V"), // was \let to \fi, then redefined as a macro
        23 => ("&", ""),  // \let to \relax
        _ => ("+", "a"),  // \let to the letter a
    }
}

/// `\catcode`/`\let` lines for the active characters.
fn active_preamble() -> String {
    let mut s = String::new();
    for (prim, a, b) in ACTIVE {
        for c in [a, b] {
            s.push_str(&format!("\\catcode`\\{c}=13 \\let{c}=\\{prim} "));
        }
    }
    s.push_str("\\catcode`\\$=13 \\let$=\\fi \\def${V}\\catcode`\\&=13 \\let&=\\relax \\catcode`\\+=13 \\let+=a ");
    s
}

const PREAMBLE: &str = "\\let\\Xiftrue=\\iftrue \\let\\Xiffalse=\\iffalse \\let\\Xifodd=\\ifodd \\let\\Xifnum=\\ifnum \
\\let\\Xifcase=\\ifcase \\let\\Xelse=\\else \\let\\Xor=\\or \\let\\Xfi=\\fi \
\\def\\mA{Q}\\def\\mB{RS}\\def\\mC{}\\def\\mD{\\Xiftrue T\\Xelse U\\Xfi}\
\\def\\mE{V}\\def\\mF{W}\\def\\mG{X}\\def\\mH{Y}\\def\\mI{Z}\\def\\mS{ }";
const REDEFINE: &str = "\\def\\else{V}\\def\\fi{W}\\def\\or{X}\\def\\iftrue{Y}\\def\\ifcase{Z}";

fn set_reg(reg: i64, n: i64, s: &mut String) {
    if n == I32_MIN {
        // the literal -2147483648 is rejected by the number scanner; reach it by arithmetic
        s.push_str(&format!("\\count{reg}=-2147483647 \\advance\\count{reg} by -1 "));
    } else {
        s.push_str(&format!("\\count{reg}={n} "));
    }
}

// ------------------------------------------------------------------------------------------
// Scoped alias histories (`condS`): names whose conditional tag class changes over time
// ------------------------------------------------------------------------------------------

const DYN_BASE: i64 = 1000;
const DYN_SPRINKLE: i64 = 2000;
const PRIMS: [&str; 8] = ["iftrue", "iffalse", "ifodd", "ifnum", "ifcase", "else", "or", "fi"];
const M_MACRO: i64 = 8;
const M_RELAX: i64 = 9;
/// The names that are reassigned: three control sequences, two active characters and five of the
/// primitive names themselves; (source, meaning before any assignment).
const DYN: [(&str, i64); 10] = [
    ("\\da", M_RELAX),
    ("\\db", M_RELAX),
    ("\\dc", M_RELAX),
    ("'", M_RELAX),
    ("\"", M_RELAX),
    ("\\else", 5),
    ("\\fi", 7),
    ("\\or", 6),
    ("\\iftrue", 0),
    ("\\ifodd", 2),
];
const DYN_PREAMBLE: &str = "\\let\\da=\\relax \\let\\db=\\relax \\let\\dc=\\relax \\catcode`\\'=13 \\let'=\\relax \\catcode`\\\"=13 \\let\"=\\relax ";

/// Plain code of the operation "give name `j` meaning `m`" (`m` < 8: `\let` to that primitive,
/// 8: `\def` as an empty macro, 9: `\let` to `\relax`), local or `\global`.
fn dyn_op(j: i64, m: i64, global: bool) -> i64 {
    DYN_BASE + ((j * 10 + m) * 2 + global as i64)
}
fn dyn_dec(code: i64) -> (usize, i64, bool) {
    let x = code - DYN_BASE;
    (((x / 20) % 10) as usize, (x / 2) % 10, x % 2 == 1)
}

/// The meaning of every dynamic name at the current point of the *executed* text, with TeX's
/// grouping: local assignments are undone at the end of the group, global ones are not.
struct DynState {
    cur: [i64; 10],
    ever_class: [bool; 10],
    saves: Vec<Vec<(usize, i64)>>,
}
impl DynState {
    fn new() -> Self {
        let mut cur = [0; 10];
        for (j, (_, m)) in DYN.iter().enumerate() {
            cur[j] = *m;
        }
        DynState { cur, ever_class: [false; 10], saves: vec![] }
    }
    fn assign(&mut self, j: usize, m: i64, global: bool) {
        if self.cur[j] < 8 {
            self.ever_class[j] = true;
        }
        if global {
            for lvl in self.saves.iter_mut() {
                lvl.retain(|(i, _)| *i != j);
            }
        } else if let Some(top) = self.saves.last_mut() {
            if !top.iter().any(|(i, _)| *i == j) {
                top.push((j, self.cur[j]));
            }
        }
        self.cur[j] = m;
        if m < 8 {
            self.ever_class[j] = true;
        }
    }
    fn begin(&mut self) {
        self.saves.push(vec![]);
    }
    fn end(&mut self) {
        if let Some(lvl) = self.saves.pop() {
            for (j, old) in lvl.into_iter().rev() {
                self.cur[j] = old;
            }
        }
    }
    fn name_src(j: usize) -> String {
        let n = DYN[j].0;
        if n.starts_with('\\') {
            format!("{n} ")
        } else {
            n.to_string()
        }
    }
}

/// For every token of `flatten(items)`, in the same order: is it reached by the main loop
/// (delivered / executed by `next_expanded`), as opposed to being read raw by a skipping loop?
/// Plain tokens: in text the specification selects. Structural tokens: an `\else`/`\or`/`\fi`
/// that ends a *skipped* stretch is consumed by the loop that skipped it, not executed.
fn flatten_status(items: &[Item], delivered: bool, out: &mut Vec<bool>) {
    for it in items {
        match it {
            Item::Plain(_) => out.push(delivered),
            Item::IfThen(t, a, _) => {
                let h = test_holds(t);
                out.push(delivered);
                flatten_status(a, delivered && h, out);
                out.push(delivered && h);
            }
            Item::IfElse(t, a, _, b, _) => {
                let h = test_holds(t);
                out.push(delivered);
                flatten_status(a, delivered && h, out);
                out.push(delivered && h);
                flatten_status(b, delivered && !h, out);
                out.push(delivered && !h);
            }
            Item::Case(t, brs, els, _) => {
                out.push(delivered);
                let n = t.ops[0];
                let last = brs.len() - 1;
                let sel = if n >= 0 && (n as usize) < brs.len() { Some(n as usize) } else { None };
                for (i, (b, _)) in brs.iter().enumerate() {
                    flatten_status(b, delivered && sel == Some(i), out);
                    if i != last {
                        out.push(delivered && sel == Some(i));
                    }
                }
                if let Some((_, e)) = els {
                    out.push(delivered && sel == Some(last));
                    flatten_status(e, delivered && sel.is_none(), out);
                }
                out.push(delivered && ((sel == Some(last) && els.is_none()) || (sel.is_none() && els.is_some())));
            }
        }
    }
}

thread_local! {
    /// Seed of the macro wrapping of the current case (`cond+17 …`), 0 = none. Set by `run_case`.
    static WRAP: std::cell::Cell<u64> = const { std::cell::Cell::new(0) };
    static WRAP_TAGS: std::cell::RefCell<Vec<String>> = const { std::cell::RefCell::new(Vec::new()) };
    /// Per flat token of the current `cond*` case: is it in text the specification delivers?
    static DELIVERED: std::cell::RefCell<Vec<bool>> = const { std::cell::RefCell::new(Vec::new()) };
}

fn render(fl: &[Flat], redefine: bool) -> String {
    render_full(fl, None, redefine, &mut vec![])
}

/// Move up to three random token ranges of the program into macro bodies (`\def\wA{…}` in the
/// preamble, `\wA` at the place) or through a macro argument (`\wI{…}` with `\def\wI#1{#1}`), so
/// that conditionals, skipped text and operands reach the code from the expansion stack and
/// across macro boundaries instead of straight from the file. A range must START in delivered
/// text (macros are not expanded while skipping, so a macro call in skipped text would hide its
/// contents from the skipping loop — in TeX as well); from there it is arbitrary: it may run into
/// skipped text and cut conditionals in pieces. Only the braces inside must balance (`\def`).
fn wrap_in_macros(src: &str, marks: &[usize], fl: &[Flat], seed: u64) -> String {
    let n = marks.len();
    let mut bounds = marks.to_vec();
    bounds.push(src.len());
    let balanced = |t: &str| {
        let mut d = 0i64;
        for c in t.chars() {
            match c {
                '{' => d += 1,
                '}' => {
                    d -= 1;
                    if d < 0 {
                        return false;
                    }
                }
                _ => {}
            }
        }
        d == 0
    };
    let mut rng = Rng::new(seed);
    let mut defs = String::from("\\def\\wI#1{#1}");
    let mut body = String::new();
    let (mut i, mut k) = (0usize, 0u8);
    let mut tags = vec![];
    while i < n {
        let starts_delivered = DELIVERED.with(|d| d.borrow().get(i).copied().unwrap_or(false));
        if k < 3 && starts_delivered && rng.chance(3, n as u64 / 2 + 3) {
            let len = 1 + rng.below((n - i).min(14) as u64) as usize;
            let text = &src[bounds[i]..bounds[i + len]];
            // 0 macro body, 1 macro argument, 2 pushed source followed by the pending rest of the
            // macro body that pushed it (split at an arbitrary token boundary of the range)
            let kind = rng.below(3);
            // mostly a proper split (both parts non-empty) when the range allows it
            let split = if len >= 2 && rng.chance(5, 6) { 1 + rng.below(len as u64 - 1) as usize } else { rng.below(len as u64 + 1) as usize };
            let (first, second) = (&src[bounds[i]..bounds[i + split]], &src[bounds[i + split]..bounds[i + len]]);
            if (kind < 2 && balanced(text)) || (kind == 2 && balanced(second)) {
                let nest = |r: &[Flat]| {
                    r.iter().fold((0i64, false), |(d, neg), f| match f {
                        Flat::If(_) => (d + 1, neg),
                        Flat::Fi(_) => (d - 1, neg || d - 1 < 0),
                        _ => (d, neg),
                    })
                };
                let whole = nest(&fl[i..i + len]);
                if whole.0 != 0 || whole.1 {
                    tags.push("wrap:range cuts a conditional in pieces".to_string());
                }
                let name = format!("\\w{}", (b'A' + k) as char);
                match kind {
                    0 => {
                        defs.push_str(&format!("\\def{name}{{{text}}}"));
                        body.push_str(&format!("{name} "));
                        tags.push("wrap:macro body".to_string());
                    }
                    1 => {
                        body.push_str(&format!("\\wI{{{text}}}"));
                        tags.push("wrap:macro argument".to_string());
                    }
                    _ => {
                        // the pushed source ends in `%` so that its end of line adds no space token
                        let id = PUSH_TEXTS.with(|m| {
                            let mut m = m.borrow_mut();
                            let id = m.len() as i32 + 1;
                            m.insert(id, format!("{first}%"));
                            id
                        });
                        defs.push_str(&format!("\\def{name}{{\\ps{id} {second}}}"));
                        body.push_str(&format!("{name} "));
                        tags.push("wrap:pushed source + pending macro body".to_string());
                        let open = nest(&fl[i..i + split]);
                        if open.0 > 0 && !second.is_empty() {
                            tags.push("wrap:conditional opened in the pushed source continues in the pending tokens".to_string());
                        }
                        if split == 0 || split == len {
                            tags.push("wrap:pushed source or pending part empty".to_string());
                        }
                    }
                }
                k += 1;
                i += len;
                continue;
            }
        }
        body.push_str(&src[bounds[i]..bounds[i + 1]]);
        i += 1;
    }
    WRAP_TAGS.with(|t| t.borrow_mut().extend(tags));
    format!("{}{defs}{body}", &src[..bounds[0]])
}

/// `status` = `Some(delivered flag per token)` switches the scoped alias histories on (`condS`):
/// dynamic operations are executed where the text is delivered, and every conditional token
/// and sprinkled name is written according to the meanings current at that point.
fn render_full(fl: &[Flat], status: Option<&[bool]>, redefine: bool, tags: &mut Vec<String>) -> String {
    let mut s = String::from(PREAMBLE);
    let scoped = status.is_some();
    let mut dy = DynState::new();
    if scoped {
        s.push_str(DYN_PREAMBLE);
    }
    s.push_str(&active_preamble());
    if redefine {
        s.push_str(REDEFINE);
    }
    // how a conditional token of primitive `base` is written, given the current meanings
    fn name(base: &str, al: i64, forced: bool, redefine: bool, scoped: bool, dy: &DynState, pos: usize, tags: &mut Vec<String>) -> String {
        let prim = PRIMS.iter().position(|p| *p == base).expect("primitive") as i64;
        if al >= 4 && scoped {
            // through whichever dynamic name currently carries this meaning
            let cands: Vec<usize> = (0..DYN.len()).filter(|j| dy.cur[*j] == prim).collect();
            if !cands.is_empty() {
                // prefer names other than the primitive's own (those carry the class by default)
                let other: Vec<usize> = cands.iter().copied().filter(|j| *j < 5 || DYN[*j].1 != prim).collect();
                let pool = if !other.is_empty() && pos % 4 != 0 { &other } else { &cands };
                let j = pool[pos % pool.len()];
                tags.push(format!("scoped:conditional written through a dynamic {}", if j >= 5 { "primitive name" } else if j >= 3 { "active character" } else { "control sequence" }));
                if dy.saves.iter().any(|l| l.iter().any(|(i, _)| *i == j)) {
                    tags.push("scoped:… whose meaning is local to an open group".into());
                }
                return DynState::name_src(j).trim_end().to_string();
            }
            tags.push("scoped:no dynamic name carries the class (static alias used)".into());
            return format!("\\X{base}");
        }
        if al == 2 || al == 3 {
            // alias flag 2 / 3: the active character of set A / B that was \let to the primitive
            let (_, a, b) = ACTIVE.iter().find(|(p, _, _)| *p == base).expect("primitive");
            return (if al == 2 { *a } else { *b }).to_string();
        }
        // is the primitive's own name currently something else?
        let own_lost = scoped && DYN.iter().enumerate().any(|(j, (n, _))| *n == format!("\\{base}") && dy.cur[j] != prim);
        if own_lost {
            tags.push("scoped:primitive name currently reassigned (static alias used)".into());
        }
        if al != 0 || (forced && redefine) || own_lost {
            format!("\\X{base}")
        } else {
            format!("\\{base}")
        }
    }
    let mut marks = Vec::with_capacity(fl.len());
    for (i, f) in fl.iter().enumerate() {
        marks.push(s.len());
        let delivered = status.map(|st| st[i]).unwrap_or(false);
        match f {
            Flat::Plain(p) => match *p {
                -1 => {
                    s.push('{');
                    if delivered {
                        dy.begin();
                    }
                }
                -2 => {
                    s.push('}');
                    if delivered {
                        dy.end();
                    }
                }
                n if n >= DYN_BASE => {
                    if !scoped {
                        continue; // inert outside `condS`
                    }
                    let sprinkle = |j: usize, dy: &DynState, s: &mut String, tags: &mut Vec<String>| {
                        // a name that currently carries NO conditional class
                        if dy.cur[j] >= 8 {
                            s.push_str(&DynState::name_src(j));
                            let had = if dy.ever_class[j] || DYN[j].1 < 8 { "carried a class earlier" } else { "never carried a class" };
                            tags.push(format!("scoped:classless name ({had}) in {} text", if delivered { "selected" } else { "skipped" }));
                        }
                    };
                    if n >= DYN_SPRINKLE {
                        sprinkle(((n - DYN_SPRINKLE) % 10) as usize, &dy, &mut s, tags);
                    } else {
                        let (j, m, global) = dyn_dec(n);
                        if !delivered {
                            // not executed here: only the name is written (if it has no class now)
                            sprinkle(j, &dy, &mut s, tags);
                        } else {
                            let target = DynState::name_src(j).trim_end().to_string();
                            if global {
                                s.push_str("\\global ");
                            }
                            match m {
                                M_MACRO => s.push_str(&format!("\\def{target}{{}}")),
                                M_RELAX => s.push_str(&format!("\\let{target}=\\relax ")),
                                m => s.push_str(&format!("\\let{target}=\\X{} ", PRIMS[m as usize])),
                            }
                            let from = dy.cur[j];
                            dy.assign(j, m, global);
                            let kind = |m: i64| if m < 5 { "if" } else if m < 8 { "else/or/fi" } else if m == M_MACRO { "macro" } else { "relax" };
                            tags.push(format!("scoped:op {} {}→{}", if global { "global" } else { "local" }, kind(from), kind(m)));
                            tags.push(format!("scoped:op at group level {}", dy.saves.len().min(4)));
                            tags.push(format!("scoped:op on a {}", if j >= 5 { "primitive name" } else if j >= 3 { "active character" } else { "control sequence" }));
                        }
                    }
                }
                n => s.push_str(plain_src(n, redefine).0),
            },
            Flat::Else(a) => {
                s.push_str(&name("else", *a, true, redefine, scoped, &dy, i, tags));
                s.push(' ');
            }
            Flat::Or(a) => {
                s.push_str(&name("or", *a, true, redefine, scoped, &dy, i, tags));
                s.push(' ');
            }
            Flat::Fi(a) => {
                s.push_str(&name("fi", *a, true, redefine, scoped, &dy, i, tags));
                s.push(' ');
            }
            Flat::If(t) => {
                // operand style: 0 decimal + terminating space, 1 \count register, 2 decimal with
                // NO terminating space (the next token ends the number), 3 hexadecimal, 4 octal,
                // 5 decimal with spaces that come out of a macro around the relation / before the number
                let reg = t.sty == 1 || t.ops.iter().any(|n| *n == I32_MIN);
                let num = |n: i64| -> String {
                    let sign = if n < 0 { "-" } else { "" };
                    match t.sty {
                        3 if !scoped => format!("{sign}\"{:X}", n.abs()),
                        4 if !scoped => format!("{sign}'{:o}", n.abs()),
                        // redundant signs (TeX.2021.441): `--n`, `- -n` for n >= 0, `---|n|` for n < 0
                        6 if n >= 0 => format!("{}{n}", if n % 2 == 0 { "--" } else { "- -" }),
                        6 => format!("---{}", n.abs()),
                        _ => n.to_string(),
                    }
                };
                let term = if t.sty == 2 { "" } else { " " };
                let lead = if t.sty == 5 { "\\mS \\mS " } else { " " };
                match t.kind {
                    0 => {
                        s.push_str(&name("iftrue", t.al, true, redefine, scoped, &dy, i, tags));
                        s.push(' ');
                    }
                    1 => {
                        s.push_str(&name("iffalse", t.al, false, redefine, scoped, &dy, i, tags));
                        s.push(' ');
                    }
                    2 | 4 => {
                        let (base, forced) = if t.kind == 2 { ("ifodd", false) } else { ("ifcase", true) };
                        if reg {
                            set_reg(1, t.ops[0], &mut s);
                            s.push_str(&name(base, t.al, forced, redefine, scoped, &dy, i, tags));
                            s.push_str("\\count1 ");
                        } else {
                            s.push_str(&name(base, t.al, forced, redefine, scoped, &dy, i, tags));
                            s.push_str(&format!("{lead}{}{term}", num(t.ops[0])));
                        }
                    }
                    _ => {
                        let rel = ["<", "=", ">"][t.ops[1].clamp(0, 2) as usize];
                        if reg {
                            set_reg(1, t.ops[0], &mut s);
                            set_reg(2, t.ops[2], &mut s);
                            s.push_str(&name("ifnum", t.al, false, redefine, scoped, &dy, i, tags));
                            s.push_str(&format!("\\count1 {rel}\\count2 "));
                        } else {
                            s.push_str(&name("ifnum", t.al, false, redefine, scoped, &dy, i, tags));
                            if t.sty == 5 {
                                s.push_str(&format!(" {}\\mS \\mS {rel}\\mS {} ", t.ops[0], t.ops[2]));
                            } else {
                                s.push_str(&format!(" {}{rel}{}{term}", num(t.ops[0]), num(t.ops[2])));
                            }
                        }
                    }
                }
            }
        }
    }
    let wrap = WRAP.with(|w| w.get());
    if wrap != 0 && !marks.is_empty() {
        s = wrap_in_macros(&s, &marks, fl, wrap);
    }
    s.push('%');
    s
}

/// What the script handlers print for a list of delivered plain tokens (`codes` as the driver
/// prints them), or the group error the main loop raises first.
fn expected_text(codes: &[i64], redefine: bool) -> Result<String, String> {
    let mut depth = 0i64;
    let mut s = String::new();
    for &c in codes {
        match c {
            -1 => depth += 1,
            -2 => {
                if depth == 0 {
                    return Err("no-group-to-end".into());
                }
                depth -= 1;
            }
            n if n >= DYN_BASE => {} // scoped alias operations / sprinkled names print nothing
            n if n >= 0 => s.push_str(plain_src(n, redefine).1),
            _ => return Err("driver-printed-a-non-plain-token".into()),
        }
    }
    Ok(s)
}

/// Model outcome, canonicalised the same way as `Real`.
fn parse_m(reply: &str, redefine: bool) -> Real {
    let mut w = reply.split_ascii_whitespace();
    match w.next() {
        Some("ok") => {
            let stack = w.next().unwrap_or("?").trim_start_matches('-').to_string();
            let _groups = w.next();
            let codes: Vec<i64> = w.map(|x| x.parse().unwrap()).collect();
            match expected_text(&codes, redefine) {
                Ok(out) => Real::Ok { out, stack },
                Err(e) => Real::Err(e),
            }
        }
        Some("err") => {
            let e = w.next().unwrap_or("?");
            Real::Err(match e {
                "eof-case" | "eof-or" => "eof-case-or".into(),
                e => e.into(),
            })
        }
        _ => panic!("driver reply malformed: {reply}"),
    }
}

// ------------------------------------------------------------------------------------------
// Spec evaluation used only by the *generator* (to keep delivered braces balanced)
// ------------------------------------------------------------------------------------------

fn test_holds(t: &TestR) -> bool {
    match t.kind {
        0 => true,
        1 => false,
        2 => t.ops[0].rem_euclid(2) == 1,
        3 => match t.ops[1] {
            0 => t.ops[0] < t.ops[2],
            1 => t.ops[0] == t.ops[2],
            _ => t.ops[0] > t.ops[2],
        },
        _ => false,
    }
}

struct Gen<'a> {
    rng: &'a mut Rng,
    budget: i64,
    /// `condS`: emit scoped alias operations, sprinkled names and dynamic alias flags
    scoped: bool,
    /// allow operands without a terminating space (known finding C07-i makes every such case
    /// that has one directly before \else/\or/\fi on the executed path fail; a quarter of the
    /// cases is enough)
    unterminated: bool,
}

const OPERANDS: &[i64] = &[I32_MIN, I32_MIN + 1, -3, -2, -1, 0, 1, 2, 3, 4, 5, 7, 100, 255, I32_MAX - 1, I32_MAX];

impl<'a> Gen<'a> {
    fn operand(&mut self) -> i64 {
        match self.rng.below(10) {
            0..=5 => *self.rng.pick(OPERANDS),
            6 | 7 => self.rng.range(-9, 9),
            _ => interesting_i32(self.rng) as i64,
        }
    }
    /// How a conditional token is written: 0 primitive name, 1 control-sequence alias,
    /// 2 / 3 active-character alias (two sets of characters).
    /// How the operands of a condition are written (see `render_full`).
    fn style(&mut self) -> i64 {
        match self.rng.below(16) {
            0..=6 => 0,
            7 => 6,
            8..=10 => 1,
            11 | 12 => {
                if self.unterminated {
                    2
                } else {
                    0
                }
            }
            13 => 3,
            14 => 4,
            _ => 5,
        }
    }
    fn flag(&mut self) -> i64 {
        if self.scoped && self.rng.chance(1, 2) {
            return 4; // through a name that currently carries the class (`condS`)
        }
        match self.rng.below(6) {
            0..=2 => 0,
            3 => 1,
            4 => 2,
            _ => 3,
        }
    }
    fn test(&mut self) -> TestR {
        let kind = *self.rng.pick(&[0, 0, 1, 1, 2, 2, 2, 3, 3, 3]);
        let ops = match kind {
            2 => vec![self.operand()],
            3 => {
                let a = self.operand();
                let b = if self.rng.chance(1, 3) { a } else { self.operand() };
                vec![a, self.rng.below(3) as i64, b]
            }
            _ => vec![],
        };
        TestR { kind, al: self.flag(), sty: self.style(), ops }
    }
    /// A scoped alias operation (any name, any meaning, local or global).
    fn dyn_op(&mut self) -> i64 {
        let j = self.rng.below(DYN.len() as u64) as i64;
        let m = match self.rng.below(10) {
            0..=5 => self.rng.below(8) as i64,
            6 | 7 => M_MACRO,
            _ => M_RELAX,
        };
        dyn_op(j, m, self.rng.chance(1, 4))
    }
    /// Alias history in front of the tree: groups, local and global reassignments.
    fn scoped_prefix(&mut self) -> Vec<Item> {
        let mut v = vec![];
        let mut open = 0;
        for _ in 0..2 + self.rng.below(8) {
            match self.rng.below(6) {
                0 | 1 => {
                    v.push(Item::Plain(-1));
                    open += 1;
                }
                2 if open > 0 => {
                    v.push(Item::Plain(-2));
                    open -= 1;
                }
                _ => v.push(Item::Plain(self.dyn_op())),
            }
        }
        // half of the time the groups are closed before the tree (meanings are restored), otherwise
        // the tree runs inside them (closed by the caller at the very end)
        if self.rng.chance(1, 2) {
            for _ in 0..open {
                v.push(Item::Plain(-2));
            }
        }
        v
    }
    fn plain(&mut self) -> i64 {
        self.rng.below(N_PLAIN as u64) as i64
    }
    /// A piece of text with conditionals nested up to `depth`. In delivered text braces are
    /// paired inside the piece; in skipped text they are arbitrary.
    fn text(&mut self, depth: u32, delivered: bool) -> Vec<Item> {
        let mut v = vec![];
        let n = self.rng.below(4) + if depth > 0 { 1 } else { 0 };
        let mut open = 0;
        let mut forced_cond = depth > 0; // make sure the requested depth is reached once
        for _ in 0..n {
            self.budget -= 1;
            if self.budget < 0 {
                break;
            }
            let want_cond = depth > 0 && (forced_cond || self.rng.chance(1, 3));
            if want_cond {
                let d = if forced_cond { depth - 1 } else { self.rng.below(depth as u64) as u32 };
                forced_cond = false;
                v.push(self.cond(d, delivered));
            } else if self.scoped && self.rng.chance(1, 3) {
                // operations only make sense where they are executed; skipped text gets names
                let code = if delivered && self.rng.chance(2, 3) { self.dyn_op() } else { DYN_SPRINKLE + self.rng.below(DYN.len() as u64) as i64 };
                v.push(Item::Plain(code));
            } else {
                match self.rng.below(if self.scoped && delivered { 5 } else { 8 }) {
                    0 => {
                        v.push(Item::Plain(-1));
                        if delivered {
                            open += 1;
                        }
                    }
                    1 => {
                        if !delivered {
                            v.push(Item::Plain(-2));
                        } else if open > 0 {
                            open -= 1;
                            v.push(Item::Plain(-2));
                        } else {
                            v.push(Item::Plain(self.plain()));
                        }
                    }
                    _ => v.push(Item::Plain(self.plain())),
                }
            }
        }
        for _ in 0..open {
            v.push(Item::Plain(-2));
        }
        v
    }
    /// One conditional whose branches nest up to `d` further levels.
    fn cond(&mut self, d: u32, delivered: bool) -> Item {
        if self.rng.chance(1, 3) {
            // \ifcase
            let nbr = 1 + self.rng.below(4) as usize;
            let n = match self.rng.below(6) {
                0 => *self.rng.pick(&[I32_MIN, -3, -1, I32_MAX, nbr as i64, nbr as i64 + 1]),
                _ => self.rng.range(-1, nbr as i64),
            };
            let t = TestR { kind: 4, al: self.flag(), sty: self.style(), ops: vec![n] };
            let has_else = self.rng.chance(1, 2);
            let deep = self.rng.below(nbr as u64 + has_else as u64) as usize;
            let mut brs = vec![];
            for i in 0..nbr {
                let sel = delivered && n == i as i64;
                let dd = if i == deep { d } else { self.rng.below(d as u64 + 1) as u32 };
                brs.push((self.text(dd, sel), self.flag()));
            }
            let els = if has_else {
                let sel = delivered && (n < 0 || n >= nbr as i64);
                let dd = if deep == nbr { d } else { self.rng.below(d as u64 + 1) as u32 };
                Some((self.flag(), self.text(dd, sel)))
            } else {
                None
            };
            Item::Case(t, brs, els, self.flag())
        } else {
            let t = self.test();
            let h = test_holds(&t);
            if self.rng.chance(2, 3) {
                let (da, db) = if self.rng.chance(1, 2) { (d, self.rng.below(d as u64 + 1) as u32) } else { (self.rng.below(d as u64 + 1) as u32, d) };
                let a = self.text(da, delivered && h);
                let b = self.text(db, delivered && !h);
                Item::IfElse(t, a, self.flag(), b, self.flag())
            } else {
                let a = self.text(d, delivered && h);
                Item::IfThen(t, a, self.flag())
            }
        }
    }
}

/// Which exits of which loops the *delivered* path of the tree goes through (by the
/// specification's evaluation), for the histogram.
fn path_tags(items: &[Item], out: &mut CaseOutcome) {
    let has_cond = |v: &[Item]| v.iter().any(|i| !matches!(i, Item::Plain(_)));
    for it in items {
        match it {
            Item::Plain(_) => {}
            Item::IfThen(t, a, _) => {
                if test_holds(t) {
                    out.tag("path:true_case,fi");
                    path_tags(a, out);
                } else {
                    out.tag("path:false_case exits at fi");
                    if has_cond(a) {
                        out.tag("path:false_case skips nested conditional");
                    }
                }
            }
            Item::IfElse(t, a, _, b, _) => {
                if test_holds(t) {
                    out.tag("path:true_case,else loop");
                    if has_cond(b) {
                        out.tag("path:else loop skips nested conditional");
                    }
                    path_tags(a, out);
                } else {
                    out.tag("path:false_case exits at else");
                    if has_cond(a) {
                        out.tag("path:false_case skips nested conditional");
                    }
                    path_tags(b, out);
                }
            }
            Item::Case(t, brs, els, _) => {
                let n = t.ops[0];
                let nested_before = |k: usize| brs[..k.min(brs.len())].iter().any(|(b, _)| has_cond(b));
                if n >= 0 && (n as usize) < brs.len() {
                    let k = n as usize;
                    out.tag(if k == 0 { "path:ifcase 0" } else { "path:ifcase counts down to a branch" });
                    if k > 0 && nested_before(k) {
                        out.tag("path:ifcase loop skips nested conditional");
                    }
                    if k + 1 < brs.len() {
                        out.tag("path:or loop");
                        if brs[k + 1..].iter().any(|(b, _)| has_cond(b)) || els.as_ref().map(|(_, e)| has_cond(e)).unwrap_or(false) {
                            out.tag("path:or loop skips nested conditional");
                        }
                    } else if els.is_some() {
                        out.tag("path:else loop from a switch branch");
                    } else {
                        out.tag("path:switch branch ends at fi");
                    }
                    path_tags(&brs[k].0, out);
                } else {
                    let neg = if n < 0 { "negative" } else { "out of range" };
                    if nested_before(brs.len()) {
                        out.tag("path:ifcase loop skips nested conditional");
                    }
                    if let Some((_, e)) = els {
                        out.tag(format!("path:ifcase {neg} exits at else"));
                        path_tags(e, out);
                    } else {
                        out.tag(format!("path:ifcase {neg} exits at fi"));
                    }
                }
            }
        }
    }
}

/// Where active-character aliases occur: in text the specification delivers or in skipped text,
/// and at which nesting depth (0 = top level).
fn active_tags(items: &[Item], delivered: bool, depth: u32, out: &mut CaseOutcome) {
    let place = if delivered { "selected" } else { "skipped" };
    let mark = |al: i64, what: &str, out: &mut CaseOutcome| {
        if al >= 2 {
            out.tag(format!("active:{what} in {place} text"));
            out.tag(format!("active:alias at depth {}", depth.min(6)));
        }
    };
    for it in items {
        match it {
            Item::Plain(p) if (22..25).contains(&p.rem_euclid(N_PLAIN)) && *p >= 0 && *p < DYN_BASE => {
                out.tag(format!("active:non-conditional active char in {place} text"))
            }
            Item::Plain(_) => {}
            Item::IfThen(t, a, fi) => {
                mark(t.al, "if", out);
                mark(*fi, "fi", out);
                active_tags(a, delivered && test_holds(t), depth + 1, out);
            }
            Item::IfElse(t, a, el, b, fi) => {
                mark(t.al, "if", out);
                mark(*el, "else", out);
                mark(*fi, "fi", out);
                active_tags(a, delivered && test_holds(t), depth + 1, out);
                active_tags(b, delivered && !test_holds(t), depth + 1, out);
            }
            Item::Case(t, brs, els, fi) => {
                mark(t.al, "if", out);
                mark(*fi, "fi", out);
                let n = t.ops[0];
                for (i, (b, or)) in brs.iter().enumerate() {
                    if i + 1 != brs.len() {
                        mark(*or, "or", out);
                    }
                    active_tags(b, delivered && n == i as i64, depth + 1, out);
                }
                if let Some((el, e)) = els {
                    mark(*el, "else", out);
                    active_tags(e, delivered && (n < 0 || n >= brs.len() as i64), depth + 1, out);
                }
            }
        }
    }
}

fn depth_of(items: &[Item]) -> u32 {
    items
        .iter()
        .map(|it| match it {
            Item::Plain(_) => 0,
            Item::IfThen(_, a, _) => 1 + depth_of(a),
            Item::IfElse(_, a, _, b, _) => 1 + depth_of(a).max(depth_of(b)),
            Item::Case(_, brs, els, _) => {
                1 + brs.iter().map(|(b, _)| depth_of(b)).max().unwrap_or(0).max(els.as_ref().map(|(_, e)| depth_of(e)).unwrap_or(0))
            }
        })
        .max()
        .unwrap_or(0)
}

// ------------------------------------------------------------------------------------------
// \expandafter streams
// ------------------------------------------------------------------------------------------

#[derive(Clone, Debug, PartialEq)]
enum X {
    Xa(i64),
    NoExp,
    Cs(i64),
    Ch(i64),
}
#[derive(Clone, Debug, PartialEq)]
enum B {
    Tok(X),
    Param(i64),
}
#[derive(Clone, Debug, PartialEq)]
struct XCase {
    macros: Vec<(i64, Vec<B>)>,
    height: i64,
    stream: Vec<X>,
}

fn enc_x(x: &X, out: &mut Vec<i64>) {
    match x {
        X::Xa(n) => out.extend([0, *n]),
        X::NoExp => out.push(1),
        X::Cs(k) => out.extend([2, *k]),
        X::Ch(c) => out.extend([3, *c]),
    }
}
fn dec_x(c: &mut Cur) -> X {
    match c.next() {
        0 => X::Xa(c.next()),
        1 => X::NoExp,
        2 => X::Cs(c.next()),
        3 => X::Ch(c.next()),
        k => panic!("bad xtok tag {k}"),
    }
}
fn enc_xcase(x: &XCase) -> Vec<i64> {
    let mut out = vec![x.macros.len() as i64];
    for (np, body) in &x.macros {
        out.extend([*np, body.len() as i64]);
        for b in body {
            match b {
                B::Tok(t) => {
                    out.push(0);
                    enc_x(t, &mut out);
                }
                B::Param(i) => out.extend([1, *i]),
            }
        }
    }
    out.push(x.height);
    for t in &x.stream {
        enc_x(t, &mut out);
    }
    out
}
fn dec_xcase(v: &[i64]) -> XCase {
    let mut c = Cur(v);
    let n = c.next();
    let mut macros = vec![];
    for _ in 0..n {
        let np = c.next();
        let len = c.next();
        let mut body = vec![];
        for _ in 0..len {
            match c.next() {
                0 => body.push(B::Tok(dec_x(&mut c))),
                1 => body.push(B::Param(c.next())),
                k => panic!("bad body tag {k}"),
            }
        }
        macros.push((np, body));
    }
    let height = c.next();
    let mut stream = vec![];
    while !c.0.is_empty() {
        stream.push(dec_x(&mut c));
    }
    XCase { macros, height, stream }
}

const XA_NAMES: [&str; 3] = ["expandafter", "xb", "xc"];
fn letter(c: i64) -> char {
    (b'a' + (c.rem_euclid(26)) as u8) as char
}
fn macro_name(k: i64) -> String {
    format!("m{}", (b'A' + k as u8) as char)
}
/// Control-sequence name of an `X` (without backslash), `None` for characters.
fn x_name(x: &X, nmac: i64) -> Option<String> {
    match x {
        X::Xa(n) => Some(XA_NAMES[n.rem_euclid(3) as usize].into()),
        X::NoExp => Some("noexpand".into()),
        X::Cs(k) if *k < nmac => Some(macro_name(*k)),
        X::Cs(k) if *k == nmac => Some("iftrue".into()),
        X::Cs(k) if *k == nmac + 1 => Some("fi".into()),
        X::Cs(_) => Some("relax".into()),
        X::Ch(_) => None,
    }
}
fn x_src(x: &X, nmac: i64, s: &mut String) {
    match x_name(x, nmac) {
        Some(n) => {
            s.push('\\');
            s.push_str(&n);
            s.push(' ');
        }
        None => {
            if let X::Ch(c) = x {
                s.push(letter(*c))
            }
        }
    }
}
// ------------------------------------------------------------------------------------------
// "VM history": state-churning operations run before an \expandafter chain. They exercise the
// VM's pooled resources (token buffers handed back by discarded token lists, macro-argument
// buffers, the save stack) and each has an output the harness can predict by itself.
// ------------------------------------------------------------------------------------------

#[derive(Clone, Debug, PartialEq)]
enum HOp {
    /// `\toks k={n letters}` (local) / `\global\toks k={…}`
    Toks { k: i64, n: i64, global: bool },
    Bg,
    Eg,
    /// call of a parameterless macro: 0 `\hA` (empty), 1 `\hE` (prints e), 2 `\hD` (current body)
    Call(i64),
    /// `\hB{n letters}` (one braced argument, printed)
    CallArg(i64),
    /// `\hC xy` (two single-token arguments, printed swapped)
    CallTwo(i64),
    /// `\def\hD{n letters}` (long bodies)
    Def(i64),
    /// a fixed nested conditional
    Cond(i64),
    /// a fixed \expandafter chain
    Xa(i64),
    /// `\the\toks k`
    The(i64),
}

fn hletters(n: i64, salt: i64) -> String {
    (0..n.clamp(0, 400)).map(|i| (b'm' + ((i * 5 + n + salt).rem_euclid(14)) as u8) as char).collect()
}

const H_COND: [(&str, &str); 4] = [
    ("\\iftrue \\iffalse x\\else y\\fi \\fi ", "y"),
    ("\\ifcase 2 a\\or b\\or \\ifodd 3 c\\fi \\else d\\fi ", "c"),
    ("\\iffalse \\ifnum 1<2 a\\else b\\fi \\else \\iftrue z\\fi \\fi ", "z"),
    ("\\ifnum 5>3 \\ifcase 1 p\\or q\\fi \\fi ", "q"),
];
const H_XA: [(&str, &str); 4] = [
    ("\\expandafter n\\hE ", "ne"),
    ("\\expandafter \\expandafter \\expandafter n\\expandafter o\\hE ", "noe"),
    ("\\expandafter \\hB \\hF ", "pq"),
    ("\\expandafter \\hC \\hE rs", "res"),
];
const H_PREAMBLE: &str = "\\def\\hA{}\\def\\hE{e}\\def\\hB#1{#1}\\def\\hC#1#2{#2#1}\\def\\hD{}\\def\\hF{{pq}}";

fn enc_hist(h: &[HOp]) -> Vec<i64> {
    let mut o = vec![];
    for op in h {
        match op {
            HOp::Toks { k, n, global: false } => o.extend([0, *k, *n]),
            HOp::Bg => o.push(1),
            HOp::Eg => o.push(2),
            HOp::Call(j) => o.extend([3, *j]),
            HOp::CallArg(n) => o.extend([4, *n]),
            HOp::CallTwo(n) => o.extend([5, *n]),
            HOp::Def(n) => o.extend([6, *n]),
            HOp::Cond(v) => o.extend([7, *v]),
            HOp::Xa(v) => o.extend([8, *v]),
            HOp::The(k) => o.extend([9, *k]),
            HOp::Toks { k, n, global: true } => o.extend([10, *k, *n]),
        }
    }
    o
}
fn dec_hist(v: &[i64]) -> Vec<HOp> {
    let mut c = Cur(v);
    let mut o = vec![];
    while !c.0.is_empty() {
        o.push(match c.next() {
            0 => HOp::Toks { k: c.next().rem_euclid(4), n: c.next(), global: false },
            1 => HOp::Bg,
            2 => HOp::Eg,
            3 => HOp::Call(c.next().rem_euclid(3)),
            4 => HOp::CallArg(c.next()),
            5 => HOp::CallTwo(c.next()),
            6 => HOp::Def(c.next()),
            7 => HOp::Cond(c.next().rem_euclid(4)),
            8 => HOp::Xa(c.next().rem_euclid(4)),
            9 => HOp::The(c.next().rem_euclid(4)),
            10 => HOp::Toks { k: c.next().rem_euclid(4), n: c.next(), global: true },
            k => panic!("bad history op {k}"),
        });
    }
    o
}

/// TeX source of the history, the text it prints, and tags. Registers 0..3 are `\toks`, slot 4 is
/// the body of `\hD`; local assignments are undone at group end, global ones are not. A `}` with
/// no open group is dropped and open groups are closed at the end (so every shrunk history is
/// still a valid one).
fn render_hist(h: &[HOp], tags: &mut Vec<String>) -> (String, String) {
    let mut src = String::from(H_PREAMBLE);
    let mut out = String::new();
    let mut val: Vec<String> = vec![String::new(); 5];
    let mut saves: Vec<Vec<(usize, String)>> = vec![];
    // does the last pool-relevant operation hand back a non-empty discarded token list?
    let mut last_discard = false;
    fn assign(val: &mut [String], saves: &mut [Vec<(usize, String)>], k: usize, new: String, global: bool) -> bool {
        let old = std::mem::replace(&mut val[k], new);
        let mut discarded = !old.is_empty();
        if global {
            for lvl in saves.iter_mut() {
                lvl.retain(|(i, _)| *i != k);
            }
        } else if let Some(top) = saves.last_mut() {
            if !top.iter().any(|(i, _)| *i == k) {
                top.push((k, old));
                discarded = false; // the old value is kept on the save stack, not discarded
            }
        }
        discarded
    }
    for op in h {
        match op {
            HOp::Toks { k, n, global } => {
                let body = hletters(*n, *k);
                if *global {
                    src.push_str("\\global ");
                }
                src.push_str(&format!("\\toks {k}={{{body}}}"));
                last_discard = assign(&mut val, &mut saves, *k as usize, body, *global);
                tags.push(format!("xah:op:toks{}", if *global { "-global" } else { "" }));
                if last_discard {
                    tags.push("xah:non-empty token list discarded by an assignment".into());
                }
            }
            HOp::Bg => {
                src.push('{');
                saves.push(vec![]);
                tags.push("xah:op:group".into());
            }
            HOp::Eg => {
                if let Some(lvl) = saves.pop() {
                    src.push('}');
                    for (k, old) in lvl.into_iter().rev() {
                        let cur = std::mem::replace(&mut val[k], old);
                        if k < 4 && !cur.is_empty() {
                            last_discard = true;
                            tags.push("xah:non-empty token list discarded at group end".into());
                        }
                    }
                }
            }
            HOp::Call(j) => {
                src.push_str(["\\hA ", "\\hE ", "\\hD "][*j as usize]);
                match j {
                    1 => out.push('e'),
                    2 => out.push_str(&val[4]),
                    _ => {}
                }
                tags.push("xah:op:macro-call".into());
            }
            HOp::CallArg(n) => {
                let a = hletters(*n, 3);
                src.push_str(&format!("\\hB{{{a}}}"));
                out.push_str(&a);
                last_discard = false;
                tags.push("xah:op:macro-call-with-argument".into());
            }
            HOp::CallTwo(n) => {
                let a = hletters(2, *n);
                src.push_str(&format!("\\hC {a}"));
                out.push_str(&a.chars().rev().collect::<String>());
                last_discard = false;
                tags.push("xah:op:macro-call-with-argument".into());
            }
            HOp::Def(n) => {
                let body = hletters(*n, 9);
                src.push_str(&format!("\\def\\hD{{{body}}}"));
                assign(&mut val, &mut saves, 4, body, false);
                last_discard = false;
                tags.push("xah:op:def".into());
            }
            HOp::Cond(v) => {
                src.push_str(H_COND[*v as usize].0);
                out.push_str(H_COND[*v as usize].1);
                tags.push("xah:op:conditional".into());
            }
            HOp::Xa(v) => {
                src.push_str(H_XA[*v as usize].0);
                out.push_str(H_XA[*v as usize].1);
                last_discard = false;
                tags.push("xah:op:expandafter".into());
            }
            HOp::The(k) => {
                src.push_str(&format!("\\the\\toks {k} "));
                out.push_str(&val[*k as usize]);
                tags.push("xah:op:the".into());
            }
        }
    }
    while let Some(lvl) = saves.pop() {
        src.push('}');
        for (k, old) in lvl.into_iter().rev() {
            let cur = std::mem::replace(&mut val[k], old);
            if k < 4 && !cur.is_empty() {
                last_discard = true;
                tags.push("xah:non-empty token list discarded at group end".into());
            }
        }
    }
    if last_discard {
        tags.push("xah:chain starts right after a discarded non-empty token list".into());
    }
    (src, out)
}

fn gen_hist(rng: &mut Rng) -> Vec<HOp> {
    let n = 1 + rng.below(10);
    let len = |rng: &mut Rng| -> i64 {
        match rng.below(6) {
            0 => 0,
            1 => 1,
            2 | 3 => rng.range(2, 12),
            4 => rng.range(13, 40),
            _ => rng.range(41, 200),
        }
    };
    let mut h = vec![];
    let mut open = 0;
    for _ in 0..n {
        match rng.below(20) {
            0..=6 => h.push(HOp::Toks { k: rng.below(3) as i64, n: len(rng), global: false }),
            7 => h.push(HOp::Toks { k: rng.below(3) as i64, n: len(rng), global: true }),
            8 | 9 => {
                h.push(HOp::Bg);
                open += 1;
            }
            10 | 11 => {
                if open > 0 {
                    open -= 1;
                    h.push(HOp::Eg);
                } else {
                    h.push(HOp::The(rng.below(3) as i64));
                }
            }
            12 => h.push(HOp::Call(rng.below(3) as i64)),
            13 => h.push(HOp::CallArg(len(rng))),
            14 => h.push(HOp::CallTwo(rng.below(14) as i64)),
            15 => h.push(HOp::Def(len(rng))),
            16 => h.push(HOp::Cond(rng.below(4) as i64)),
            17 => h.push(HOp::Xa(rng.below(4) as i64)),
            _ => h.push(HOp::The(rng.below(3) as i64)),
        }
    }
    h
}

fn render_x(x: &XCase, hist_src: &str) -> String {
    let nmac = x.macros.len() as i64;
    let mut s = String::from("\\let\\xb=\\expandafter \\let\\xc=\\expandafter ");
    for (k, (np, body)) in x.macros.iter().enumerate() {
        s.push_str(&format!("\\def\\{}", macro_name(k as i64)));
        for i in 1..=*np {
            s.push_str(&format!("#{i}"));
        }
        s.push('{');
        for b in body {
            match b {
                B::Tok(t) => x_src(t, nmac, &mut s),
                B::Param(i) => s.push_str(&format!("#{}", i + 1)),
            }
        }
        s.push('}');
    }
    // the history runs after all definitions, directly before the chain
    s.push_str(hist_src);
    for _ in 0..x.height {
        s.push_str("\\iftrue ");
    }
    for t in &x.stream {
        x_src(t, nmac, &mut s);
    }
    s.push('%');
    s
}
/// What the script handlers print for the delivered tokens the driver lists.
fn parse_mx(reply: &str, nmac: i64) -> Option<Real> {
    let mut w = reply.split_ascii_whitespace();
    match w.next() {
        Some("fuel") => None,
        Some("err") => Some(Real::Err(match w.next().unwrap_or("?") {
            "other-1" => "eof-other".into(),
            "other-2" => "unexpected-fi".into(),
            e => e.into(),
        })),
        Some("ok") => {
            let v: Vec<i64> = w.map(|x| x.parse().unwrap()).collect();
            let mut c = Cur(&v);
            let mut out = String::new();
            while !c.0.is_empty() {
                let t = dec_x(&mut c);
                match &t {
                    X::Ch(ch) => out.push(letter(*ch)),
                    X::Cs(k) if *k >= nmac + 2 => {} // \relax executes silently
                    t => {
                        // an expansion command or macro handed over unexpanded is printed by name
                        out.push('\\');
                        out.push_str(&x_name(t, nmac).unwrap());
                    }
                }
            }
            Some(Real::Ok { out, stack: String::new() })
        }
        _ => panic!("driver reply malformed: {reply}"),
    }
}

fn gen_xcase(rng: &mut Rng) -> XCase {
    let nmac = rng.below(5) as i64;
    let tok = |rng: &mut Rng, min_cs: i64, allow_noexp: bool| -> X {
        match rng.below(12) {
            0..=3 => X::Xa(if rng.chance(3, 4) { 0 } else { rng.range(1, 2) }),
            4 if allow_noexp => X::NoExp,
            5..=7 if min_cs < nmac => X::Cs(rng.range(min_cs, nmac - 1)),
            8 => X::Cs(nmac + 2),
            _ => X::Ch(rng.below(8) as i64),
        }
    };
    let mut macros = vec![];
    for k in 0..nmac {
        let np = rng.below(3) as i64;
        let len = rng.below(4);
        let mut body = vec![];
        let mut unused: Vec<i64> = (0..np).collect();
        for _ in 0..len {
            if !unused.is_empty() && rng.chance(1, 2) {
                // each parameter at most once, literal macros only with a larger index: terminates
                let i = rng.below(unused.len() as u64) as usize;
                body.push(B::Param(unused.remove(i)));
            } else {
                body.push(B::Tok(tok(rng, k + 1, true)));
            }
        }
        macros.push((np, body));
    }
    let n = match rng.below(4) {
        0 => rng.below(4),
        1 | 2 => 2 + rng.below(8),
        _ => 4 + rng.below(20),
    };
    let mut stream = vec![];
    let mut height = 0;
    if rng.chance(1, 3) {
        // blocks "\xa t1 \xa t2 … \xa tk t(k+1)" (what the optimisation collapses), sometimes
        // with a differently named \expandafter in the middle, sometimes nested (\xa\xa\xa t …)
        let blocks = 1 + rng.below(3);
        for _ in 0..blocks {
            let k = 1 + rng.below(8);
            let name = if rng.chance(3, 4) { 0 } else { rng.range(1, 2) };
            for _ in 0..k {
                let nm = if rng.chance(1, 10) { rng.range(0, 2) } else { name };
                stream.push(X::Xa(nm));
                let t = if rng.chance(1, 5) { X::Xa(nm) } else { tok(rng, 0, true) };
                stream.push(t);
            }
            stream.push(tok(rng, 0, false));
        }
    } else {
        for _ in 0..n {
            if rng.chance(1, 14) {
                // conditional primitives (expandable, with a side effect on the branch stack)
                stream.push(X::Cs(nmac + if rng.chance(2, 3) { 0 } else { 1 }));
            } else {
                stream.push(tok(rng, 0, true));
            }
        }
    }
    if rng.chance(3, 4) {
        // most streams end in plain characters, so that the end-of-input errors stay a minority
        for _ in 0..2 + rng.below(2) {
            stream.push(X::Ch(rng.below(8) as i64));
        }
    }
    if rng.chance(1, 6) {
        height = rng.below(3) as i64;
    }
    XCase { macros, height, stream }
}

// ------------------------------------------------------------------------------------------

// ------------------------------------------------------------------------------------------
// `num`: surface programs — operands as tokens (Model/C07Scan.lean)
// ------------------------------------------------------------------------------------------

const REG_TABLE: [i64; 8] = [0, 1, -1, 7, I32_MIN, I32_MAX, -3, 100];
const NUM_PREAMBLE: &str = "\\def\\mS{ }\\countdef\\rA=11 \\rA=0 \\countdef\\rB=12 \\rB=1 \\countdef\\rC=13 \\rC=-1 \\countdef\\rD=14 \\rD=7 \\countdef\\rE=15 \\rE=-2147483647 \\advance\\rE by -1 \\countdef\\rF=16 \\rF=2147483647 \\countdef\\rG=17 \\rG=-3 \\countdef\\rH=18 \\rH=100 \\relax ";

/// Surface tokens as integers (see `decUToks` in the driver) → TeX source. A space token right
/// after a control word or another space cannot be written literally (the lexer drops it), so it
/// is written as `\mS` (a macro whose body is one space).
fn render_num(v: &[i64]) -> String {
    let mut s = String::from(NUM_PREAMBLE);
    let mut c = Cur(v);
    let mut glue = true; // the last thing written was a control word or a space
    while !c.0.is_empty() {
        let cs = |s: &mut String, name: &str| {
            s.push_str(name);
            s.push(' ');
        };
        let mut next_glue = false;
        match c.next() {
            0 => { cs(&mut s, "\\iftrue"); next_glue = true }
            1 => { cs(&mut s, "\\iffalse"); next_glue = true }
            2 => { cs(&mut s, "\\ifodd"); next_glue = true }
            3 => { cs(&mut s, "\\ifnum"); next_glue = true }
            4 => { cs(&mut s, "\\ifcase"); next_glue = true }
            5 => { cs(&mut s, "\\else"); next_glue = true }
            6 => { cs(&mut s, "\\or"); next_glue = true }
            7 => { cs(&mut s, "\\fi"); next_glue = true }
            8 => s.push((b'0' + c.next().clamp(0, 9) as u8) as char),
            9 => s.push('-'),
            10 => s.push('+'),
            11 => {
                if glue {
                    cs(&mut s, "\\mS");
                } else {
                    s.push(' ');
                }
                next_glue = true;
            }
            12 => s.push(['<', '=', '>'][c.next().clamp(0, 2) as usize]),
            13 => { cs(&mut s, &format!("\\r{}", (b'A' + c.next().rem_euclid(8) as u8) as char)); next_glue = true }
            14 => s.push((b'a' + c.next().rem_euclid(8) as u8) as char),
            15 => s.push('{'),
            16 => s.push('}'),
            k => panic!("bad surface token {k}"),
        }
        glue = next_glue;
    }
    s.push('%');
    s
}

fn parse_mu(reply: &str) -> Option<Real> {
    let mut w = reply.split_ascii_whitespace();
    match w.next() {
        Some("ok") => {
            let stack = w.next().unwrap_or("?").trim_start_matches('-').to_string();
            let _groups = w.next();
            let v: Vec<i64> = w.map(|x| x.parse().unwrap()).collect();
            let mut c = Cur(&v);
            let mut out = String::new();
            while !c.0.is_empty() {
                match c.next() {
                    8 => out.push((b'0' + c.next() as u8) as char),
                    9 => out.push('-'),
                    10 => out.push('+'),
                    11 => out.push(' '),
                    12 => out.push(['<', '=', '>'][c.next() as usize]),
                    14 => out.push((b'a' + c.next().rem_euclid(8) as u8) as char),
                    15 | 16 => {}
                    13 => {
                        c.next();
                    }
                    _ => {}
                }
            }
            Some(Real::Ok { out, stack })
        }
        Some("err") => match w.next().unwrap_or("?") {
            "unmodelled" => None,
            "eof-case" | "eof-or" => Some(Real::Err("eof-case-or".into())),
            e => Some(Real::Err(e.into())),
        },
        _ => panic!("driver reply malformed: {reply}"),
    }
}

/// A number as surface tokens, with the liberties the scanner allows.
fn num_toks(rng: &mut Rng, n: i64, out: &mut Vec<i64>) {
    for _ in 0..rng.below(3) {
        if rng.chance(1, 3) {
            out.push(*rng.pick(&[11, 10])); // leading space / plus
        }
    }
    let reg = REG_TABLE.iter().position(|v| *v == n);
    if n == I32_MIN || (reg.is_some() && rng.chance(1, 3)) {
        out.extend([13, reg.unwrap() as i64]);
        return;
    }
    if n < 0 {
        out.push(9);
    } else if rng.chance(1, 12) {
        out.extend([9, 9]); // two minus signs cancel
    }
    let digits: Vec<i64> = n.abs().to_string().bytes().map(|b| (b - b'0') as i64).collect();
    if rng.chance(1, 10) {
        // the digits come out of a conditional that is expanded while the number is scanned
        out.extend([2, 8, 1, 11]);
        for d in &digits {
            out.extend([8, *d]);
        }
        out.extend([5, 8, 0, 7]);
    } else {
        if rng.chance(1, 8) {
            out.extend([8, 0]); // leading zero
        }
        for d in &digits {
            out.extend([8, *d]);
        }
    }
}

fn surface_of(rng: &mut Rng, fl: &[Flat]) -> Vec<i64> {
    let mut v = vec![];
    for f in fl {
        match f {
            Flat::Plain(-1) => v.push(15),
            Flat::Plain(-2) => v.push(16),
            Flat::Plain(n) => v.extend([14, n.rem_euclid(8)]),
            Flat::Else(_) => v.push(5),
            Flat::Or(_) => v.push(6),
            Flat::Fi(_) => v.push(7),
            Flat::If(t) => {
                let term = |rng: &mut Rng, v: &mut Vec<i64>| match rng.below(8) {
                    0 | 1 => {}                 // no terminator: whatever follows ends the number
                    2 => v.extend([11, 11]),    // two spaces (the second one is delivered)
                    _ => v.push(11),
                };
                match t.kind {
                    0 => v.push(0),
                    1 => v.push(1),
                    2 | 4 => {
                        v.push(if t.kind == 2 { 2 } else { 4 });
                        num_toks(rng, t.ops[0], &mut v);
                        if v[v.len() - 2] != 13 {
                            term(rng, &mut v);
                        }
                    }
                    _ => {
                        v.push(3);
                        num_toks(rng, t.ops[0], &mut v);
                        if rng.chance(1, 3) {
                            v.push(11);
                        }
                        v.extend([12, t.ops[1]]);
                        num_toks(rng, t.ops[2], &mut v);
                        if v[v.len() - 2] != 13 {
                            term(rng, &mut v);
                        }
                    }
                }
            }
        }
    }
    v
}

struct C07;

impl C07 {
    fn classify_panic(p: &str) -> String {
        if p.contains("conditional.rs") && p.contains("subtract with overflow") {
            // e.g. `cases_left_to_skip -= 1` in if_case_primitive_fn (C09-f, fixed)
            "overflow panic in conditional.rs (subtract)".into()
        } else if p.contains("conditional.rs") && p.contains("add with overflow") {
            // e.g. `total_cases_to_skip + 1 - cases_left_to_skip` in IfCaseEndOfInputError::notes (C07-g, fixed)
            "overflow panic in conditional.rs (add)".into()
        } else {
            format!("panic {}", strip_msg(p))
        }
    }

    fn run_cond(&mut self, redefine: bool, scoped: bool, ints: &[i64], drv: &mut Driver, out: &mut CaseOutcome) {
        let items = dec_text(&mut Cur(ints));
        let mut fl = vec![];
        flatten(&items, &mut fl);
        let depth = depth_of(&items);
        out.tag(format!("cond:depth{}", depth.min(7)));
        out.nontrivial = depth >= 1;
        if redefine {
            out.tag("cond:redefined-names");
        }
        path_tags(&items, out);
        active_tags(&items, true, 0, out);
        for f in &fl {
            match f {
                Flat::If(t) => {
                    out.tag(["cond:iftrue", "cond:iffalse", "cond:ifodd", "cond:ifnum", "cond:ifcase"][t.kind as usize]);
                    if t.al != 0 {
                        out.tag("cond:alias-if");
                    }
                    if t.kind >= 2 {
                        out.tag(["cond:operand decimal+space", "cond:register-operand", "cond:operand without terminator", "cond:operand hexadecimal", "cond:operand octal", "cond:operand with macro spaces", "cond:operand with redundant signs"][t.sty.clamp(0, 6) as usize]);
                    }
                    if t.kind == 2 && t.ops[0] < 0 && t.ops[0] % 2 != 0 {
                        out.tag("cond:ifodd-negative-odd");
                    }
                    if t.kind == 4 && t.ops[0] < 0 {
                        out.tag("cond:ifcase-negative");
                    }
                    if t.ops.iter().any(|n| *n == I32_MIN || *n == I32_MAX) {
                        out.tag("cond:operand-i32-boundary");
                    }
                }
                Flat::Else(a) | Flat::Or(a) | Flat::Fi(a) if *a != 0 => out.tag("cond:alias-else-or-fi"),
                Flat::Plain(-1) | Flat::Plain(-2) => out.tag("cond:brace"),
                _ => {}
            }
        }
        let reply = drv.ask(&format!("cond {}", join(ints)));
        let parts: Vec<&str> = reply.split('|').map(|s| s.trim()).collect();
        if parts.len() != 4 {
            panic!("driver reply malformed: {reply}");
        }
        if parts[0] != format!("n={}", fl.len()) {
            panic!("harness and driver disagree on the flattened length: {} vs {}", parts[0], fl.len());
        }
        let m = parse_m(parts[1], redefine);
        let codes = |s: &str| -> Vec<i64> { s.split_ascii_whitespace().map(|x| x.parse().unwrap()).collect() };
        // S: the selected tokens, and the branch stack back at its initial (empty) height
        let s = match expected_text(&codes(parts[2]), redefine) {
            Ok(out) => Real::Ok { out, stack: String::new() },
            Err(e) => Real::Err(e),
        };
        let s_pre = match expected_text(&codes(parts[3]), redefine) {
            Ok(out) => Real::Ok { out, stack: String::new() },
            Err(e) => Real::Err(e),
        };
        if matches!(s, Real::Err(_)) {
            out.tag("cond:selected-text-has-unbalanced-braces");
        }
        {
            let mut status = vec![];
            flatten_status(&items, true, &mut status);
            assert_eq!(status.len(), fl.len());
            DELIVERED.with(|d| *d.borrow_mut() = status);
        }
        let src = if scoped {
            let mut status = vec![];
            flatten_status(&items, true, &mut status);
            let mut tags = vec![];
            let src = render_full(&fl, Some(&status), false, &mut tags);
            out.tag("cond:scoped-alias-history");
            for t in tags {
                out.tag(t);
            }
            src
        } else {
            render(&fl, redefine)
        };
        let (i, title) = run_tex(&src, false);
        match &i {
            Real::Ok { .. } => out.tag("cond:ok"),
            Real::Err(e) => out.tag(format!("cond:err:{e}")),
            Real::Panic(_) => out.tag("cond:panic"),
        }
        if m != s {
            out.fail(Kind::ModelVsSpec, "cond", "cond: model differs from select", format!("model: {m:?}\nspec: {s:?}\ntex: {src}"));
        }
        if i != s {
            let detail = format!("tex: {src}\nimpl: {i:?} {title}\nspec (selected branch): {s:?}\nmodel: {m:?}");
            match &i {
                Real::Panic(p) => out.fail(Kind::ImplPanic, "cond", Self::classify_panic(p), format!("{detail}\npanic: {p}")),
                _ => {
                    // does the same program with terminated operands behave? then the defect is the
                    // missing \relax insertion (TeX.2021.510) and nothing else
                    let terminated_ok = terminate_operands(&fl).is_some_and(|fl2| {
                        let src2 = if scoped {
                            let mut status = vec![];
                            flatten_status(&items, true, &mut status);
                            render_full(&fl2, Some(&status), false, &mut vec![])
                        } else {
                            render(&fl2, redefine)
                        };
                        run_tex(&src2, false).0 == s
                    });
                    let sig = if terminated_ok {
                        SIG_UNTERMINATED.to_string()
                    } else if i == s_pre && s_pre != s {
                        "ifodd: negative odd operand treated as even".to_string()
                    } else {
                        match &i {
                            Real::Err(e) => format!("cond: error {e} instead of the selected branch"),
                            Real::Ok { out: o, stack } => {
                                if let Real::Ok { out: so, .. } = &s {
                                    if o == so {
                                        format!("cond: branch stack not restored ({} left)", stack.len().min(3))
                                    } else {
                                        "cond: delivered tokens differ from the selected branch".to_string()
                                    }
                                } else {
                                    "cond: output where the selected text has an unbalanced brace".to_string()
                                }
                            }
                            Real::Panic(_) => unreachable!(),
                        }
                    };
                    out.fail(Kind::ImplVsSpec, "cond", sig, detail);
                }
            }
        } else if i != m {
            out.fail(Kind::ImplVsModel, "cond", "cond: impl differs from model", format!("tex: {src}\nimpl: {i:?}\nmodel: {m:?}"));
        }
    }

    fn run_tok(&mut self, redefine: bool, ints: &[i64], drv: &mut Driver, out: &mut CaseOutcome) {
        let fl = dec_flat(ints);
        out.nontrivial = fl.iter().any(|f| !matches!(f, Flat::Plain(_)));
        let reply = drv.ask(&format!("tok {}", join(ints)));
        let parts: Vec<&str> = reply.split('|').map(|s| s.trim()).collect();
        if parts.len() != 2 {
            panic!("driver reply malformed: {reply}");
        }
        let m = parse_m(parts[0], redefine);
        let m_pre = parse_m(parts[1], redefine);
        if !redefine {
            self.run_surface(ints, parts[0], drv, out);
        }
        let src = render(&fl, redefine);
        let (i, title) = run_tex(&src, false);
        match &i {
            Real::Ok { stack, .. } => out.tag(format!("tok:ok:stack{}", stack.len().min(3))),
            Real::Err(e) => out.tag(format!("tok:err:{e}")),
            Real::Panic(_) => out.tag("tok:panic"),
        }
        if i != m {
            let detail = format!("tex: {src}\nimpl: {i:?} {title}\nmodel: {m:?}");
            match &i {
                Real::Panic(p) => out.fail(Kind::ImplPanic, "tok", Self::classify_panic(p), format!("{detail}\npanic: {p}")),
                _ => {
                    let cls = |r: &Real| match r {
                        Real::Ok { .. } => "ok".to_string(),
                        Real::Err(e) => e.clone(),
                        Real::Panic(_) => "panic".into(),
                    };
                    if terminate_operands(&fl).is_some_and(|fl2| run_tex(&render(&fl2, redefine), false).0 == m) {
                        out.fail(Kind::ImplVsModel, "tok", SIG_UNTERMINATED, detail)
                    } else if i == m_pre {
                        // the code behaves exactly like the model with the pre-fix `(n % 2) == 1`
                        out.fail(Kind::ImplVsModel, "tok", "ifodd: negative odd operand treated as even", detail)
                    } else {
                        out.fail(Kind::ImplVsModel, "tok", format!("tok: impl {} / model {}", cls(&i), cls(&m)), detail)
                    }
                }
            }
        }
    }

    /// Ties `surfaceAll` / `surfaceL ∘ loosen` (theorems `operands_terminated`, `operands_loose`) to
    /// the code: the abstract program, written out by Lean with decimal operands (terminated, and
    /// as loosely as the code allows), run on the real code, must give what the *abstract* model
    /// gives for the abstract program.
    fn run_surface(&mut self, ints: &[i64], m_reply: &str, drv: &mut Driver, out: &mut CaseOutcome) {
        let reply = drv.ask(&format!("surf {}", join(ints)));
        if reply.trim() == "none" {
            out.tag("surf:operand not a decimal constant (skipped)");
            return;
        }
        // the abstract model's outcome with the `num` rendering of delivered tokens
        let m = {
            let mut w = m_reply.split_ascii_whitespace();
            match w.next() {
                Some("ok") => {
                    let stack = w.next().unwrap_or("?").trim_start_matches('-').to_string();
                    let _ = w.next();
                    let out: String = w.map(|x| x.parse::<i64>().unwrap()).filter(|c| *c >= 0).map(|c| (b'a' + c.rem_euclid(8) as u8) as char).collect();
                    Real::Ok { out, stack }
                }
                Some("err") => Real::Err(match w.next().unwrap_or("?") {
                    "eof-case" | "eof-or" => "eof-case-or".into(),
                    e => e.into(),
                }),
                _ => panic!("driver reply malformed: {m_reply}"),
            }
        };
        for (which, toks) in reply.split('|').map(|s| s.trim()).enumerate() {
            let v = if toks.is_empty() { vec![] } else { parse_i64s(toks) };
            let src = render_num(&v);
            // exact delivered characters: every space of a written-out program is a terminator the
            // scanner must consume, so no space may come out
            let (i, title) = run_tex_exact(&src);
            let name = ["surfaceL (loose)", "surfaceAll (terminated)"][which.min(1)];
            if v.len() != ints.len() {
                out.tag(format!("surf:{name} program with operands written out"));
            }
            if let Real::Panic(p) = &i {
                out.fail(Kind::ImplPanic, "surf", Self::classify_panic(p), format!("tex: {src}\npanic: {p}"));
            } else if i != m {
                out.fail(
                    Kind::ImplVsModel,
                    "surf",
                    format!("surf: {name} program differs from the abstract model"),
                    format!("tex: {src}\nimpl: {i:?} {title}\nabstract model: {m:?}"),
                );
            }
        }
    }

    fn run_num(&mut self, ints: &[i64], drv: &mut Driver, out: &mut CaseOutcome) {
        out.nontrivial = ints.iter().any(|x| (2..=4).contains(x));
        let reply = drv.ask(&format!("num {}", join(ints)));
        let parts: Vec<&str> = reply.split('|').map(|s| s.trim()).collect();
        if parts.len() != 3 {
            panic!("driver reply malformed: {reply}");
        }
        let never_closes = parts[2] == "nc=1";
        let (Some(m), Some(tex)) = (parse_mu(parts[0]), parse_mu(parts[1])) else {
            out.tag("num:unmodelled (register token reaches the main loop), skipped");
            return;
        };
        let src = render_num(ints);
        let (i, title) = run_tex_exact(&src);
        match &i {
            Real::Ok { stack, .. } => out.tag(format!("num:ok:stack{}", stack.len().min(3))),
            Real::Err(e) => out.tag(format!("num:err:{e}")),
            Real::Panic(_) => out.tag("num:panic"),
        }
        out.tag(if m == tex { "num:code model = TeX rule" } else { "num:code model != TeX rule (conditional closed while its operand is scanned)" });
        let detail = format!("tex: {src}\nimpl: {i:?} {title}\nmodel (code): {m:?}\nmodel (TeX.2021.510 rule): {tex:?}");
        if never_closes && m != tex {
            // impossible while theorem c07i_exact_boundary_run holds
            out.fail(Kind::ModelVsSpec, "num", "num: code model and TeX rule differ although no conditional is closed while scanning", detail.clone());
        }
        out.tag(if never_closes { "num:never closes while scanning" } else { "num:a conditional is closed while its operand is scanned" });
        if let Real::Panic(p) = &i {
            out.fail(Kind::ImplPanic, "num", Self::classify_panic(p), detail);
            return;
        }
        if i != m {
            let cls = |r: &Real| match r {
                Real::Ok { .. } => "ok".to_string(),
                Real::Err(e) => e.clone(),
                Real::Panic(_) => "panic".into(),
            };
            out.fail(Kind::ImplVsModel, "num", format!("num: impl {} / model {}", cls(&i), cls(&m)), detail);
        } else if m != tex {
            // the code and its model agree, TeX's rule says otherwise: finding C07-i
            out.fail(Kind::ImplVsSpec, "num", SIG_UNTERMINATED, detail);
        }
    }

    fn run_xa(&mut self, ints: &[i64], hist: &[i64], drv: &mut Driver, out: &mut CaseOutcome) {
        let x = dec_xcase(ints);
        let hist = dec_hist(hist);
        let mut htags = vec![];
        let (hist_src, hist_out) = if hist.is_empty() { (String::new(), String::new()) } else { render_hist(&hist, &mut htags) };
        if !hist.is_empty() {
            out.tag(format!("xah:history of {} ops", hist.len().min(10)));
        }
        for t in htags {
            out.tag(t);
        }
        let nmac = x.macros.len() as i64;
        let n_xa = x.stream.iter().filter(|t| matches!(t, X::Xa(_))).count();
        out.nontrivial = n_xa >= 1 || x.stream.contains(&X::NoExp);
        // longest run "\xa t \xa t …" by the same name (what the optimisation collapses)
        let mut best = 0;
        for start in 0..x.stream.len() {
            if let X::Xa(n) = &x.stream[start] {
                let mut k = 0;
                let mut j = start;
                while j < x.stream.len() && x.stream[j] == X::Xa(*n) {
                    k += 1;
                    j += 2;
                }
                best = best.max(k);
            }
        }
        out.tag(format!("xa:chain{}", best.min(6)));
        if x.stream.iter().any(|t| matches!(t, X::Xa(n) if *n != 0)) {
            out.tag("xa:alias-of-expandafter");
        }
        if x.stream.contains(&X::NoExp) {
            out.tag("xa:noexpand");
        }
        if x.macros.iter().any(|(np, _)| *np > 0) && x.stream.iter().any(|t| matches!(t, X::Cs(k) if *k < nmac && x.macros[*k as usize].0 > 0)) {
            out.tag("xa:macro-with-parameters");
        }
        if x.stream.iter().any(|t| matches!(t, X::Cs(k) if *k == nmac || *k == nmac + 1)) {
            out.tag("xa:conditional-primitive");
        }
        let reply = drv.ask(&format!("xa {}", join(ints)));
        let parts: Vec<&str> = reply.split('|').map(|s| s.trim()).collect();
        if parts.len() != 3 {
            panic!("driver reply malformed: {reply}");
        }
        // the history's own output comes first; it does not depend on the chain
        let pre = |r: Option<Real>| -> Option<Real> {
            r.map(|r| match r {
                Real::Ok { out, stack } => Real::Ok { out: format!("{hist_out}{out}"), stack },
                r => r,
            })
        };
        let (ms, mo, tex) = (pre(parse_mx(parts[0], nmac)), pre(parse_mx(parts[1], nmac)), pre(parse_mx(parts[2], nmac)));
        let (Some(ms), Some(mo), Some(tex)) = (ms, mo, tex) else {
            out.tag("xa:model-out-of-fuel(skipped)");
            return;
        };
        let src = render_x(&x, &hist_src);
        let canon = |r: Real| match r {
            Real::Ok { out, .. } => Real::Ok { out, stack: String::new() },
            r => r,
        };
        let (is, ts) = run_tex(&src, true);
        let (io, to) = run_tex(&src, false);
        let stacks = (
            if let Real::Ok { stack, .. } = &is { stack.clone() } else { String::new() },
            if let Real::Ok { stack, .. } = &io { stack.clone() } else { String::new() },
        );
        let (is, io) = (canon(is), canon(io));
        match &io {
            Real::Ok { .. } => out.tag("xa:ok"),
            Real::Err(e) => out.tag(format!("xa:err:{e}")),
            Real::Panic(_) => out.tag("xa:panic"),
        }
        let detail = format!("tex: {src}\nsimple: {is:?} {ts}\noptimized: {io:?} {to}\nmodel simple: {ms:?}\nmodel optimized: {mo:?}\nTeX reference (marked \\noexpand): {tex:?}");
        out.tag(if tex == mo { "xa:model=TeX-reference" } else { "xa:model!=TeX-reference(noexpand under expandafter)" });
        for (r, which) in [(&is, "simple"), (&io, "optimized")] {
            if let Real::Panic(p) = r {
                out.fail(Kind::ImplPanic, "xa", format!("xa {which}: {}", Self::classify_panic(p)), detail.clone());
            }
        }
        if ms != mo {
            out.fail(Kind::ModelVsSpec, "xa", "xa: the two models differ", detail.clone());
        }
        if is != io || stacks.0 != stacks.1 {
            // S: the two implementations are indistinguishable
            let cls = |r: &Real| match r {
                Real::Ok { .. } => "ok".to_string(),
                Real::Err(e) => e.clone(),
                Real::Panic(_) => "panic".into(),
            };
            let _ = cls;
            out.fail(Kind::ImplVsSpec, "xa", "xa: simple and optimized \\expandafter differ", detail.clone());
        } else if io != tex && !matches!(io, Real::Panic(_)) {
            // S = TeX's rules for \expandafter and \noexpand (Lean reference `texDeliverAll`,
            // tex.web 358/368/369), evaluated against the real output.
            if io == mo {
                // the model (= the code as it is) has no "don't expand" mark: a token put back by
                // a \noexpand that was itself expanded by \expandafter is expanded after all
                out.fail(Kind::ImplVsSpec, "xa", "noexpand: suppression lost when \\noexpand is expanded by \\expandafter", detail.clone());
            } else if !hist_out.is_empty() && matches!(&io, Real::Ok { out: o, .. } if !o.starts_with(&hist_out)) {
                // the part printed by the history itself is wrong: token registers, groups and
                // macro calls are not C07's subject, the expectation is the harness's own simulation
                out.fail(Kind::ImplVsModel, "xa", "xah: output of the VM-history preamble differs from the harness's register/group simulation", detail.clone());
            } else {
                out.fail(Kind::ImplVsSpec, "xa", "xa: delivered tokens differ from TeX's \\expandafter/\\noexpand rules", detail.clone());
            }
        }
        if io == is && io != mo && !matches!(io, Real::Panic(_)) && (io == tex || mo == tex) {
            out.fail(Kind::ImplVsModel, "xa", "xa: impl differs from model", detail);
        }
    }
}

/// The same tokens with every unterminated operand (style 2) written with its terminating space.
fn terminate_operands(fl: &[Flat]) -> Option<Vec<Flat>> {
    let mut any = false;
    let v = fl
        .iter()
        .map(|f| match f {
            Flat::If(t) if t.sty == 2 => {
                any = true;
                let mut t = t.clone();
                t.sty = 0;
                Flat::If(t)
            }
            f => f.clone(),
        })
        .collect();
    any.then_some(v)
}
const SIG_UNTERMINATED: &str = "number operand directly followed by \\else/\\or/\\fi: no \\relax is inserted";

fn single(t: TestR, a: i64, b: i64) -> String {
    let it = Item::IfElse(t, vec![Item::Plain(a)], 0, vec![Item::Plain(b)], 0);
    let mut v = vec![];
    enc_text(&[it], &mut v);
    format!("cond {}", join(&v))
}

impl Property for C07 {
    fn id(&self) -> &'static str {
        "C07"
    }
    fn rule(&self) -> String {
        "cond: boundary corpus (every \\ifodd/\\ifnum/\\ifcase operand in {-2^31,-2^31+1,-3..5,7,100,255,2^31-2,2^31-1}, \\ifcase with 1..3 branches with and without \\else), \
         then random well-nested trees of depth 0..6 (uniform over the depth) rendered to TeX with \\let aliases, operands as literals or \\count registers, user macros, \\relax and braces in branches \
         (braces paired only in text the specification selects; arbitrary in skipped text), half of them with the primitive names \\else \\fi \\or \\iftrue \\ifcase redefined as macros; \
         tok: every token list of length <= 3 (quick) / 4 (thorough) over {iftrue,iffalse,ifcase 0/1/2,else,or,fi,a,{,}} and random mutations (drop/insert/swap) of flattened trees; \
         every conditional token is written as the primitive, a control-sequence \\let alias or one of two active characters (\\catcode 13, 16 in all) \\let to it, in selected and skipped text at every depth; three more active characters (\\let to \\fi then redefined as a macro, \\let to \\relax, \\let to a letter) are plain tokens that must not count; \
         condS (half as many again): the same trees with scoped alias histories — before the tree and inside selected text, random `{`, `}`, local and \\global \\let/\\def that move ten names (3 control sequences, 2 active characters, the primitive names \\else \\fi \\or \\iftrue \\ifodd) between the eight conditional meanings, an empty macro and \\relax; the harness tracks the current meaning of every name with TeX's grouping, writes conditional tokens through names that currently carry the meaning (static aliases when the primitive's own name is reassigned) and sprinkles names that currently carry no class into selected and skipped text; \
         operands are written as decimal + space, \\count register, decimal WITHOUT terminating space (a quarter of the cases; known finding C07-i), hexadecimal, octal, with spaces produced by a macro around the relation / before the number, or with redundant minus signs; \
         a third of the cond/condR/condS cases (`cond+<seed>`) moves up to three random token ranges that start in executed text into macro bodies, through a macro argument, or into a source pushed in front of the input by an expansion primitive (`\\ps<id>`, what \\input does) followed by the pending rest of the macro body that pushed it, split at an arbitrary token boundary (ranges may run into skipped text and cut conditionals in pieces); \
         xa: random streams of 0..24 tokens over \\expandafter, two \\let aliases of it, \\noexpand, 0..4 macros with 0..2 parameters (terminating by construction), \\iftrue, \\fi, \\relax, letters; both EOF positions; \
         xah (3/5 of the xa budget): the same after a random VM history of 1..10 operations (\\toks assignments and overwrites of 0..200 tokens, local and \\global, groups that save/restore them, \\the\\toks, macro calls without/with one braced/with two arguments, \\def with long bodies, nested conditionals, \\expandafter chains) whose own output the harness predicts. \
         Non-trivial = tree depth >= 1 (cond), at least one conditional token (tok), at least one \\expandafter or \\noexpand (xa); distinct = distinct case string."
            .into()
    }
    fn builtin_corpus(&self) -> Vec<String> {
        let mut v = vec![];
        // C07-a witness: \ifodd -3 odd\else even\fi
        v.push(single(TestR { kind: 2, al: 0, sty: 0, ops: vec![-3] }, 0, 1));
        // C09-f witness: \ifcase with -2^31 and an \or at depth 0
        {
            let t = TestR { kind: 4, al: 0, sty: 1, ops: vec![I32_MIN] };
            let it = Item::Case(t, vec![(vec![Item::Plain(0)], 0), (vec![Item::Plain(1)], 0)], Some((0, vec![Item::Plain(2)])), 0);
            let mut e = vec![];
            enc_text(&[it], &mut e);
            v.push(format!("cond {}", join(&e)));
        }
        for &n in OPERANDS {
            for sty in [0, 1] {
                v.push(single(TestR { kind: 2, al: 0, sty, ops: vec![n] }, 0, 1));
            }
            for &b in OPERANDS {
                for r in 0..3 {
                    v.push(single(TestR { kind: 3, al: 0, sty: (n + b + r).rem_euclid(2), ops: vec![n, r, b] }, 0, 1));
                }
            }
            for nbr in 1..=3usize {
                for has_else in [false, true] {
                    let t = TestR { kind: 4, al: 0, sty: (n == I32_MIN) as i64, ops: vec![n] };
                    let brs = (0..nbr).map(|i| (vec![Item::Plain(i as i64)], 0)).collect();
                    let els = if has_else { Some((0, vec![Item::Plain(5)])) } else { None };
                    let mut e = vec![];
                    enc_text(&[Item::Case(t, brs, els, 0), Item::Plain(6)], &mut e);
                    v.push(format!("cond {}", join(&e)));
                }
            }
        }
        // active-character aliases of every tag class, in skipped and in selected text
        for al in [2i64, 3] {
            let t = |kind: i64, al: i64, ops: Vec<i64>| TestR { kind, al, sty: 0, ops };
            let pl = |n: i64| Item::Plain(n);
            let trees: Vec<Vec<Item>> = vec![
                // \iffalse ~a\fi b\else c\fi d   (~ = \iftrue)
                vec![Item::IfElse(t(1, 0, vec![]), vec![Item::IfThen(t(0, al, vec![]), vec![pl(0)], 0), pl(1)], 0, vec![pl(2)], 0), pl(3)],
                // \iffalse a~b\fi c   (~ = \else)
                vec![Item::IfElse(t(1, 0, vec![]), vec![pl(0)], al, vec![pl(1)], 0), pl(2)],
                // \iffalse \iftrue a~b\else c\fi d   (~ = \fi, closing the nested conditional)
                vec![Item::IfElse(t(1, 0, vec![]), vec![Item::IfThen(t(0, 0, vec![]), vec![pl(0)], al), pl(1)], 0, vec![pl(2)], 0), pl(3)],
                // \iftrue a\else ~ 3 b~c\fi d   (nested \ifodd and its \fi active, in the skipped else branch)
                vec![Item::IfElse(t(0, 0, vec![]), vec![pl(0)], 0, vec![Item::IfThen(t(2, al, vec![3]), vec![pl(1)], al), pl(2)], 0), pl(3)],
                // \ifcase 2 \ifcase 0 x~y\fi ~b~c\fi   (~ = \or at depth 1 and at depth 0)
                vec![Item::Case(
                    t(4, 0, vec![2]),
                    vec![
                        (vec![Item::Case(t(4, al, vec![0]), vec![(vec![pl(0)], al), (vec![pl(1)], 0)], None, 0)], al),
                        (vec![pl(2)], al),
                        (vec![pl(3)], 0),
                    ],
                    None,
                    al,
                )],
                // \ifcase 5 a~b\fi   (~ = \else) and the same selected: \ifcase 0 a~b~
                vec![Item::Case(t(4, 0, vec![5]), vec![(vec![pl(0)], 0)], Some((al, vec![pl(1)])), 0)],
                vec![Item::Case(t(4, al, vec![0]), vec![(vec![pl(0)], 0)], Some((al, vec![pl(1)])), al)],
                // \ifnum / \iffalse aliases nested in a skipped \ifcase branch, with the non-conditional
                // active characters ($ was \let to \fi and then redefined) around them
                vec![Item::Case(
                    t(4, 0, vec![1]),
                    vec![
                        (vec![pl(22), Item::IfElse(t(3, al, vec![1, 0, 2]), vec![pl(23)], al, vec![Item::IfThen(t(1, al, vec![]), vec![pl(22)], al)], al)], al),
                        (vec![pl(22), pl(23), pl(24), pl(4)], 0),
                    ],
                    None,
                    0,
                )],
            ];
            for items in trees {
                let mut e = vec![];
                enc_text(&items, &mut e);
                v.push(format!("cond {}", join(&e)));
                v.push(format!("condR {}", join(&e)));
            }
        }
        // operand styles: unterminated before \else / \fi / \or (C07-i), hexadecimal, octal, macro spaces
        for sty in [2i64, 3, 4, 5] {
            for n in [0i64, 1, 2, 3, -3, 255, I32_MAX] {
                v.push(single(TestR { kind: 2, al: 0, sty, ops: vec![n] }, 0, 1));
                let it = Item::IfThen(TestR { kind: 2, al: 0, sty, ops: vec![n] }, vec![], 0);
                let mut e = vec![];
                enc_text(&[it, Item::Plain(1)], &mut e);
                v.push(format!("cond {}", join(&e)));
                for r in 0..3 {
                    let it = Item::IfElse(TestR { kind: 3, al: 0, sty, ops: vec![1, r, n] }, vec![], 0, vec![Item::Plain(0)], 0);
                    let mut e = vec![];
                    enc_text(&[it, Item::Plain(1)], &mut e);
                    v.push(format!("cond {}", join(&e)));
                }
            }
            for n in [0i64, 1, 2, 5] {
                let t = TestR { kind: 4, al: 0, sty, ops: vec![n] };
                let it = Item::Case(t, vec![(vec![], 0), (vec![Item::Plain(0)], 0), (vec![], 0)], Some((0, vec![Item::Plain(1)])), 0);
                let mut e = vec![];
                enc_text(&[it, Item::Plain(2)], &mut e);
                v.push(format!("cond {}", join(&e)));
            }
        }
        // C07-g witness: input ends while \ifcase 2147483647 is skipping
        v.push("tok 2 4 0 0 2147483647 1 0".to_string());
        // \expandafter: the texbook permutations and the repository's own alias example
        for s in [
            "xa 0 0",
            "xa 0 0 0 0",
            "xa 0 0 0 0 3 1",
            "xa 0 0 1",
            "xa 2 0 1 0 3 0 0 1 0 3 1 0 0 0 2 0 2 1",
            "xa 1 0 1 0 3 0 0 0 1 0 0 0 0 0 0 0 2 0 3 1",
            "xa 1 0 1 0 3 5 0 1 2 0",
            "xa 1 0 1 0 3 5 0 0 0 3 1 1 2 0",
            // C07-h witness: \def\mA{b}\expandafter a\noexpand\mA
            "xa 1 0 1 0 3 1 0 0 0 3 0 1 2 0",
        ] {
            v.push(s.to_string());
        }
        v
    }
    fn generate(&mut self, ctx: &Ctx, rng: &mut Rng) -> Vec<String> {
        let mut v = vec![];
        let (n_cond, n_tok, n_xa) = if ctx.thorough { (60_000, 40_000, 60_000) } else { (5_000, 3_000, 6_000) };
        // tok: exhaustive small scope
        let alpha: Vec<Flat> = vec![
            Flat::If(TestR { kind: 0, al: 0, sty: 0, ops: vec![] }),
            Flat::If(TestR { kind: 1, al: 0, sty: 0, ops: vec![] }),
            Flat::If(TestR { kind: 4, al: 0, sty: 0, ops: vec![0] }),
            Flat::If(TestR { kind: 4, al: 0, sty: 0, ops: vec![1] }),
            Flat::If(TestR { kind: 4, al: 0, sty: 0, ops: vec![2] }),
            Flat::Else(0),
            Flat::Or(0),
            Flat::Fi(0),
            Flat::Plain(0),
            Flat::Plain(-1),
            Flat::Plain(-2),
        ];
        let max_len = if ctx.thorough { 4 } else { 3 };
        for len in 0..=max_len {
            let mut idx = vec![0usize; len];
            loop {
                let fl: Vec<Flat> = idx.iter().map(|i| alpha[*i].clone()).collect();
                v.push(format!("tok {}", join(&enc_flat(&fl))).trim_end().to_string());
                let mut k = 0;
                while k < len {
                    idx[k] += 1;
                    if idx[k] < alpha.len() {
                        break;
                    }
                    idx[k] = 0;
                    k += 1;
                }
                if k == len {
                    break;
                }
            }
        }
        // cond: random trees, uniform over depth 0..6
        let mut r = rng.fork();
        for i in 0..n_cond {
            let depth = (i % 7) as u32;
            let mut g = Gen { rng: &mut r, budget: 60 + 40 * depth as i64, scoped: false, unterminated: i % 4 == 3 };
            let items = g.text(depth, true);
            let mut e = vec![];
            enc_text(&items, &mut e);
            let wrap = if r.chance(1, 3) { format!("+{}", 1 + r.below(999)) } else { String::new() };
            v.push(format!("{}{wrap} {}", if r.chance(1, 2) { "condR" } else { "cond" }, join(&e)));
        }
        // condS: the same trees with scoped alias histories
        let mut r = rng.fork();
        for i in 0..n_cond / 2 {
            let depth = (i % 7) as u32;
            let mut g = Gen { rng: &mut r, budget: 60 + 40 * depth as i64, scoped: true, unterminated: i % 4 == 3 };
            let mut items = g.scoped_prefix();
            items.extend(g.text(depth, true));
            let open = items.iter().fold(0i64, |o, it| match it {
                Item::Plain(-1) => o + 1,
                Item::Plain(-2) => o - 1,
                _ => o,
            });
            for _ in 0..open.max(0) {
                items.push(Item::Plain(-2));
            }
            let mut e = vec![];
            enc_text(&items, &mut e);
            let wrap = if r.chance(1, 3) { format!("+{}", 1 + r.below(999)) } else { String::new() };
            v.push(format!("condS{wrap} {}", join(&e)));
        }
        // tok: mutated trees
        let mut r = rng.fork();
        for _ in 0..n_tok {
            let depth = r.below(4) as u32;
            let mut g = Gen { rng: &mut r, budget: 25, scoped: false, unterminated: false };
            let items = g.text(depth, true);
            let mut fl = vec![];
            flatten(&items, &mut fl);
            let n_mut = 1 + r.below(3);
            for _ in 0..n_mut {
                match r.below(3) {
                    0 if !fl.is_empty() => {
                        let k = r.below(fl.len() as u64) as usize;
                        fl.remove(k);
                    }
                    1 => {
                        let k = r.below(fl.len() as u64 + 1) as usize;
                        let t = r.pick(&alpha).clone();
                        fl.insert(k, t);
                    }
                    _ if fl.len() >= 2 => {
                        let a = r.below(fl.len() as u64) as usize;
                        let b = r.below(fl.len() as u64) as usize;
                        fl.swap(a, b);
                    }
                    _ => {}
                }
            }
            v.push(format!("{} {}", if r.chance(1, 2) { "tokR" } else { "tok" }, join(&enc_flat(&fl))).trim_end().to_string());
        }
        // num: operands as tokens. Exhaustive small scope, then loosely written trees and mutations
        {
            let alpha: Vec<Vec<i64>> = vec![
                vec![2], vec![3], vec![4], vec![0], vec![1], vec![5], vec![6], vec![7],
                vec![8, 1], vec![8, 2], vec![9], vec![11], vec![12, 0], vec![14, 0], vec![13, 3],
            ];
            let max_len = if ctx.thorough { 4 } else { 3 };
            for len in 1..=max_len {
                let mut idx = vec![0usize; len];
                loop {
                    let toks: Vec<i64> = idx.iter().flat_map(|i| alpha[*i].clone()).collect();
                    v.push(format!("num {}", join(&toks)));
                    let mut k = 0;
                    while k < len {
                        idx[k] += 1;
                        if idx[k] < alpha.len() {
                            break;
                        }
                        idx[k] = 0;
                        k += 1;
                    }
                    if k == len {
                        break;
                    }
                }
            }
            let mut r = rng.fork();
            let n_num = if ctx.thorough { 30_000 } else { 3_000 };
            for i in 0..n_num {
                let depth = (i % 5) as u32;
                let mut g = Gen { rng: &mut r, budget: 30 + 20 * depth as i64, scoped: false, unterminated: false };
                let items = g.text(depth, true);
                let mut fl = vec![];
                flatten(&items, &mut fl);
                let mut toks = surface_of(&mut r, &fl);
                if r.chance(1, 3) {
                    // mutate: drop / insert a token (digits, signs, spaces, relations, conditionals)
                    let ins: [&[i64]; 10] = [&[8, 9], &[8, 0], &[9], &[10], &[11], &[12, 1], &[7], &[5], &[2], &[13, 5]];
                    let mut units: Vec<Vec<i64>> = vec![];
                    let mut c = Cur(&toks);
                    while !c.0.is_empty() {
                        let t = c.next();
                        units.push(if matches!(t, 8 | 12 | 13 | 14) { vec![t, c.next()] } else { vec![t] });
                    }
                    for _ in 0..1 + r.below(2) {
                        if r.chance(1, 2) && !units.is_empty() {
                            let k = r.below(units.len() as u64) as usize;
                            units.remove(k);
                        } else {
                            let k = r.below(units.len() as u64 + 1) as usize;
                            units.insert(k, r.pick(&ins).to_vec());
                        }
                    }
                    toks = units.concat();
                }
                v.push(format!("num {}", join(&toks)).trim_end().to_string());
            }
        }
        // xa
        let mut r = rng.fork();
        for i in 0..n_xa {
            let x = gen_xcase(&mut r);
            if i % 5 < 2 {
                v.push(format!("xa {}", join(&enc_xcase(&x))));
            } else {
                // the same kind of chain after a random VM history
                let h = enc_hist(&gen_hist(&mut r));
                v.push(format!("xah {} {} {}", h.len(), join(&h), join(&enc_xcase(&x))));
            }
        }
        v
    }

    fn run_case(&mut self, case: &str, drv: &mut Driver) -> CaseOutcome {
        let mut out = CaseOutcome::default();
        let (cmd, rest) = case.split_once(' ').unwrap_or((case, ""));
        // `cond+17 …`: the program is partly moved into macros (see `wrap_in_macros`)
        let (cmd, wrap) = match cmd.split_once('+') {
            Some((c, w)) => (c, w.parse::<u64>().unwrap_or(0)),
            None => (cmd, 0),
        };
        WRAP.with(|w| w.set(wrap));
        WRAP_TAGS.with(|t| t.borrow_mut().clear());
        PUSH_TEXTS.with(|m| m.borrow_mut().clear());
        match cmd {
            "cond" | "condR" => self.run_cond(cmd == "condR", false, &parse_i64s(rest), drv, &mut out),
            "condS" => self.run_cond(false, true, &parse_i64s(rest), drv, &mut out),
            "tok" | "tokR" => self.run_tok(cmd == "tokR", &parse_i64s(rest), drv, &mut out),
            "num" => self.run_num(&parse_i64s(rest), drv, &mut out),
            "xa" => self.run_xa(&parse_i64s(rest), &[], drv, &mut out),
            "xah" => {
                // `xah <H> <H history ints> <xa case>`
                let v = parse_i64s(rest);
                let h = v[0] as usize;
                self.run_xa(&v[1 + h..], &v[1..1 + h], drv, &mut out)
            }
            "raw" => {
                println!("optimized: {:?}", run_tex(rest, false));
                println!("simple:    {:?}", run_tex(rest, true));
            }
            _ => panic!("bad case {case}"),
        }
        WRAP.with(|w| w.set(0));
        for t in WRAP_TAGS.with(|t| std::mem::take(&mut *t.borrow_mut())) {
            out.tag(t);
        }
        out
    }

    fn shrink(&self, case: &str) -> Vec<String> {
        let (cmd_full, rest) = case.split_once(' ').unwrap_or((case, ""));
        let cmd = cmd_full.split_once('+').map(|(c, _)| c).unwrap_or(cmd_full);
        let mut c = vec![];
        match cmd {
            "cond" | "condR" | "condS" => {
                if cmd_full != cmd {
                    c.push(format!("{cmd} {rest}")); // without the macro wrapping
                }
                let items = dec_text(&mut Cur(&parse_i64s(rest)));
                for t in shrink_items(&items) {
                    let mut e = vec![];
                    enc_text(&t, &mut e);
                    c.push(format!("{cmd_full} {}", join(&e)));
                }
                if cmd == "condR" {
                    c.push(format!("cond {rest}"));
                }
            }
            "num" => {
                let toks = parse_i64s(rest);
                let mut units: Vec<Vec<i64>> = vec![];
                let mut cu = Cur(&toks);
                while !cu.0.is_empty() {
                    let t = cu.next();
                    units.push(if matches!(t, 8 | 12 | 13 | 14) { vec![t, cu.next()] } else { vec![t] });
                }
                if units.len() > 1 {
                    c.push(format!("num {}", join(&units[..units.len() / 2].concat())));
                    c.push(format!("num {}", join(&units[units.len() / 2..].concat())));
                }
                for i in 0..units.len() {
                    let mut o = units.clone();
                    o.remove(i);
                    c.push(format!("num {}", join(&o.concat())).trim_end().to_string());
                }
            }
            "tok" | "tokR" => {
                let fl = dec_flat(&parse_i64s(rest));
                if fl.len() > 1 {
                    c.push(format!("{cmd} {}", join(&enc_flat(&fl[..fl.len() / 2]))));
                    c.push(format!("{cmd} {}", join(&enc_flat(&fl[fl.len() / 2..]))));
                }
                for i in 0..fl.len() {
                    let mut o = fl.clone();
                    o.remove(i);
                    c.push(format!("{cmd} {}", join(&enc_flat(&o))).trim_end().to_string());
                }
                if cmd == "tokR" {
                    c.push(format!("tok {rest}"));
                }
            }
            "xah" => {
                let v = parse_i64s(rest);
                let hn = v[0] as usize;
                let h = dec_hist(&v[1..1 + hn]);
                let xa = join(&v[1 + hn..]);
                let mk = |h: &[HOp]| {
                    let e = enc_hist(h);
                    format!("xah {} {} {xa}", e.len(), join(&e)).replace("  ", " ")
                };
                c.push(format!("xa {xa}"));
                if h.len() > 1 {
                    c.push(mk(&h[..h.len() / 2]));
                    c.push(mk(&h[h.len() / 2..]));
                }
                for i in 0..h.len() {
                    let mut o = h.clone();
                    o.remove(i);
                    if !o.is_empty() {
                        c.push(mk(&o));
                    }
                }
                for i in 0..h.len() {
                    // shorter token lists
                    let mut o = h.clone();
                    let changed = match &mut o[i] {
                        HOp::Toks { n, .. } | HOp::CallArg(n) | HOp::Def(n) if *n > 1 => {
                            *n /= 2;
                            true
                        }
                        _ => false,
                    };
                    if changed {
                        c.push(mk(&o));
                    }
                }
                // shrink the chain with the history kept
                let head = format!("xah {} {}", hn, join(&v[1..1 + hn]));
                for cand in self.shrink(&format!("xa {xa}")) {
                    if let Some(r) = cand.strip_prefix("xa ") {
                        c.push(format!("{head} {r}"));
                    }
                }
            }
            "xa" => {
                let x = dec_xcase(&parse_i64s(rest));
                let n = x.stream.len();
                if n > 1 {
                    for (a, b) in [(0, n / 2), (n / 2, n)] {
                        let mut y = x.clone();
                        y.stream = x.stream[a..b].to_vec();
                        c.push(format!("xa {}", join(&enc_xcase(&y))));
                    }
                }
                for i in 0..n {
                    let mut y = x.clone();
                    y.stream.remove(i);
                    c.push(format!("xa {}", join(&enc_xcase(&y))));
                }
                for k in 0..x.macros.len() {
                    if !x.macros[k].1.is_empty() {
                        for j in 0..x.macros[k].1.len() {
                            let mut y = x.clone();
                            y.macros[k].1.remove(j);
                            c.push(format!("xa {}", join(&enc_xcase(&y))));
                        }
                    }
                }
                for k in 0..x.macros.len() as i64 {
                    let refs = |t: &X| matches!(t, X::Cs(j) if *j == k);
                    let used = x.stream.iter().any(refs)
                        || x.macros.iter().any(|(_, b)| b.iter().any(|bi| matches!(bi, B::Tok(t) if refs(t))));
                    if !used {
                        let shift = |t: &X| match t {
                            X::Cs(j) if *j > k => X::Cs(*j - 1),
                            t => t.clone(),
                        };
                        let mut y = x.clone();
                        y.macros.remove(k as usize);
                        y.stream = y.stream.iter().map(shift).collect();
                        for (_, b) in y.macros.iter_mut() {
                            for bi in b.iter_mut() {
                                if let B::Tok(t) = bi {
                                    *t = shift(t);
                                }
                            }
                        }
                        c.push(format!("xa {}", join(&enc_xcase(&y))));
                    }
                }
                if x.height > 0 {
                    let mut y = x.clone();
                    y.height = 0;
                    c.push(format!("xa {}", join(&enc_xcase(&y))));
                }
            }
            _ => {}
        }
        c
    }
}

/// Smaller trees: drop an item, replace a conditional by one of its branches, shrink inside.
fn shrink_items(items: &[Item]) -> Vec<Vec<Item>> {
    let mut out = vec![];
    if items.len() > 1 {
        out.push(items[..items.len() / 2].to_vec());
        out.push(items[items.len() / 2..].to_vec());
    }
    for i in 0..items.len() {
        let mut o = items.to_vec();
        o.remove(i);
        out.push(o);
    }
    for i in 0..items.len() {
        let with = |rep: Vec<Item>| -> Vec<Item> {
            let mut o = items[..i].to_vec();
            o.extend(rep);
            o.extend_from_slice(&items[i + 1..]);
            o
        };
        match &items[i] {
            Item::Plain(_) => {}
            Item::IfThen(t, a, fi) => {
                out.push(with(a.clone()));
                for s in shrink_items(a) {
                    out.push(with(vec![Item::IfThen(t.clone(), s, *fi)]));
                }
                if t.al != 0 || t.sty != 0 || *fi != 0 {
                    let mut t2 = t.clone();
                    t2.al = 0;
                    t2.sty = 0;
                    out.push(with(vec![Item::IfThen(t2, a.clone(), 0)]));
                }
            }
            Item::IfElse(t, a, el, b, fi) => {
                out.push(with(a.clone()));
                out.push(with(b.clone()));
                out.push(with(vec![Item::IfThen(t.clone(), a.clone(), *fi)]));
                for s in shrink_items(a) {
                    out.push(with(vec![Item::IfElse(t.clone(), s, *el, b.clone(), *fi)]));
                }
                for s in shrink_items(b) {
                    out.push(with(vec![Item::IfElse(t.clone(), a.clone(), *el, s, *fi)]));
                }
                if t.al != 0 || t.sty != 0 || *fi != 0 || *el != 0 {
                    let mut t2 = t.clone();
                    t2.al = 0;
                    t2.sty = 0;
                    out.push(with(vec![Item::IfElse(t2, a.clone(), 0, b.clone(), 0)]));
                }
            }
            Item::Case(t, brs, els, fi) => {
                for (b, _) in brs {
                    out.push(with(b.clone()));
                }
                if let Some((_, e)) = els {
                    out.push(with(e.clone()));
                    out.push(with(vec![Item::Case(t.clone(), brs.clone(), None, *fi)]));
                }
                if brs.len() > 1 {
                    let mut b2 = brs.clone();
                    b2.pop();
                    out.push(with(vec![Item::Case(t.clone(), b2, els.clone(), *fi)]));
                }
                for k in 0..brs.len() {
                    for s in shrink_items(&brs[k].0) {
                        let mut b2 = brs.clone();
                        b2[k].0 = s;
                        out.push(with(vec![Item::Case(t.clone(), b2, els.clone(), *fi)]));
                    }
                }
                if let Some((el, e)) = els {
                    for s in shrink_items(e) {
                        out.push(with(vec![Item::Case(t.clone(), brs.clone(), Some((*el, s)), *fi)]));
                    }
                }
            }
        }
    }
    out
}

fn main() {
    run(C07);
}
