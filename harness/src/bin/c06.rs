//! C06 — integers, dimensions, glue: scan, print and compute exactly as TeX does.
//!
//! A case is one request line of `lean/Driver/C06.lean` (same words), optionally followed by a
//! rendering word `r<bits>` (bit0: space before the unit, bit1: `true` before a physical unit,
//! bit2: upper-case unit keyword, bit3: run through `VM::<StdLibState>` in `\batchmode` too):
//!
//!   ps <s>                      `Scaled` Display / `display_no_units` / `parse_no_units` directly and
//!                               `\dimen0=<s>sp \dimen1=\the\dimen0` through the VM
//!   psr <start> <step> <count>  the direct API for a range of values
//!   psx <lo> <hi>               (thorough) every value in [lo,hi): Rust-side round trip, printed form
//!                               rebuilt from the Lean fraction table
//!   int / inti / inta / intd / intg     `\count0=<signs><constant | \count2 | `c | \dimen2 | \skip2>`
//!   dim <signs> <head> <unit>   `\dimen0=…`
//!   glue …                      `\skip0=…`
//!   gp w st so sh sho           Display of a `Glue`, `\the\skip2`, and `\skip0=\the\skip2`
//!   op <adv|mul|div> <int|dim|glue> …   `\advance`, `\multiply`, `\divide` on `\count0`/`\dimen0`/`\skip0`
//!   seq <int|dim> a (adv|mul|div b)*   a program of primitives on `\count0` / `\dimen0`
//!   kx x n d | kn x n y | ks ip f unit | kf digits | ki i   the kernels through the `common::Scaled` API
//!   tint|tdim|tglue|tidx <flag> <text>  raw text after `\count0=` / `\dimen0=` / `\skip0=` / `\advance\count`
//!                               (`_` space, `!` = `\count2=5 `): where the constant ends; Lean cuts the text
//!
//! I = the real code (direct `common` API and real TeX source through the texlang VM with the
//! stdlib primitives), M = Lean model, S = Knuth's routines in Lean (`Model/C06Spec.lean`).

use common::{Glue, GlueOrder, Scaled};
use std::cell::RefCell;
use std::collections::HashMap;
use texlang::traits::*;
use texlang::*;
use texlang_stdlib::{math, prefix, registers, script, the, StdLibState};
use vh::*;

const MAXD: i64 = (1 << 30) - 1;
const IMIN: i64 = i32::MIN as i64;
const IMAX: i64 = i32::MAX as i64;

// ------------------------------------------------------------------------------------------
// A small state composed from the stdlib components (as texlang's users do), counting errors.
// ------------------------------------------------------------------------------------------

#[derive(Default)]
struct State {
    prefix: prefix::Component,
    registers: registers::Component<i32, 256>,
    registers_dimen: registers::Component<Scaled, 256>,
    registers_skip: registers::Component<Glue, 256>,
    script: script::Component,
    errors: RefCell<Vec<String>>,
}

impl TexlangState for State {
    fn variable_assignment_scope_hook(state: &mut Self) -> texcraft_stdext::collections::groupingmap::Scope {
        prefix::variable_assignment_scope_hook(state)
    }
    fn recoverable_error_hook(
        &self,
        recoverable_error: error::TracedTexError,
    ) -> Result<(), Box<dyn error::TexError>> {
        self.errors.borrow_mut().push(recoverable_error.error.title());
        Ok(())
    }
    // em and ex differ from each other and from texlang's default (12pt for both): see
    // `Text.emWidth` / `Text.exHeight` in lean/TexcraftModel/Model/C06Text.lean
    fn em_width(&self) -> Scaled {
        Scaled(655360)
    }
    fn ex_height(&self) -> Scaled {
        Scaled(282168)
    }
}
impl the::TheCompatible for State {}

vm::implement_has_component![State{
    prefix: prefix::Component,
    registers: registers::Component<i32, 256>,
    registers_dimen: registers::Component<Scaled, 256>,
    registers_skip: registers::Component<Glue, 256>,
    script: script::Component,
}];

fn built_ins() -> HashMap<&'static str, command::BuiltIn<State>> {
    HashMap::from([
        ("advance", math::get_advance()),
        ("multiply", math::get_multiply()),
        ("divide", math::get_divide()),
        ("count", registers::get_count()),
        ("dimen", registers::get_dimen()),
        ("skip", registers::get_skip()),
        ("global", prefix::get_global()),
        ("the", the::get_the()),
    ])
}

#[derive(Clone, Debug, PartialEq)]
struct Obs {
    out: String,
    count: [i64; 4],
    dimen: [i64; 4],
    skip: [[i64; 5]; 4],
    nerr: Option<usize>,
    fatal: Option<String>,
}

fn ord(o: GlueOrder) -> i64 {
    match o {
        GlueOrder::Normal => 0,
        GlueOrder::Fil => 1,
        GlueOrder::Fill => 2,
        GlueOrder::Filll => 3,
    }
}
fn glue5(g: &Glue) -> [i64; 5] {
    [g.width.0 as i64, g.stretch.0 as i64, ord(g.stretch_order), g.shrink.0 as i64, ord(g.shrink_order)]
}

/// Run TeX source on the small state. `Err` = panic location.
fn run_tex(src: &str) -> Result<Obs, String> {
    caught(|| {
        let mut vm = vm::VM::<State>::new_with_built_in_commands(built_ins());
        vm.push_source("c06.tex", src).unwrap();
        let r = script::run_to_string(&mut vm);
        let (out, fatal) = match r {
            Ok(s) => (s, None),
            Err(e) => (String::new(), Some(e.error.title())),
        };
        let c = vm.state.registers.values();
        let d = vm.state.registers_dimen.values();
        let s = vm.state.registers_skip.values();
        let nerr = vm.state.errors.borrow().len();
        Obs {
            out,
            count: [c[0] as i64, c[1] as i64, c[2] as i64, c[3] as i64],
            dimen: [d[0].0 as i64, d[1].0 as i64, d[2].0 as i64, d[3].0 as i64],
            skip: [glue5(&s[0]), glue5(&s[1]), glue5(&s[2]), glue5(&s[3])],
            nerr: Some(nerr),
            fatal,
        }
    })
}

/// The same source through the full standard library state, errors suppressed by `\batchmode`.
fn run_tex_stdlib(src: &str) -> Result<Obs, String> {
    caught(|| {
        let mut vm = vm::VM::<StdLibState>::new();
        vm.push_source("c06.tex", format!("\\batchmode {src}")).unwrap();
        let r = script::run_to_string(&mut vm);
        let (out, fatal) = match r {
            Ok(s) => (s, None),
            Err(e) => (String::new(), Some(e.error.title())),
        };
        let c = vm.state.registers_i32.values();
        let d = vm.state.registers_scaled.values();
        let s = vm.state.registers_glue.values();
        Obs {
            out,
            count: [c[0] as i64, c[1] as i64, c[2] as i64, c[3] as i64],
            dimen: [d[0].0 as i64, d[1].0 as i64, d[2].0 as i64, d[3].0 as i64],
            skip: [glue5(&s[0]), glue5(&s[1]), glue5(&s[2]), glue5(&s[3])],
            nerr: None,
            fatal,
        }
    })
}

// ------------------------------------------------------------------------------------------
// Rendering to TeX source
// ------------------------------------------------------------------------------------------

fn set_count(k: usize, v: i64) -> String {
    if v == IMIN {
        format!("\\count{k}=-2147483647 \\advance\\count{k} by -1 ")
    } else {
        format!("\\count{k}={v} ")
    }
}

/// Split a raw value into summands each within ±(2^30-1).
fn parts(v: i64) -> Vec<i64> {
    let mut out = vec![];
    let mut rest = v;
    loop {
        let p = rest.clamp(-MAXD, MAXD);
        out.push(p);
        rest -= p;
        if rest == 0 {
            break;
        }
    }
    out
}

fn set_dimen(k: usize, v: i64) -> String {
    let ps = parts(v);
    let mut s = format!("\\dimen{k}={}sp ", ps[0]);
    for p in &ps[1..] {
        s.push_str(&format!("\\advance\\dimen{k} by {p}sp "));
    }
    s
}

/// The exact decimal expansion of `v/2^16` (16 fraction digits), independent of the code under test.
fn exact_decimal(v: i64) -> String {
    let a = v.unsigned_abs();
    let frac = (a % 65536) as u128 * 152587890625u128; // 10^16 / 2^16 = 5^16
    format!("{}{}.{:016}", if v < 0 { "-" } else { "" }, a / 65536, frac)
}

fn order_unit(o: i64) -> &'static str {
    match o {
        0 => "pt",
        1 => "fil",
        2 => "fill",
        _ => "filll",
    }
}

/// `\skip k` := g. Components beyond ±(2^30-1) need orders normal (added in a second step).
fn set_skip(k: usize, g: &[i64; 5]) -> String {
    let pw = parts(g[0]);
    let pst = parts(g[1]);
    let psh = parts(g[3]);
    let mut s = format!(
        "\\skip{k}={}pt plus {}{} minus {}{} ",
        exact_decimal(pw[0]),
        exact_decimal(pst[0]),
        order_unit(g[2]),
        exact_decimal(psh[0]),
        order_unit(g[4])
    );
    let n = pw.len().max(pst.len()).max(psh.len());
    for i in 1..n {
        let a = pw.get(i).copied().unwrap_or(0);
        let b = pst.get(i).copied().unwrap_or(0);
        let c = psh.get(i).copied().unwrap_or(0);
        s.push_str(&format!("\\advance\\skip{k} by {a}sp "));
        if b != 0 {
            s.push_str(&format!("plus {b}sp "));
        }
        if c != 0 {
            s.push_str(&format!("minus {c}sp "));
        }
    }
    s
}

fn signs_src(w: &str) -> String {
    if w == "_" {
        return String::new();
    }
    w.chars()
        .map(|c| match c {
            'p' => '+',
            'm' => '-',
            _ => ' ',
        })
        .collect()
}

fn digits_src(w: &str) -> &str {
    if w == "_" {
        ""
    } else {
        w
    }
}

fn radix_prefix(r: &str) -> &'static str {
    match r {
        "8" => "'",
        "16" => "\"",
        _ => "",
    }
}

struct Cursor<'a> {
    w: Vec<&'a str>,
    i: usize,
}
impl<'a> Cursor<'a> {
    fn next(&mut self) -> &'a str {
        let x = self.w.get(self.i).copied().unwrap_or("");
        self.i += 1;
        x
    }
    fn peek(&self) -> &'a str {
        self.w.get(self.i).copied().unwrap_or("")
    }
    fn int(&mut self) -> i64 {
        self.next().parse().unwrap_or_else(|_| panic!("bad case: integer expected"))
    }
}

/// Render `<signs> <head> <unit>`; preloads go to `pre`, using registers `base`, `base+1`.
/// Returns (source text, tags).
fn render_part(c: &mut Cursor, pre: &mut String, base: usize, bits: u32, tags: &mut Vec<String>) -> String {
    let mut s = signs_src(c.next());
    let head = c.next();
    let mut needs_unit = true;
    match head {
        "K" => {
            let r = c.next();
            let ds = c.next();
            let fr = c.next();
            s.push_str(radix_prefix(r));
            s.push_str(digits_src(ds));
            if fr != "-" {
                s.push_str(fr);
            }
            if r == "16" {
                s.push(' ');
            }
            tags.push(format!("head:const{r}{}", if fr != "-" { "+frac" } else { "" }));
            if fr.len() > 18 {
                tags.push("frac>17digits".into());
            }
            if fr.len() == 18 && fr.ends_with('5') {
                tags.push("frac=17digits-ending-5".into());
            }
        }
        "P" => {
            let fr = c.next();
            s.push('.');
            s.push_str(digits_src(fr));
            tags.push("head:point".into());
        }
        "I" => {
            let i = c.int();
            pre.push_str(&set_count(base, i));
            s.push_str(&format!("\\count{base} "));
            tags.push("head:int".into());
        }
        "D" => {
            let d = c.int();
            pre.push_str(&set_dimen(base, d));
            s.push_str(&format!("\\dimen{base} "));
            needs_unit = false;
            tags.push("head:dimen".into());
        }
        "W" => {
            let d = c.int();
            pre.push_str(&set_skip(base, &[d, 65536, 0, 0, 0]));
            s.push_str(&format!("\\skip{base} "));
            needs_unit = false;
            tags.push("head:skipwidth".into());
        }
        other => panic!("bad case: head {other:?}"),
    }
    if !needs_unit {
        return s;
    }
    if bits & 1 != 0 && !s.ends_with(' ') {
        s.push(' ');
    }
    let u = c.next();
    let up = |k: &str| if bits & 4 != 0 { k.to_ascii_uppercase() } else { k.to_string() };
    match u {
        "vi" => {
            let v = c.int();
            pre.push_str(&set_count(base + 1, v));
            s.push_str(&format!("\\count{} ", base + 1));
            tags.push("unit:count".into());
        }
        "vd" => {
            let v = c.int();
            pre.push_str(&set_dimen(base + 1, v));
            s.push_str(&format!("\\dimen{} ", base + 1));
            tags.push("unit:dimen".into());
        }
        "vg" => {
            let v = c.int();
            pre.push_str(&set_skip(base + 1, &[v, 0, 0, 65536, 1]));
            s.push_str(&format!("\\skip{} ", base + 1));
            tags.push("unit:skip".into());
        }
        "em" | "ex" => {
            s.push_str(&up(u));
            s.push(' ');
            tags.push(format!("unit:{u}"));
        }
        "bad" => {
            s.push_str("xy ");
            tags.push("unit:bad".into());
        }
        f if f.starts_with("fil") => {
            let ls: usize = f[3..].parse().unwrap();
            s.push_str(&up("fil"));
            for k in 0..ls {
                // keywords match in either case, letter by letter
                s.push(if bits & 4 != 0 && k % 2 == 0 { 'L' } else { 'l' });
            }
            s.push(' ');
            tags.push(format!("unit:fil+{ls}l"));
        }
        p => {
            if bits & 2 != 0 {
                s.push_str(&up("true"));
            }
            s.push_str(&up(p));
            s.push(' ');
            tags.push(format!("unit:{p}"));
        }
    }
    s
}

// ------------------------------------------------------------------------------------------
// Comparison
// ------------------------------------------------------------------------------------------

/// What a stream observed: values (registers) and the number of recoverable errors, or a panic.
#[derive(Clone, Debug, PartialEq)]
enum Got {
    Vals(Vec<i64>, Option<usize>),
    Panic(String),
}

/// `ok v… e` / `set v…` / `error` / `panic` / `undef`, relative to the unchanged value `old`.
#[derive(Clone, Debug, PartialEq)]
enum Want {
    Vals(Vec<i64>, usize),
    Panic,
    Undef,
}

fn parse_want(s: &str, old: &[i64], nvals: usize) -> Want {
    let w: Vec<&str> = s.split_ascii_whitespace().collect();
    match w.first().copied() {
        Some("ok") => {
            let v: Vec<i64> = w[1..].iter().map(|x| x.parse().unwrap()).collect();
            // ok v.. nerr [order]: callers give nvals
            let vals = v[..nvals].to_vec();
            let e = v[nvals] as usize;
            Want::Vals(vals, e)
        }
        Some("set") => Want::Vals(w[1..].iter().map(|x| x.parse().unwrap()).collect(), 0),
        Some("error") => Want::Vals(old.to_vec(), 1),
        Some("panic") => Want::Panic,
        Some("undef") => Want::Undef,
        _ => panic!("driver reply not understood: {s:?}"),
    }
}

fn compare(o: &mut CaseOutcome, stream: &str, got: &Got, model: &Want, spec: &Want) {
    compare_l(o, stream, &|_| stream.to_string(), got, model, spec)
}

/// `label(i)`: the defect-class label when value `i` is the first that differs (`None`: error count / panic).
fn compare_l(o: &mut CaseOutcome, stream: &str, label: &dyn Fn(Option<usize>) -> String, got: &Got, model: &Want, spec: &Want) {
    let mut spec_failed = false;
    match (got, spec) {
        (Got::Panic(loc), _) => {
            // S: a value or the documented error, never a crash
            o.fail(Kind::ImplPanic, stream, format!("{}: panic {}", label(None), ploc(loc)), format!("panic at {loc}; spec {spec:?}"));
            spec_failed = true;
        }
        (Got::Vals(..), Want::Undef) => {}
        (Got::Vals(v, e), Want::Vals(sv, se)) => {
            if v != sv {
                let idx = v.iter().zip(sv.iter()).position(|(a, b)| a != b);
                // The recorded deviation C06-f and nothing else: the model reproduces the implementation
                // exactly, and the only difference to TeX is the sign of a value clamped to max_dimen.
                let model_same = matches!(model, Want::Vals(mv, me) if mv == v && e.map_or(true, |e| e == *me));
                let only_clamp_sign = v.len() == sv.len()
                    && v.iter().zip(sv.iter()).all(|(a, b)| a == b || (*a == -*b && a.abs() == MAXD))
                    && e.map_or(true, |e| e == *se)
                    && *se > 0;
                let what = if model_same && only_clamp_sign { "clamp sign of a negative unit" } else { "value" };
                o.fail(Kind::ImplVsSpec, stream, format!("{}: {what}", label(idx)), format!("impl {v:?} errors {e:?}; TeX {sv:?} errors {se}"));
                spec_failed = true;
            } else if let Some(e) = e {
                if (*e == 0) != (*se == 0) || *e != *se {
                    o.fail(Kind::ImplVsSpec, stream, format!("{}: errors", label(None)), format!("impl {v:?} errors {e}; TeX {sv:?} errors {se}"));
                    spec_failed = true;
                }
            }
        }
        (Got::Vals(..), Want::Panic) => unreachable!(),
    }
    // I vs M
    let model_ok = match (got, model) {
        (Got::Panic(_), Want::Panic) => true,
        (Got::Vals(v, e), Want::Vals(mv, me)) => v == mv && e.map_or(true, |e| e == *me),
        _ => false,
    };
    if !model_ok && !spec_failed {
        o.fail(Kind::ImplVsModel, stream, format!("{stream}: model"), format!("impl {got:?}; model {model:?}"));
    }
    if !spec_failed && model_ok {
        if let (Want::Vals(..), Want::Vals(..)) = (model, spec) {
            if model != spec {
                o.fail(Kind::ModelVsSpec, stream, format!("{stream}: model-vs-spec"), format!("model {model:?}; spec {spec:?}"));
            }
        }
    }
}

/// `file:line` of a panic, with the toolchain-specific prefix of library paths removed.
fn ploc(loc: &str) -> String {
    let l = strip_msg(loc);
    match l.find("library/core/") {
        Some(i) => l[i..].to_string(),
        None => l,
    }
}

/// Defect class of one `<head> <unit>` part from the tags `render_part` produced for it.
fn class_of(tags: &[String]) -> String {
    let mut head = "none";
    let mut unit = "none";
    for t in tags {
        if let Some(h) = t.strip_prefix("head:") {
            head = if h.starts_with("const") { "const" } else if h == "skipwidth" { "dimen" } else { h };
        }
        if let Some(u) = t.strip_prefix("unit:") {
            unit = match u {
                "count" | "dimen" | "skip" | "em" | "ex" => "internal",
                "bad" => "bad",
                f if f.starts_with("fil") => "fil",
                _ => "phys",
            };
        }
    }
    format!("{head}/{unit}")
}

fn split_reply(r: &str) -> (&str, &str) {
    let mut it = r.splitn(2, " | ");
    let a = it.next().unwrap_or("");
    let b = it.next().unwrap_or("");
    (a, b)
}

// ------------------------------------------------------------------------------------------
// The property
// ------------------------------------------------------------------------------------------

struct C06 {
    jobs: usize,
    frac_table: Option<Vec<String>>,
    sweep_values: u64,
}

fn bits_of(words: &mut Vec<&str>) -> u32 {
    if let Some(l) = words.last() {
        if let Some(b) = l.strip_prefix('r') {
            if let Ok(b) = b.parse::<u32>() {
                words.pop();
                return b;
            }
        }
    }
    0
}

/// Printed form → (neg, integer part, fraction digits) for `pschk`.
fn destructure(p: &str) -> Option<(bool, String, Vec<u32>)> {
    let (neg, rest) = match p.strip_prefix('-') {
        Some(r) => (true, r),
        None => (false, p),
    };
    let (ip, fr) = rest.split_once('.')?;
    if ip.is_empty() || !ip.bytes().all(|b| b.is_ascii_digit()) || !fr.bytes().all(|b| b.is_ascii_digit()) {
        return None;
    }
    Some((neg, ip.to_string(), fr.bytes().map(|b| (b - b'0') as u32).collect()))
}

fn direct_print_scan(s: i32) -> Result<(String, String, String, String), String> {
    caught(|| {
        let sc = Scaled(s);
        let d = sc.display_no_units().to_string();
        let full = sc.to_string();
        let back = match Scaled::parse_no_units(&d) {
            Ok(v) => format!("ok:{}", v.0),
            Err(_) => "overflow".to_string(),
        };
        let back2 = match Scaled::parse_from_string(&full) {
            Ok(v) => format!("ok:{}", v.0),
            Err(_) => "overflow".to_string(),
        };
        (d, full, back, back2)
    })
}

impl C06 {
    fn ps_check_one(&self, o: &mut CaseOutcome, drv: &mut Driver, s: i64, reply: &str, stream: &str) {
        // reply = "<str>:<scan>:<specok>" or "panic"
        let got = direct_print_scan(s as i32);
        let (d, full, back, back2) = match got {
            Err(loc) => {
                o.fail(Kind::ImplPanic, stream, format!("{stream}: panic {}", ploc(&loc)), format!("s={s}: panic at {loc}"));
                return;
            }
            Ok(x) => x,
        };
        let mut it = reply.split(':');
        let mstr = it.next().unwrap_or("");
        let rest: Vec<&str> = it.collect();
        let (mscan, sok) = if rest.len() == 3 { (format!("{}:{}", rest[0], rest[1]), rest[2]) } else { (rest.first().copied().unwrap_or("").to_string(), rest.get(1).copied().unwrap_or("")) };
        let in_range = s.abs() <= MAXD;
        let mut spec_failed = false;
        // S on the real output
        if full != format!("{d}pt") {
            o.fail(Kind::ImplVsSpec, stream, format!("{stream}: Display is not display_no_units + pt"), format!("s={s}: {full:?} vs {d:?}"));
            spec_failed = true;
        }
        if d == mstr && (sok == "1" || !in_range) {
            // identical to the model's string, on which Lean evaluated S (scans back, is TeX's output)
        } else {
            // ask Lean for the verdict on the real string
            match destructure(&d) {
                None => {
                    o.fail(Kind::ImplVsSpec, stream, format!("{stream}: printed form malformed"), format!("s={s}: {d:?}"));
                    spec_failed = true;
                }
                Some((neg, ip, fr)) => {
                    let v = drv.ask(&format!("pschk {s} {} {ip} {}", neg as u8, join(&fr)));
                    let fine = if in_range { v == "rt=1 short=1 tex=1" } else { v.ends_with("tex=1") };
                    if !fine {
                        o.fail(Kind::ImplVsSpec, stream, format!("{stream}: printed form {}", v.replace('1', "+").replace('0', "-")), format!("s={s}: printed {d:?}; verdict {v}; TeX prints {mstr:?}"));
                        spec_failed = true;
                    }
                }
            }
        }
        if in_range && back != format!("ok:{s}") {
            o.fail(Kind::ImplVsSpec, stream, format!("{stream}: scan(print s) != s"), format!("s={s}: printed {d:?}, scanned back {back}"));
            spec_failed = true;
        }
        if in_range && back2 != format!("ok:{s}") {
            o.fail(Kind::ImplVsSpec, stream, format!("{stream}: parse_from_string(Display s) != s"), format!("s={s}: printed {full:?}, parse_from_string gives {back2}"));
        }
        if !spec_failed && (d != mstr || back != mscan) {
            o.fail(Kind::ImplVsModel, stream, format!("{stream}: model"), format!("s={s}: impl {d:?} {back}; model {mstr:?} {mscan}"));
        }
    }

    fn load_frac_table(&mut self, drv: &mut Driver) {
        if self.frac_table.is_some() {
            return;
        }
        let mut t = Vec::with_capacity(65536);
        for k in 0..16 {
            let r = drv.ask(&format!("fractab {} {}", k * 4096, (k + 1) * 4096));
            t.extend(r.split(' ').map(|s| s.to_string()));
        }
        assert_eq!(t.len(), 65536);
        self.frac_table = Some(t);
    }

    /// Every value in [lo,hi): printed form == sign ++ |s|>>16 ++ "." ++ table[|s| & 0xffff] and
    /// parse_no_units(print(s)) == s. Returns the first few offending values.
    fn sweep(&self, lo: i64, hi: i64) -> Vec<(i64, String)> {
        let table = self.frac_table.as_ref().unwrap();
        let jobs = self.jobs.max(1) as i64;
        let chunk = (hi - lo + jobs - 1) / jobs;
        let bad = std::sync::Mutex::new(vec![]);
        std::thread::scope(|sc| {
            for j in 0..jobs {
                let a = lo + j * chunk;
                let b = (a + chunk).min(hi);
                let bad = &bad;
                sc.spawn(move || {
                    use std::fmt::Write;
                    let mut buf = String::with_capacity(32);
                    let mut exp = String::with_capacity(32);
                    for s in a..b {
                        buf.clear();
                        exp.clear();
                        let r = std::panic::catch_unwind(std::panic::AssertUnwindSafe(|| {
                            write!(buf, "{}", Scaled(s as i32).display_no_units()).unwrap();
                            Scaled::parse_no_units(&buf).map(|x| x.0 as i64)
                        }));
                        let abs = s.unsigned_abs();
                        if s < 0 {
                            exp.push('-');
                        }
                        write!(exp, "{}.{}", abs >> 16, table[(abs & 0xffff) as usize]).unwrap();
                        let ok = matches!(r, Ok(Ok(v)) if v == s) && buf == exp;
                        if !ok {
                            let mut g = bad.lock().unwrap();
                            if g.len() < 8 {
                                g.push((s, format!("printed {buf:?}, model {exp:?}, scanned back {r:?}")));
                            }
                        }
                    }
                });
            }
        });
        bad.into_inner().unwrap()
    }
}

fn classify_tags(o: &mut CaseOutcome, stream: &str, got: &Got, spec: &Want) {
    match got {
        Got::Panic(_) => o.tag(format!("{stream}:impl-panic")),
        Got::Vals(_, e) => {
            if e.unwrap_or(0) > 0 {
                o.tag(format!("{stream}:error"));
            } else {
                o.tag(format!("{stream}:ok"));
            }
        }
    }
    if *spec == Want::Undef {
        o.tag(format!("{stream}:tex-undefined"));
    }
}

impl Property for C06 {
    fn id(&self) -> &'static str {
        "C06"
    }

    fn rule(&self) -> String {
        "boundary corpus (every radix/unit/op at its overflow thresholds, the recorded defects) -> exhaustive small scope \
         (all 65 536 fraction values with several integer parts, every unit x fraction length 0..20, 40x40 operand grid per \
         primitive and type) -> random (boundary-heavy 32-bit operands, random digit strings and sign strings). thorough adds \
         the exhaustive Rust-side print->scan sweep over all |s| <= 2^30-1. A case is non-trivial unless its value is zero \
         with no error (ps 0, 0pt, 0*0); a psr/psx case counts once."
            .into()
    }

    fn builtin_corpus(&self) -> Vec<String> {
        let mut v: Vec<String> = vec![];
        for s in [0i64, 1, -1, 2, 3, 65535, 65536, 65537, 32768, -32768, 6553, 6554, MAXD, -MAXD, MAXD + 1, -MAXD - 1, IMAX, IMIN, IMIN + 1, 65536 * 16383, 1 << 30] {
            v.push(format!("ps {s}"));
        }
        // recorded defects (DESIGN section 6)
        v.push("op mul int -1073741824 2".into());
        v.push("dim _ I -2147483648 sp".into());
        v.push("dim _ K 10 0 .99999 vi 2147483647".into());
        v.push("op div int -2147483648 -1".into());
        v.push("op adv glue 65536 0 1 0 0 0 327680 0 0 0".into());
        v.push("op adv glue 65536 327680 0 0 0 0 0 1 0 0".into());
        v.push("dim _ K 10 20000 - vd -65536".into());
        v.push("dim _ D 1073741824".into());
        v.push("dim m D -2147483648".into());
        v.push("glue _ K 10 0 - pt plus _ K 10 16383 .999999 fil0".into());
        v.push("op mul dim -2147483648 -1".into());
        v.push("op mul dim 5 -2147483648".into());
        v.push("int mm 10 2147483648".into());
        v.push("int m 10 2147483648".into());
        v.push("int _ 16 7FFFFFFF".into());
        v.push("int _ 16 80000000".into());
        v.push("int _ 8 17777777777".into());
        v.push("int _ 8 20000000000".into());
        v.push("int _ 8 _".into());
        v.push("int _ 16 _".into());
        v.push("inti m -2147483648".into());
        v.push("dim _ K 10 16383 .99998 pt".into());
        v.push("dim _ K 10 16383 .99999 pt".into());
        v.push("dim m K 10 16384 - pt".into());
        v.push("dim _ K 10 1073741823 .99999999 sp".into());
        v.push("dim _ K 10 1073741824 - sp".into());
        v.push("dim _ K 10 99999999999 - pt".into());
        v.push("dim _ K 16 FF - pt".into());
        v.push("dim _ P _ pt".into());
        v.push("dim _ K 10 1 - bad".into());
        v.push("dim _ K 10 1 .5 em".into());
        v.push("dim _ K 10 1 - pt r7".into());
        v.push("glue _ K 10 1 - pt plus _ K 10 2 - fil5 minus m P 5 fil0".into());
        v.push("glue m G 65536 131072 2 -3 0".into());
        v.push("glue m I -5 pt plus _ I 7 fil1".into());
        v.push("gp 65536 131072 2 -3 0".into());
        for c in ["tdim 0 1_.5pt", "tglue 0 1ptplus2_,5fil", "tdim 0 \"A_.5pt", "tdim 0 '7_.5pt", "tint 0 \"1f", "tdim 0 \"10bp", "tdim 0 \"2cc", "tdim 0 \"1dd", "tidx 0 \"2by5", "tglue 0 1ptplus\"Afil", "tint 0 '178", "tint 1 \"1F", "tdim 0 \"Aem"] {
            v.push(c.to_string());
        }
        v.push("gp -1073741823 1073741823 3 1 1".into());
        v
    }

    fn generate(&mut self, ctx: &Ctx, rng: &mut Rng) -> Vec<String> {
        self.jobs = ctx.jobs;
        let mut v: Vec<String> = vec![];
        let t = ctx.thorough;

        // ---- print/scan: all 65 536 fraction values under several integer parts, both signs
        let ips: &[i64] = if t { &[0, 1, 9, 10, 99, 100, 999, 1000, 9999, 10000, 16382, 16383] } else { &[0, 7, 16383] };
        for ip in ips {
            for k in 0..32 {
                v.push(format!("psr {} 1 2048", ip * 65536 + k * 2048));
                if *ip != 0 || k > 0 {
                    v.push(format!("psr {} -1 2048", -(ip * 65536 + k * 2048)));
                } else {
                    v.push("psr 0 -1 2048".to_string());
                }
            }
        }
        // stride over the whole legal range and over the rest of i32
        let mut r = rng.fork();
        let nstride = if t { 400 } else { 60 };
        for _ in 0..nstride {
            let step = r.range(1, 1 << 20) | 1;
            let count = 2048;
            let start = r.range(-MAXD, MAXD - step * count);
            v.push(format!("psr {start} {step} {count}"));
        }
        for _ in 0..(if t { 40 } else { 8 }) {
            let step = r.range(1, 1 << 19) | 1;
            let start = r.range(IMIN, IMAX - step * 2048);
            v.push(format!("psr {start} {step} 2048"));
        }
        for _ in 0..(if t { 3000 } else { 300 }) {
            v.push(format!("ps {}", interesting_i32(&mut r)));
        }
        for _ in 0..(if t { 2000 } else { 300 }) {
            v.push(format!("ps {}", r.range(-MAXD, MAXD)));
        }
        if t {
            // the whole quantifier on the Rust side
            let n = 64i64;
            let total = 2 * MAXD + 1;
            let chunk = (total + n - 1) / n;
            for k in 0..n {
                let lo = -MAXD + k * chunk;
                let hi = (lo + chunk).min(MAXD + 1);
                v.push(format!("psx {lo} {hi}"));
            }
        }

        // ---- integer constants
        let mut r = rng.fork();
        let sign_strings = ["_", "p", "m", "mm", "pm", "mp", "mmm", "sms", "ms", "mspm", "pppp", "msmsm"];
        let mags: &[u128] = &[0, 1, 7, 8, 9, 10, 15, 16, 255, 256, 32767, 65535, 65536, 214748364, 214748365, 1073741823, 1073741824, 2147483639, 2147483640, 2147483646, 2147483647, 2147483648, 2147483649, 4294967295, 4294967296, 4294967297, 21474836470, 21474836480, 18446744073709551615, 18446744073709551616, 18446744073709551617, 340282366920938463463374607431768211455];
        for radix in [8u32, 10, 16] {
            for m in mags {
                for sg in sign_strings {
                    let ds = match radix {
                        8 => format!("{m:o}"),
                        16 => format!("{m:X}"),
                        _ => format!("{m}"),
                    };
                    v.push(format!("int {sg} {radix} {ds}"));
                    if *m < 100 {
                        v.push(format!("int {sg} {radix} 000{ds}"));
                    }
                }
            }
        }
        for _ in 0..(if t { 6000 } else { 1200 }) {
            let radix = *r.pick(&[8u32, 10, 16]);
            let len = if r.chance(1, 3) { r.range(1, 40) } else { r.range(1, 12) };
            let mut ds = String::new();
            for _ in 0..len {
                let d = r.below(radix as u64) as u32;
                ds.push(std::char::from_digit(d, 16).unwrap().to_ascii_uppercase());
            }
            let sg = *r.pick(&sign_strings);
            v.push(format!("int {sg} {radix} {ds}"));
        }
        for _ in 0..(if t { 1500 } else { 300 }) {
            let sg = *r.pick(&sign_strings);
            let i = interesting_i32(&mut r);
            let k = *r.pick(&["inti", "intd", "intg"]);
            v.push(format!("{k} {sg} {i}"));
        }
        for c in b"aAzZ09!?@*" {
            for sg in ["_", "m", "mm"] {
                v.push(format!("inta {sg} {c}"));
            }
        }
        // beyond ASCII (the value is the Unicode scalar, never truncated) and the `\c form
        for c in [0xA7u32, 0xE9, 0xFF, 0x100, 0x17F, 0x3B1, 0x20AC, 0xFFFD, 0x10000, 0x1F600, 0x10FFFF] {
            for sg in ["_", "m"] {
                v.push(format!("inta {sg} {c}"));
                v.push(format!("intc {sg} {c}"));
            }
        }
        for c in "aAzZ09!?@*%{}$&#^_~\\|<\"'`.,;-+= ".chars() {
            if c != ' ' {
                v.push(format!("intc _ {}", c as u32));
                v.push(format!("intc m {}", c as u32));
            }
        }
        for _ in 0..(if t { 400 } else { 60 }) {
            let c = loop {
                let c = match r.below(3) {
                    0 => r.range(0x80, 0x7FF),
                    1 => r.range(0x800, 0xFFFF),
                    _ => r.range(0x10000, 0x10FFFF),
                } as u32;
                if char::from_u32(c).is_some() {
                    break c;
                }
            };
            v.push(format!("{} {} {c}", if r.chance(1, 2) { "inta" } else { "intc" }, *r.pick(&["_", "m"])));
        }

        // ---- where a constant ends (TeX §444-§445): every radix × digit strings × what follows immediately
        // (no space): a-f, A-F (category letter, and category other via \catcode), g-z, G-Z, 8/9/0, units,
        // keywords, a control sequence, a space, end of input — in integer, dimension, glue and
        // register-index context. Lean cuts the text (M with parse_constant's decoding, S with §445).
        {
            let mut r = rng.fork();
            let mut followers: Vec<String> = vec![];
            for c in "abcdefABCDEFglptzGLPTZ890".chars() {
                followers.push(c.to_string());
            }
            for u in ["pt", "bp", "cc", "cm", "dd", "em", "ex", "in", "mm", "pc", "sp", "BP", "CC", "DD", "EM", "EX", "Bp", "cC", "truebp", "truecc", "bp!", "cc!x", "dd_e", "em_f"] {
                followers.push(u.to_string());
            }
            for k in ["by", "plus", "minus", "fil", "fill", "filll", "fillll", "FIL", "fiLL", "FILLL", "filL", "fIlLlL", "pT", "Pt", "TRUEpt", "tRuEin", "eM", "Ex", "true", "to", "depth", "b", "by5"] {
                followers.push(k.to_string());
            }
            // blanks before keywords (TeX §407 scan_keyword skips them): after `true`, between `fil` and `l`s,
            // before `plus`/`minus`/units after an already consumed optional space
            for x in ["true_pt", "true_cm", "TRUE_in", "true__bp", "_true_pt", "_true_mm", "fil_l", "fil_l_l", "fil_L", "fill_l", "fil_lL", "FIL_L_l", "fil_lll", "fil_x", "fil_", "em_", "_em", "_ex_x", "__pt", "_pt_", "true_em", "true_xy"] {
                followers.push(x.to_string());
            }
            // a space ends the number: a decimal point after it does not start a fraction (TeX §448)
            for x in ["_.5pt", "_,5pt", "_.5", "_.pt", "_.5fil", "_,25fill", "_.99999in", "_.5_pt", ".5_pt", ",5pt", "_._5pt", "_.5truecm", "_.5em"] {
                followers.push(x.to_string());
            }
            for x in ["", "_", "!", "_!", "_f", "_1", ".5", ".5pt", "_a", "__", "\"1", "'7", "-", "+"] {
                followers.push(x.to_string());
            }
            let alphabet: Vec<char> = "abcdefABCDEFglptzGLPTZ0189_".chars().collect();
            for _ in 0..(if t { 400 } else { 80 }) {
                let n = r.range(1, 4);
                followers.push((0..n).map(|_| *r.pick(&alphabet)).collect());
            }
            let bases: [(&str, &[&str]); 3] = [
                ("", &["1", "10", "0", "17", "16383", "9"]),
                ("'", &["1", "7", "17", "0", "", "377"]),
                ("\"", &["1", "A", "10", "1F", "0", "", "FF", "2", "B", "AF"]),
            ];
            let sign_words = ["", "", "-", "--", "+-_", "_"];
            let mut n = 0usize;
            for (pfx, ds) in bases.iter() {
                for d in ds.iter() {
                    for f in &followers {
                        n += 1;
                        let sg = sign_words[n % sign_words.len()];
                        let core = format!("{pfx}{d}{f}");
                        if core.is_empty() {
                            continue;
                        }
                        // category-other A-F only where no keyword could contain an upper-case A-F
                        let plain_upper = f.len() == 1 || !f.chars().any(|c| ('A'..='F').contains(&c));
                        let flags: Vec<u32> = if plain_upper && n % 3 == 0 { vec![0, 1] } else if n % 8 == 0 { vec![2] } else { vec![0] };
                        let unit_pos_cs = f.trim_start_matches('_').starts_with('!');
                        for fl in flags {
                            v.push(format!("tint {fl} {sg}{core}"));
                            if !unit_pos_cs {
                                v.push(format!("tdim {fl} {sg}{core}"));
                                match n % 5 {
                                    0 => v.push(format!("tglue {fl} {sg}{core}")),
                                    1 => v.push(format!("tglue {fl} 1pt_plus{sg}{core}")),
                                    2 => v.push(format!("tglue {fl} 1ptplus{core}_minus_{core}")),
                                    3 => v.push(format!("tglue {fl} {core}")),
                                    _ => v.push(format!("tglue {fl} 2.5ptminus{sg}{core}")),
                                }
                            }
                        }
                    }
                }
            }
            // register index followed by `by` and friends: \advance\count<index><tail>
            let idx: [&str; 9] = ["2", "02", "3", "1", "0", "\"2", "\"02", "'2", "'3"];
            let tails = ["by5", "by_5", "by-5", "_5", "by\"A", "by'7", "b5", "a5", "f", "by5a", "BY5", "By_5_x", "by\"1f", "_by5", "e5", "by5bp", "d", "by"];
            for i in idx {
                for tl in tails {
                    v.push(format!("tidx 0 {i}{tl}"));
                    v.push(format!("tidx 2 {i}{tl}"));
                }
                for _ in 0..(if t { 40 } else { 8 }) {
                    let nn = r.range(1, 4);
                    let tl: String = (0..nn).map(|_| *r.pick(&alphabet)).collect();
                    v.push(format!("tidx 0 {i}{tl}5"));
                }
            }
        }

        // ---- dimensions: every unit x fraction lengths 0..20 x integer parts near the overflow threshold
        let mut r = rng.fork();
        let units = ["pt", "pc", "in", "bp", "cm", "mm", "dd", "cc", "sp"];
        // largest integer part that does not overflow with a zero fraction, per unit
        let thresholds: [i64; 9] = [16383, 1365, 226, 16322, 575, 5758, 15312, 1276, 1073741823];
        for (ui, u) in units.iter().enumerate() {
            let th = thresholds[ui];
            for flen in 0..=20usize {
                for ip in [0, 1, th - 1, th, th + 1] {
                    for variant in 0..(if t { 6 } else { 3 }) {
                        let mut fr = String::new();
                        for i in 0..flen {
                            let d = match variant {
                                0 => 9,
                                1 => {
                                    if i == 0 {
                                        0
                                    } else {
                                        r.below(10)
                                    }
                                }
                                _ => r.below(10),
                            };
                            fr.push(std::char::from_digit(d as u32, 10).unwrap());
                        }
                        let sg = *r.pick(&["_", "m", "_", "mm"]);
                        let bits = r.below(8);
                        let frw = if flen == 0 && variant == 0 { "-".to_string() } else { format!(".{fr}") };
                        v.push(format!("dim {sg} K 10 {ip} {frw} {u} r{bits}"));
                    }
                }
            }
        }
        let gen_head = |r: &mut Rng| -> String {
            match r.below(10) {
                0..=4 => {
                    let ip = match r.below(4) {
                        0 => r.range(0, 20),
                        1 => r.range(16380, 16390),
                        2 => r.range(0, 20000),
                        _ => interesting_i32(r).unsigned_abs() as i64,
                    };
                    let flen = r.range(0, 20);
                    let mut fr = String::from(".");
                    for _ in 0..flen {
                        fr.push(std::char::from_digit(r.below(10) as u32, 10).unwrap());
                    }
                    if r.chance(1, 4) {
                        fr = "-".into();
                    }
                    if r.chance(1, 8) {
                        let radix = *r.pick(&[8, 16]);
                        let ds = if radix == 8 { format!("{ip:o}") } else { format!("{ip:X}") };
                        format!("K {radix} {ds} -")
                    } else {
                        format!("K 10 {ip} {fr}")
                    }
                }
                5 => {
                    let flen = r.range(0, 19);
                    let mut fr = String::new();
                    for _ in 0..flen {
                        fr.push(std::char::from_digit(r.below(10) as u32, 10).unwrap());
                    }
                    format!("P {}", if fr.is_empty() { "_".into() } else { fr })
                }
                6 | 7 => format!("I {}", interesting_i32(r)),
                8 => format!("D {}", interesting_i32(r)),
                _ => format!("W {}", interesting_i32(r)),
            }
        };
        let gen_unit = |r: &mut Rng, glue: bool| -> String {
            match r.below(12) {
                0..=4 => r.pick(&units).to_string(),
                5 => format!("vi {}", interesting_i32(r)),
                6 | 7 => format!("vd {}", interesting_i32(r)),
                8 => format!("vg {}", interesting_i32(r)),
                9 => r.pick(&["em", "ex"]).to_string(),
                10 => {
                    if glue {
                        format!("fil{}", r.below(6))
                    } else {
                        "bad".into()
                    }
                }
                _ => {
                    if glue {
                        format!("fil{}", r.below(3))
                    } else {
                        "pt".into()
                    }
                }
            }
        };
        let gen_part = |r: &mut Rng, glue: bool| -> String {
            let sg = *r.pick(&sign_strings);
            let h = gen_head(r);
            if h.starts_with('D') || h.starts_with('W') {
                format!("{sg} {h}")
            } else {
                format!("{sg} {h} {}", gen_unit(r, glue))
            }
        };
        for _ in 0..(if t { 30000 } else { 5000 }) {
            let p = gen_part(&mut r, false);
            let bits = if r.chance(1, 20) { 8 + r.below(2) } else { r.below(8) };
            v.push(format!("dim {p} r{bits}"));
        }
        // ---- rounding-boundary fractions: odd multiples of half a scaled point, (2k+1)/2^17, have
        // exactly 17 decimal digits (ending in 5) and round up; every shorter prefix rounds down. So the
        // 17th digit (and only digits up to the 17th, TeX §452) decides. For each k: the exact expansion,
        // its 15/16-digit prefixes, the last digit ±1, and extensions to 18..20 digits, through every path
        // that scans a decimal fraction.
        {
            let mut r = rng.fork();
            const FIVE17: u128 = 762_939_453_125; // 10^17 / 2^17
            let ks: Vec<u64> = if t {
                (0..65536).collect()
            } else {
                let mut ks: Vec<u64> = (0..65536u64).step_by(61).collect();
                ks.extend([0, 1, 2, 3, 4, 5, 13848, 32767, 32768, 65533, 65534, 65535]);
                for _ in 0..200 {
                    ks.push(r.below(65536));
                }
                ks
            };
            let paths = [
                "pt", "in", "pc", "bp", "cm", "mm", "dd", "cc", "truept", "truecm", "em", "ex", "point-pt", "point-in",
                "fil-plus", "fill-plus", "filll-minus", "fil-minus", "vd1", "vd3", "vdmax", "vdneg", "vi", "ip-pt", "ip-cc", "stdlib-pt",
            ];
            let mut pi = 0usize;
            let mut emit = |v: &mut Vec<String>, fr: &str, path: &str, r: &mut Rng| {
                let sg = *r.pick(&["_", "_", "m"]);
                let c = match path {
                    "truept" => format!("dim {sg} K 10 0 .{fr} pt r2"),
                    "truecm" => format!("dim {sg} K 10 0 .{fr} cm r2"),
                    "point-pt" => format!("dim {sg} P {fr} pt r0"),
                    "point-in" => format!("dim {sg} P {fr} in r1"),
                    "fil-plus" => format!("glue _ K 10 0 - pt plus {sg} K 10 0 .{fr} fil0 r0"),
                    "fill-plus" => format!("glue _ K 10 1 - pt plus {sg} P {fr} fil1 r0"),
                    "filll-minus" => format!("glue _ K 10 0 - pt minus {sg} K 10 7 .{fr} fil2 r0"),
                    "fil-minus" => format!("glue _ K 10 0 - pt plus _ K 10 1 .{fr} pt minus {sg} K 10 0 .{fr} fil0 r4"),
                    "vd1" => format!("dim {sg} K 10 0 .{fr} vd 65536 r0"),
                    "vd3" => format!("dim {sg} K 10 2 .{fr} vd 196608 r0"),
                    "vdmax" => format!("dim {sg} K 10 0 .{fr} vd 1073741823 r0"),
                    "vdneg" => format!("dim {sg} P {fr} vd -8388608 r0"),
                    "vi" => format!("dim {sg} K 10 0 .{fr} vi 131072 r0"),
                    "ip-pt" => format!("dim {sg} K 10 16383 .{fr} pt r0"),
                    "ip-cc" => format!("dim {sg} K 10 1276 .{fr} cc r1"),
                    "stdlib-pt" => format!("dim {sg} K 10 0 .{fr} pt r8"),
                    u => format!("dim {sg} K 10 0 .{fr} {u} r0"),
                };
                v.push(c);
            };
            for (n, k) in ks.iter().enumerate() {
                let exact = format!("{:017}", (2 * *k as u128 + 1) * FIVE17);
                debug_assert!(exact.len() == 17 && exact.ends_with('5'));
                let mut variants: Vec<String> = vec![exact.clone()];
                // all variants for a stride of k (every k in quick); the exact form for every k
                if !t || n % 16 == 0 {
                    variants.push(exact[..16].to_string());
                    variants.push(exact[..15].to_string());
                    variants.push(format!("{}4", &exact[..16]));
                    variants.push(format!("{}6", &exact[..16]));
                    variants.push(format!("{exact}0"));
                    variants.push(format!("{exact}000"));
                    variants.push(format!("{}4999", &exact[..16]));
                    variants.push(format!("{exact}{}", r.below(1000)));
                    variants.push(format!("{}{:04}", &exact[..16], r.below(10000)));
                }
                for fr in &variants {
                    // two paths per string, rotating so that every path meets every kind of variant
                    for _ in 0..2 {
                        emit(&mut v, fr, paths[pi % paths.len()], &mut r);
                        pi += 1;
                    }
                    pi += 1;
                }
            }
        }

        // boundary grid: internal units, integer parts × values
        let bvals: [i64; 13] = [0, 1, -1, 65536, -65536, 32768, MAXD, -MAXD, MAXD + 1, IMAX, IMIN, IMIN + 1, 786432];
        for ip in [0i64, 1, 2, 16383, 16384, 65536, MAXD, IMAX] {
            for bv in bvals {
                for fr in ["-", ".5", ".99999", ".00001"] {
                    v.push(format!("dim _ K 10 {ip} {fr} vd {bv}"));
                    v.push(format!("dim m K 10 {ip} {fr} vi {bv}"));
                }
            }
        }
        for i in bvals {
            for u in units {
                v.push(format!("dim _ I {i} {u}"));
                v.push(format!("dim m I {i} {u}"));
            }
            for bv in bvals {
                v.push(format!("dim _ I {i} vd {bv}"));
            }
            v.push(format!("dim _ D {i}"));
            v.push(format!("dim m D {i}"));
            v.push(format!("dim m W {i}"));
        }

        // ---- glue
        let mut r = rng.fork();
        // fil units at the overflow threshold: the fraction can round up to one
        for ip in [16382i64, 16383, 16384] {
            for fr in ["-", ".", ".0", ".5", ".99998", ".99999", ".999992", ".999993", ".999999", ".99999999999999999999"] {
                for k in 0..4 {
                    for sg in ["_", "m"] {
                        v.push(format!("glue _ K 10 0 - pt plus {sg} K 10 {ip} {fr} fil{k}"));
                        v.push(format!("glue _ K 10 0 - pt minus {sg} K 10 {ip} {fr} fil{k}"));
                    }
                }
            }
        }
        for _ in 0..(if t { 12000 } else { 2500 }) {
            let mut s = format!("glue {}", gen_part(&mut r, false).replace(" W ", " D "));
            if s.ends_with("bad") {
                // the unread letters stay in the input: nothing may follow
                v.push(format!("{s} r0"));
                continue;
            }
            if r.chance(2, 3) {
                s.push_str(&format!(" plus {}", gen_part(&mut r, true)));
            }
            if r.chance(2, 3) {
                s.push_str(&format!(" minus {}", gen_part(&mut r, true)));
            }
            let bits = if r.chance(1, 20) { 8 } else { r.below(2) * 4 };
            v.push(format!("{s} r{bits}"));
        }
        let gen_glue = |r: &mut Rng, big: bool| -> [i64; 5] {
            let comp = |r: &mut Rng| -> i64 {
                match r.below(6) {
                    0 => 0,
                    1 => *r.pick(&[1, -1, 65536, -65536, MAXD, -MAXD, 32768, 6554]),
                    2 => r.range(-MAXD, MAXD),
                    3 => r.range(-70000, 70000),
                    _ => (interesting_i32(r) as i64).clamp(-MAXD, MAXD),
                }
            };
            if big {
                [interesting_i32(r) as i64, interesting_i32(r) as i64, 0, interesting_i32(r) as i64, 0]
            } else {
                [comp(r), comp(r), r.below(4) as i64, comp(r), r.below(4) as i64]
            }
        };
        for _ in 0..(if t { 3000 } else { 600 }) {
            let big = r.chance(1, 5);
            let g = gen_glue(&mut r, big);
            let sg = *r.pick(&["_", "m", "mm", "pm"]);
            v.push(format!("glue {sg} G {}", join(&g)));
        }
        for _ in 0..(if t { 6000 } else { 1200 }) {
            let g = gen_glue(&mut r, false);
            v.push(format!("gp {}", join(&g)));
        }

        // ---- programs: several primitives in a row on one register (errors leave it unchanged,
        // \\advance wraps, the next primitive starts from whatever is there)
        {
            let mut r = rng.fork();
            for _ in 0..(if t { 6000 } else { 800 }) {
                let ty = *r.pick(&["int", "dim"]);
                let mut a = interesting_i32(&mut r) as i64;
                if ty == "dim" && r.chance(2, 3) {
                    a = a.clamp(-MAXD, MAXD);
                }
                let n = r.range(2, 6);
                let mut s = format!("seq {ty} {a}");
                for _ in 0..n {
                    let op = *r.pick(&["adv", "mul", "div"]);
                    let mut b = match r.below(4) {
                        0 => r.range(-3, 3),
                        1 => r.range(-70000, 70000),
                        _ => interesting_i32(&mut r) as i64,
                    };
                    if ty == "dim" && op == "adv" {
                        b = b.clamp(-MAXD, MAXD); // the summand is a scanned dimension
                    }
                    s.push_str(&format!(" {op} {b}"));
                }
                v.push(s);
            }
            v.push("seq int 5 mul 1000000 mul 1000000 adv 7 div 0 div -2".into());
            v.push("seq int 2147483647 adv 1 mul -1 div -1 adv -1".into());
            v.push("seq dim 65536 mul 16383 mul 2 adv 1073741823 div 3".into());
        }

        // ---- the kernels through the public `common::Scaled` API (negative operands too)
        {
            let mut r = rng.fork();
            let xs: [i64; 14] = [0, 1, -1, 7, -7, 65535, -65536, 98303, -98305, MAXD, -MAXD, MAXD + 1, IMAX, IMIN];
            let nds: [i64; 10] = [0, 1, 2, 3, 100, 7227, 7200, 32768, 65535, 65536];
            for x in xs {
                for n in nds {
                    for d in nds {
                        if d != 0 {
                            v.push(format!("kx {x} {n} {d}"));
                        }
                    }
                    for y in [0i64, 1, -1, MAXD, -MAXD, 65536] {
                        v.push(format!("kn {x} {n} {y}"));
                        v.push(format!("kn {x} {} {y}", -n));
                    }
                }
            }
            for _ in 0..(if t { 20000 } else { 2500 }) {
                let x = interesting_i32(&mut r);
                let n = match r.below(3) { 0 => r.range(0, 65536), 1 => r.range(0, 20), _ => *r.pick(&nds) };
                let d = match r.below(3) { 0 => r.range(1, 65536), 1 => r.range(1, 20), _ => *r.pick(&nds[1..]) };
                v.push(format!("kx {x} {n} {d}"));
                let y = if r.chance(1, 2) { r.range(-MAXD, MAXD) } else { (interesting_i32(&mut r) as i64).clamp(-MAXD, MAXD) };
                v.push(format!("kn {x} {} {y}", interesting_i32(&mut r)));
                v.push(format!("kn {} {} {y}", r.range(-70000, 70000), r.range(-70000, 70000)));
            }
            for u in units {
                for ip in [0i64, 1, 225, 226, 227, 575, 576, 1276, 1277, 16383, 16384, MAXD, MAXD + 1, IMAX] {
                    for f in [0i64, 1, 32768, 65535, 65536] {
                        v.push(format!("ks {ip} {f} {u}"));
                    }
                }
                for _ in 0..(if t { 300 } else { 40 }) {
                    v.push(format!("ks {} {} {u}", r.range(0, 20000), r.range(0, 65536)));
                }
            }
            for i in [0i64, 1, -1, 16383, 16384, -16383, -16384, 16385, IMAX, IMIN, 32768] {
                v.push(format!("ki {i}"));
            }
            for _ in 0..(if t { 3000 } else { 400 }) {
                let len = r.range(0, 20);
                let ds: String = (0..len).map(|_| std::char::from_digit(r.below(10) as u32, 10).unwrap()).collect();
                v.push(format!("kf {}", if ds.is_empty() { "_".into() } else { ds }));
            }
        }

        // ---- arithmetic: 40×40 boundary grid + random pairs
        let mut r = rng.fork();
        let grid: [i64; 40] = [
            0, 1, -1, 2, -2, 3, -3, 7, -7, 10, 255, -256, 32767, 32768, -32768, 46340, 46341, -46341, 65535, 65536, -65536, 65537,
            1 << 24, (1 << 30) - 1, 1 << 30, -(1 << 30) + 1, -(1 << 30), (1 << 30) + 1, 715827882, 715827883, 1073741822, -1073741825,
            IMAX / 2, IMAX / 2 + 1, IMAX - 1, IMAX, IMIN + 2, IMIN + 1, IMIN, 16383 * 65536,
        ];
        for a in grid {
            for b in grid {
                for ty in ["int", "dim"] {
                    for op in ["adv", "mul", "div"] {
                        v.push(format!("op {op} {ty} {a} {b}"));
                    }
                }
            }
        }
        for _ in 0..(if t { 20000 } else { 3000 }) {
            let a = interesting_i32(&mut r);
            let b = if r.chance(1, 3) { r.range(-70000, 70000) as i32 } else { interesting_i32(&mut r) };
            let ty = *r.pick(&["int", "dim"]);
            let op = *r.pick(&["adv", "mul", "div"]);
            v.push(format!("op {op} {ty} {a} {b} r{}", r.below(2) * 16));
        }
        for a in [0i64, 1, -1, 65536, MAXD, -MAXD, MAXD + 1, IMAX, IMIN, IMIN + 1] {
            for n in [0i64, 1, -1, 2, -2, 3, 65536, IMAX, IMIN, IMIN + 1] {
                v.push(format!("op mul glue {a} {a} 0 {a} 0 {n}"));
                v.push(format!("op div glue {a} {a} 0 {a} 0 {n}"));
                v.push(format!("op mul glue 65536 {a} 0 -65536 0 {n}"));
                v.push(format!("op div glue 65536 -65536 0 {a} 0 {n}"));
            }
        }
        // glue addition: every pair of orders, zero and non-zero stretch
        for so1 in 0..4 {
            for so2 in 0..4 {
                for st1 in [0i64, 65536, -3] {
                    for st2 in [0i64, 131072, 5] {
                        v.push(format!("op adv glue 65536 {st1} {so1} {st2} {so2} -7 {st2} {so2} {st1} {so1}"));
                    }
                }
            }
        }
        for _ in 0..(if t { 10000 } else { 2000 }) {
            let big = r.chance(1, 5);
            let a = gen_glue(&mut r, big);
            match r.below(3) {
                0 => {
                    let b = gen_glue(&mut r, big);
                    v.push(format!("op adv glue {} {}", join(&a), join(&b)));
                }
                1 => {
                    let n = if r.chance(1, 2) { r.range(-5, 5) as i32 } else { interesting_i32(&mut r) };
                    v.push(format!("op mul glue {} {n}", join(&a)));
                }
                _ => {
                    let n = if r.chance(1, 2) { r.range(-5, 5) as i32 } else { interesting_i32(&mut r) };
                    v.push(format!("op div glue {} {n}", join(&a)));
                }
            }
        }
        v
    }

    fn run_case(&mut self, case: &str, drv: &mut Driver) -> CaseOutcome {
        let mut o = CaseOutcome::default();
        let mut words: Vec<&str> = case.split_ascii_whitespace().collect();
        let bits = bits_of(&mut words);
        let req = words.join(" ");
        let kind = words.first().copied().unwrap_or("");
        o.nontrivial = true;
        match kind {
            "ps" => {
                let s: i64 = words[1].parse().expect("ps <s>");
                let reply = drv.ask(&req);
                o.tag("ps:direct");
                o.nontrivial = s != 0;
                self.ps_check_one(&mut o, drv, s, &reply, "ps");
                let mstr = reply.split(':').next().unwrap_or("").to_string();
                if s.abs() <= MAXD {
                    // through the VM: \the prints, the scanner reads the printed form back
                    let src = format!("\\dimen0={s}sp \\dimen1=\\the\\dimen0 \\count1=\\dimen1 (\\the\\dimen0)(\\the\\count1)");
                    o.tag("ps:vm");
                    match run_tex(&src) {
                        Err(loc) => o.fail(Kind::ImplPanic, "ps-vm", format!("ps-vm: panic {}", ploc(&loc)), format!("{src}: panic at {loc}")),
                        Ok(obs) => {
                            let want_out = format!("({mstr}pt)({s})");
                            if obs.dimen[0] != s || obs.dimen[1] != s || obs.nerr != Some(0) || obs.fatal.is_some() {
                                o.fail(Kind::ImplVsSpec, "ps-vm", "ps-vm: \\the\\dimen does not scan back", format!("{src}: dimen0={} dimen1={} errors={:?} fatal={:?} out={:?}", obs.dimen[0], obs.dimen[1], obs.nerr, obs.fatal, obs.out));
                            } else if obs.out != want_out {
                                o.fail(Kind::ImplVsSpec, "ps-vm", "ps-vm: \\the output", format!("{src}: out {:?}, TeX prints {want_out:?}", obs.out));
                            }
                        }
                    }
                } else {
                    o.tag("ps:beyond-max-dimen");
                }
            }
            "psr" => {
                let a: i64 = words[1].parse().unwrap();
                let b: i64 = words[2].parse().unwrap();
                let c: i64 = words[3].parse().unwrap();
                let reply = drv.ask(&req);
                let parts: Vec<&str> = reply.split(' ').collect();
                assert_eq!(parts.len() as i64, c, "psr reply length");
                o.tag("psr:range");
                for k in 0..c {
                    let s = a + b * k;
                    if s < IMIN || s > IMAX {
                        continue;
                    }
                    self.ps_check_one(&mut o, drv, s, parts[k as usize], "ps");
                    if o.failures.len() > 3 {
                        break;
                    }
                }
            }
            "psx" => {
                let lo: i64 = words[1].parse().unwrap();
                let hi: i64 = words[2].parse().unwrap();
                self.load_frac_table(drv);
                o.tag("psx:exhaustive-chunk");
                let bad = self.sweep(lo, hi);
                self.sweep_values += (hi - lo) as u64;
                for (s, d) in bad {
                    o.fail(Kind::ImplVsSpec, "psx", "ps: scan(print s) != s", format!("s={s}: {d} (replay: ps {s})"));
                }
            }
            "int" | "inti" | "inta" | "intc" | "intd" | "intg" => {
                let sg = words[1];
                let mut pre = String::new();
                let (body, dreq) = match kind {
                    "int" => (format!("{}{}", radix_prefix(words[2]), digits_src(words[3])), req.clone()),
                    "inti" => {
                        pre = set_count(2, words[2].parse().unwrap());
                        ("\\count2".to_string(), req.clone())
                    }
                    "intd" => {
                        pre = set_dimen(2, words[2].parse().unwrap());
                        ("\\dimen2".to_string(), format!("inti {sg} {}", words[2]))
                    }
                    "intg" => {
                        pre = set_skip(2, &[words[2].parse().unwrap(), 3, 1, 0, 0]);
                        ("\\skip2".to_string(), format!("inti {sg} {}", words[2]))
                    }
                    _ => {
                        // alphabetic constant: `c, or `\c (a one-character control sequence); any Unicode scalar
                        let c: u32 = words[2].parse().unwrap();
                        let ch = char::from_u32(c).expect("inta/intc <signs> <unicode scalar value>");
                        (if kind == "intc" { format!("`\\{ch}") } else { format!("`{ch}") }, format!("inti {sg} {c}"))
                    }
                };
                let src = format!("{pre}\\count0={}{body} ", signs_src(sg));
                let reply = drv.ask(&dreq);
                let (m, s) = split_reply(&reply);
                let model = parse_want(m, &[0], 1);
                let spec = parse_want(s, &[0], 1);
                let got = match run_tex(&src) {
                    Err(loc) => Got::Panic(loc),
                    Ok(obs) => {
                        if let Some(f) = obs.fatal {
                            o.fail(Kind::ImplVsSpec, kind, format!("{kind}: fatal error"), format!("{src}: {f}"));
                        }
                        Got::Vals(vec![obs.count[0]], obs.nerr)
                    }
                };
                o.tag(format!("{kind}:radix{}", if kind == "int" { words[2] } else { "-" }));
                classify_tags(&mut o, "int", &got, &spec);
                if let Got::Vals(v, _) = &got {
                    o.nontrivial = v[0] != 0 || matches!(&got, Got::Vals(_, Some(e)) if *e > 0);
                    if v[0] == IMAX && matches!(&got, Got::Vals(_, Some(e)) if *e > 0) {
                        o.tag("int:clamped-after-overflow");
                    }
                }
                compare(&mut o, kind, &got, &model, &spec);
            }
            "dim" => {
                let mut c = Cursor { w: words.clone(), i: 1 };
                let mut pre = String::new();
                let mut tags = vec![];
                let body = render_part(&mut c, &mut pre, 2, bits, &mut tags);
                let src = format!("{pre}\\dimen0={body}");
                let reply = drv.ask(&req.replace(" W ", " D "));
                let (m, s) = split_reply(&reply);
                let model = parse_want(m, &[0], 1);
                let spec = parse_want(s, &[0], 1);
                let run = |src: &str, std: bool| -> Got {
                    match if std { run_tex_stdlib(src) } else { run_tex(src) } {
                        Err(loc) => Got::Panic(loc),
                        Ok(obs) => Got::Vals(vec![obs.dimen[0]], obs.nerr),
                    }
                };
                let got = run(&src, false);
                let class = class_of(&tags);
                // StdLibState has em = ex = 12pt: only the small state is compared for these units
                let uses_em_ex = tags.iter().any(|t| t == "unit:em" || t == "unit:ex");
                for t in tags {
                    o.tag(format!("dim:{t}"));
                }
                classify_tags(&mut o, "dim", &got, &spec);
                if let Got::Vals(v, e) = &got {
                    o.nontrivial = v[0] != 0 || e.unwrap_or(0) > 0;
                    if v[0].abs() == MAXD && e.unwrap_or(0) > 0 {
                        o.tag("dim:clamped");
                    }
                }
                compare(&mut o, &format!("dim[{class}]"), &got, &model, &spec);
                if bits & 8 != 0 && !uses_em_ex {
                    o.tag("dim:stdlib-state");
                    let got2 = run(&src, true);
                    compare(&mut o, &format!("dim-stdlib[{class}]"), &got2, &model, &spec);
                }
            }
            "glue" => {
                let mut pre = String::new();
                let mut tags = vec![];
                let mut classes = vec![String::from("-"), String::from("-"), String::from("-")];
                let src;
                if words.get(2) == Some(&"G") {
                    let g: Vec<i64> = words[3..8].iter().map(|x| x.parse().unwrap()).collect();
                    pre = set_skip(2, &[g[0], g[1], g[2], g[3], g[4]]);
                    src = format!("{pre}\\skip0={}\\skip2 ", signs_src(words[1]));
                    tags.push("head:skip".to_string());
                } else {
                    let mut c = Cursor { w: words.clone(), i: 1 };
                    let mut body = render_part(&mut c, &mut pre, 2, bits, &mut tags);
                    classes[0] = class_of(&tags);
                    if c.peek() == "plus" {
                        c.next();
                        body.push_str("plus ");
                        let n = tags.len();
                        body.push_str(&render_part(&mut c, &mut pre, 4, bits, &mut tags));
                        classes[1] = class_of(&tags[n..]);
                        tags.push("plus".into());
                    }
                    if c.peek() == "minus" {
                        c.next();
                        body.push_str("minus ");
                        let n = tags.len();
                        body.push_str(&render_part(&mut c, &mut pre, 6, bits, &mut tags));
                        classes[2] = class_of(&tags[n..]);
                        tags.push("minus".into());
                    }
                    src = format!("{pre}\\skip0={body}");
                }
                let reply = drv.ask(&req.replace(" W ", " D "));
                let (m, s) = split_reply(&reply);
                let model = parse_want(m, &[0; 5], 5);
                let spec = parse_want(s, &[0; 5], 5);
                let run = |src: &str, std: bool| -> Got {
                    match if std { run_tex_stdlib(src) } else { run_tex(src) } {
                        Err(loc) => Got::Panic(loc),
                        Ok(obs) => Got::Vals(obs.skip[0].to_vec(), obs.nerr),
                    }
                };
                let got = run(&src, false);
                let uses_em_ex = tags.iter().any(|t| t == "unit:em" || t == "unit:ex");
                for t in tags {
                    o.tag(format!("glue:{t}"));
                }
                classify_tags(&mut o, "glue", &got, &spec);
                let label = |name: &'static str| {
                    let classes = classes.clone();
                    move |i: Option<usize>| match i {
                        Some(0) => format!("{name} width[{}]", classes[0]),
                        Some(1) | Some(2) => format!("{name} stretch[{}]", classes[1]),
                        Some(_) => format!("{name} shrink[{}]", classes[2]),
                        None => name.to_string(),
                    }
                };
                compare_l(&mut o, "glue", &label("glue"), &got, &model, &spec);
                if bits & 8 != 0 && !uses_em_ex {
                    o.tag("glue:stdlib-state");
                    let got2 = run(&src, true);
                    compare_l(&mut o, "glue-stdlib", &label("glue-stdlib"), &got2, &model, &spec);
                }
            }
            "gp" => {
                let g: Vec<i64> = words[1..6].iter().map(|x| x.parse().unwrap()).collect();
                let g5 = [g[0], g[1], g[2], g[3], g[4]];
                let reply = drv.ask(&req);
                let (m, s) = split_reply(&reply);
                let (m, s) = (m.replace('_', " "), s.replace('_', " "));
                let mk = |o: i64| match o {
                    0 => GlueOrder::Normal,
                    1 => GlueOrder::Fil,
                    2 => GlueOrder::Fill,
                    _ => GlueOrder::Filll,
                };
                let direct = caught(|| {
                    Glue { width: Scaled(g[0] as i32), stretch: Scaled(g[1] as i32), stretch_order: mk(g[2]), shrink: Scaled(g[3] as i32), shrink_order: mk(g[4]) }.to_string()
                });
                o.tag(format!("gp:stretch{}-shrink{}", if g[1] == 0 { "0".into() } else { format!("#{}", g[2]) }, if g[3] == 0 { "0".into() } else { format!("#{}", g[4]) }));
                match direct {
                    Err(loc) => o.fail(Kind::ImplPanic, "gp", format!("gp: panic {}", ploc(&loc)), loc),
                    Ok(d) => {
                        if d != s {
                            o.fail(Kind::ImplVsSpec, "gp", "gp: Display of Glue", format!("impl {d:?}; TeX {s:?}"));
                        } else if d != m {
                            o.fail(Kind::ImplVsModel, "gp", "gp: model", format!("impl {d:?}; model {m:?}"));
                        }
                        // scan the printed form back through the VM
                        let src = format!("{}\\skip0=\\the\\skip2 (\\the\\skip2)", set_skip(2, &g5));
                        match run_tex(&src) {
                            Err(loc) => o.fail(Kind::ImplPanic, "gp-vm", format!("gp-vm: panic {}", ploc(&loc)), format!("{src}: {loc}")),
                            Ok(obs) => {
                                // S: the same glue, a zero stretch/shrink having order normal
                                let norm = [g[0], g[1], if g[1] == 0 { 0 } else { g[2] }, g[3], if g[3] == 0 { 0 } else { g[4] }];
                                if obs.skip[2] != g5 {
                                    o.tag("gp:setup-mismatch");
                                } else if obs.skip[0] != norm || obs.nerr != Some(0) || obs.fatal.is_some() {
                                    o.fail(Kind::ImplVsSpec, "gp-vm", "gp-vm: \\the\\skip does not scan back", format!("{src}: skip0={:?} want {norm:?} errors={:?} fatal={:?}", obs.skip[0], obs.nerr, obs.fatal));
                                } else if obs.out != format!("({s})") {
                                    o.fail(Kind::ImplVsSpec, "gp-vm", "gp-vm: \\the\\skip output", format!("{src}: out {:?}; TeX {s:?}", obs.out));
                                }
                            }
                        }
                    }
                }
            }
            "op" => {
                let opn = words[1];
                let ty = words[2];
                let cs = match opn {
                    "adv" => "\\advance",
                    "mul" => "\\multiply",
                    _ => "\\divide",
                };
                let nums: Vec<i64> = words[3..].iter().map(|x| x.parse().unwrap()).collect();
                let by = if bits & 16 != 0 { "" } else { "by " };
                let (src, old): (String, Vec<i64>) = match ty {
                    "int" => (format!("{}{}{cs}\\count0 {by}\\count3 ", set_count(0, nums[0]), set_count(3, nums[1])), vec![nums[0]]),
                    "dim" => {
                        let rhs = if opn == "adv" { format!("{}{cs}\\dimen0 {by}\\dimen3 ", set_dimen(3, nums[1])) } else { format!("{}{cs}\\dimen0 {by}\\count3 ", set_count(3, nums[1])) };
                        (format!("{}{rhs}", set_dimen(0, nums[0])), vec![nums[0]])
                    }
                    _ => {
                        let a = [nums[0], nums[1], nums[2], nums[3], nums[4]];
                        let rhs = if opn == "adv" {
                            let b = [nums[5], nums[6], nums[7], nums[8], nums[9]];
                            format!("{}{cs}\\skip0 {by}\\skip3 ", set_skip(3, &b))
                        } else {
                            format!("{}{cs}\\skip0 {by}\\count3 ", set_count(3, nums[5]))
                        };
                        (format!("{}{rhs}", set_skip(0, &a)), a.to_vec())
                    }
                };
                let n = old.len();
                let (model, spec) = if ty == "dim" && opn == "adv" && nums[1].abs() > MAXD {
                    // the summand is itself scanned by scan_dimen (range check, clamp): compose
                    let r = drv.ask(&format!("dim _ D {}", nums[1]));
                    let (m, s) = split_reply(&r);
                    let side = |scanned: Want, which: usize, drv: &mut Driver| -> Want {
                        match scanned {
                            Want::Vals(v, e) => {
                                let r = drv.ask(&format!("op adv dim {} {}", nums[0], v[0]));
                                let parts = split_reply(&r);
                                match parse_want(if which == 0 { parts.0 } else { parts.1 }, &old, n) {
                                    Want::Vals(v2, e2) => Want::Vals(v2, e + e2),
                                    w => w,
                                }
                            }
                            w => w,
                        }
                    };
                    let ms = parse_want(m, &[0], 1);
                    let ss = parse_want(s, &[0], 1);
                    o.tag("op-adv-dim:summand-beyond-max-dimen");
                    (side(ms, 0, drv), side(ss, 1, drv))
                } else {
                    let reply = drv.ask(&req);
                    let (m, s) = split_reply(&reply);
                    (parse_want(m, &old, n), parse_want(s, &old, n))
                };
                let stream = format!("op-{opn}-{ty}");
                let got = match run_tex(&src) {
                    Err(loc) => Got::Panic(loc),
                    Ok(obs) => {
                        let (val, setup_ok) = match ty {
                            "int" => (vec![obs.count[0]], obs.count[3] == nums[1]),
                            "dim" => (vec![obs.dimen[0]], if opn == "adv" { obs.dimen[3] == nums[1] } else { obs.count[3] == nums[1] }),
                            _ => (obs.skip[0].to_vec(), if opn == "adv" { obs.skip[3].to_vec() == nums[5..10].to_vec() } else { obs.count[3] == nums[5] }),
                        };
                        if !setup_ok {
                            o.tag(format!("{stream}:setup-mismatch"));
                            return o;
                        }
                        if let Some(f) = obs.fatal {
                            o.fail(Kind::ImplVsSpec, &stream, format!("{stream}: fatal error"), format!("{src}: {f}"));
                        }
                        Got::Vals(val, obs.nerr)
                    }
                };
                // the register preload of \skip0 may itself be affected by the glue-addition defect
                classify_tags(&mut o, &stream, &got, &spec);
                o.nontrivial = nums.iter().any(|x| *x != 0);
                compare(&mut o, &stream, &got, &model, &spec);
            }
            "seq" => {
                // seq <int|dim> <a> (<adv|mul|div> <b>)*: a program on one register
                let ty = words[1];
                let a: i64 = words[2].parse().unwrap();
                let reg = if ty == "int" { "\\count0" } else { "\\dimen0" };
                let mut src = if ty == "int" { set_count(0, a) } else { set_dimen(0, a) };
                let mut k = 3;
                while k + 1 < words.len() {
                    let b: i64 = words[k + 1].parse().unwrap();
                    let cs = match words[k] {
                        "adv" => "\\advance",
                        "mul" => "\\multiply",
                        _ => "\\divide",
                    };
                    if ty == "dim" && words[k] == "adv" {
                        src.push_str(&format!("{}{cs}{reg} by \\dimen3 ", set_dimen(3, b)));
                    } else {
                        src.push_str(&format!("{}{cs}{reg} by \\count3 ", set_count(3, b)));
                    }
                    k += 2;
                }
                let reply = drv.ask(&req);
                let (m, sp) = split_reply(&reply);
                let model = parse_want(m, &[a], 1);
                let spec = parse_want(sp, &[a], 1);
                let got = match run_tex(&src) {
                    Err(loc) => Got::Panic(loc),
                    Ok(obs) => Got::Vals(vec![if ty == "int" { obs.count[0] } else { obs.dimen[0] }], obs.nerr),
                };
                let stream = format!("seq-{ty}");
                o.tag(format!("{stream}:len{}", (words.len() - 3) / 2));
                classify_tags(&mut o, &stream, &got, &spec);
                compare(&mut o, &stream, &got, &model, &spec);
            }
            "kx" | "kn" | "ks" | "kf" | "ki" => {
                let reply = drv.ask(&req);
                let (m, sp) = split_reply(&reply);
                let a: Vec<i64> = words[1..].iter().filter_map(|x| x.parse().ok()).collect();
                let got: Result<String, String> = caught(|| match kind {
                    "kx" => match Scaled(a[0] as i32).xn_over_d(a[1] as i32, a[2] as i32) {
                        Ok((q, r)) => format!("ok {} {}", q.0, r.0),
                        Err(_) => "overflow".into(),
                    },
                    "kn" => match Scaled(a[0] as i32).nx_plus_y(a[1] as i32, Scaled(a[2] as i32)) {
                        Ok(r) => format!("ok {}", r.0),
                        Err(_) => "overflow".into(),
                    },
                    "ks" => match Scaled::new(a[0] as i32, Scaled(a[1] as i32), common::ScaledUnit::parse(words[3]).expect("unit")) {
                        Ok(r) => format!("ok {}", r.0),
                        Err(_) => "overflow".into(),
                    },
                    "kf" => {
                        let ds: Vec<u8> = if words[1] == "_" { vec![] } else { words[1].bytes().map(|b| b - b'0').collect() };
                        format!("ok {}", Scaled::from_decimal_digits(&ds).0)
                    }
                    _ => match Scaled::from_integer(a[0] as i32) {
                        Ok(r) => format!("ok {}", r.0),
                        Err(_) => "overflow".into(),
                    },
                });
                o.tag(format!("{kind}:{}", match &got { Ok(g) if g.starts_with("ok") => "ok", Ok(_) => "overflow", Err(_) => "panic" }));
                o.nontrivial = a.iter().any(|x| *x != 0) || kind == "kf";
                match got {
                    Err(loc) => {
                        if sp != "undef" {
                            o.fail(Kind::ImplPanic, kind, format!("{kind}: panic {}", ploc(&loc)), format!("{case}: panic at {loc}; TeX {sp}"));
                        } else if m != "panic" {
                            o.fail(Kind::ImplVsModel, kind, format!("{kind}: model"), format!("{case}: panic at {loc}; model {m}"));
                        }
                    }
                    Ok(g) => {
                        if sp != "undef" && g != sp {
                            o.fail(Kind::ImplVsSpec, kind, format!("{kind}: value"), format!("{case}: impl {g}; TeX {sp}"));
                        } else if g != m {
                            o.fail(Kind::ImplVsModel, kind, format!("{kind}: model"), format!("{case}: impl {g}; model {m}"));
                        }
                    }
                }
            }
            "tint" | "tdim" | "tglue" | "tidx" => {
                // <kind> <flag> <text>: `_` = space, `!` = `\count2=5 `; flag bit0: A-F have catcode 12
                // (needs \catcode: StdLibState), bit1: also run through StdLibState.
                let flag: u32 = words[1].parse().expect("flag");
                let text = words[2];
                let body: String = text
                    .chars()
                    .map(|c| match c {
                        '_' => " ".to_string(),
                        '!' => "\\count2=5 ".to_string(),
                        c => c.to_string(),
                    })
                    .collect();
                let cat12 = flag & 1 != 0;
                let catpre = if cat12 { "\\catcode`\\A=12 \\catcode`\\B=12 \\catcode`\\C=12 \\catcode`\\D=12 \\catcode`\\E=12 \\catcode`\\F=12 " } else { "" };
                let src = match kind {
                    "tint" => format!("{catpre}\\count0={body}"),
                    "tdim" => format!("{catpre}\\dimen0={body}"),
                    "tglue" => format!("{catpre}\\skip0={body}"),
                    _ => format!("{catpre}\\count0=7 \\count1=7 \\count2=7 \\count3=7 \\advance\\count{body}"),
                };
                let reply = drv.ask(&format!("{kind} {} {text}", flag & 1));
                let parts3: Vec<&str> = reply.split(" | ").collect();
                let (m, sp) = (parts3[0], parts3.get(1).copied().unwrap_or(""));
                // third field (tdim/tglue): the model of the code before fixes/C06-j.patch
                let old_reply = parts3.get(2).copied();
                // expected: values, nerr, remaining text
                let parse = |r: &str| -> (Want, String) {
                    let w: Vec<&str> = r.split_ascii_whitespace().collect();
                    match w.first().copied() {
                        Some("ok") => {
                            let rest = w[w.len() - 1].to_string();
                            let nums: Vec<i64> = w[1..w.len() - 1].iter().map(|x| x.parse().unwrap()).collect();
                            let rest_has_cs = rest.contains('!');
                            let (vals, e) = match kind {
                                "tint" => (vec![nums[0]], nums[1]),
                                "tdim" => (vec![nums[0]], nums[1]),
                                "tglue" => (nums[..5].to_vec(), nums[5]),
                                _ => {
                                    // count n advanced by x (only registers 0..3 are observed)
                                    let mut c = vec![7i64; 4];
                                    if (0..4).contains(&nums[0]) {
                                        c[nums[0] as usize] = 7 + nums[1];
                                    }
                                    if rest_has_cs {
                                        c[2] = 5;
                                    }
                                    (c, nums[2])
                                }
                            };
                            let mut vals = vals;
                            if kind != "tidx" {
                                vals.push(if rest_has_cs { 5 } else { 0 }); // \count2 after the run
                            }
                            let out: String = if rest == "~" { String::new() } else { rest.chars().filter(|c| *c != '_' && *c != '!').collect() };
                            (Want::Vals(vals, e as usize), out)
                        }
                        Some("panic") => (Want::Panic, String::new()),
                        _ => (Want::Undef, String::new()),
                    }
                };
                if kind == "tidx" {
                    // a register number outside the state's 256 registers is a different error; not this property
                    let n: Option<i64> = sp.split_ascii_whitespace().nth(1).and_then(|x| x.parse().ok());
                    if !matches!(n, Some(0..=255)) {
                        o.tag("tidx:index-out-of-range");
                        return o;
                    }
                }
                let (model, mout) = parse(m);
                let (spec, sout) = parse(sp);
                let observe = |std: bool| -> (Got, String) {
                    match if std { run_tex_stdlib(&src) } else { run_tex(&src) } {
                        Err(loc) => (Got::Panic(loc), String::new()),
                        Ok(obs) => {
                            let vals = match kind {
                                "tint" => vec![obs.count[0], obs.count[2]],
                                "tdim" => vec![obs.dimen[0], obs.count[2]],
                                "tglue" => {
                                    let mut v = obs.skip[0].to_vec();
                                    v.push(obs.count[2]);
                                    v
                                }
                                _ => obs.count.to_vec(),
                            };
                            let out: String = obs.out.chars().filter(|c| !c.is_whitespace()).collect();
                            (Got::Vals(vals, obs.nerr), if obs.fatal.is_some() { format!("{out}<fatal>") } else { out })
                        }
                    }
                };
                o.tag(format!("{kind}:{}", if cat12 { "AF-catcode-other" } else { "plain" }));
                // what follows the digits, as a class (first character of the model's/spec's remainder)
                let first = sout.chars().next();
                o.tag(format!(
                    "{kind}:follows:{}",
                    match first {
                        None => "end/space/cs".to_string(),
                        Some(c) if ('a'..='f').contains(&c) => "a-f".into(),
                        Some(c) if ('A'..='F').contains(&c) => "A-F".into(),
                        Some(c) if c.is_ascii_lowercase() => "g-z".into(),
                        Some(c) if c.is_ascii_uppercase() => "G-Z".into(),
                        Some(c) if c.is_ascii_digit() => "digit".into(),
                        Some(_) => "other".into(),
                    }
                ));
                let lower = text.to_ascii_lowercase();
                let em_ex = lower.contains("em") || lower.contains("ex");
                let runs: Vec<bool> = if cat12 && em_ex {
                    vec![] // needs \\catcode (StdLibState) whose em/ex are 12pt: not comparable
                } else if cat12 {
                    vec![true]
                } else if flag & 2 != 0 && !em_ex {
                    vec![false, true]
                } else {
                    vec![false]
                };
                // defect classes: a decimal point after the space that ended a number (C06-i, fixed);
                // a blank before a keyword (C06-j: the model of the unfixed code explains the text exactly
                // and differs from the model of the fixed code); a blank between `fil` and `l` (C06-k:
                // model and TeX differ, the code follows the model)
                let (old_model, old_out) = match old_reply {
                    Some(r) => {
                        let (w, out) = parse(r);
                        (Some(w), out)
                    }
                    None => (None, String::new()),
                };
                let blank_kw = old_model.as_ref().map_or(false, |om| *om != model || old_out != mout);
                let fil_l = model != spec || mout != sout;
                let space_point = (kind == "tdim" || kind == "tglue") && (text.contains("_.") || text.contains("_,"));
                if space_point {
                    o.tag(format!("{kind}:space-point"));
                }
                if fil_l {
                    o.tag(format!("{kind}:fil-blank-l"));
                } else if blank_kw {
                    o.tag(format!("{kind}:blank-keyword"));
                }
                let agrees = |g: &Got, out: &str, w: &Want, wout: &str| -> bool {
                    match (g, w) {
                        (Got::Vals(v, e), Want::Vals(wv, we)) => v == wv && e.map_or(true, |e| e == *we) && out == wout,
                        _ => false,
                    }
                };
                for std in runs {
                    let (got, out) = observe(std);
                    // label a recorded deviation only if the implementation does exactly what its model says
                    let class = if space_point {
                        "[space-point]"
                    } else if fil_l && agrees(&got, &out, &model, &mout) {
                        "[fil-blank-l]"
                    } else if blank_kw && old_model.as_ref().map_or(false, |om| agrees(&got, &out, om, &old_out)) {
                        "[blank-keyword]"
                    } else {
                        ""
                    };
                    let stream = if std { format!("{kind}-stdlib{class}") } else { format!("{kind}{class}") };
                    if out.ends_with("<fatal>") {
                        // the input ended inside a number or keyword: a fatal error in the code, outside the property
                        o.tag(format!("{kind}:fatal-end-of-input"));
                        continue;
                    }
                    classify_tags(&mut o, kind, &got, &spec);
                    compare(&mut o, &stream, &got, &model, &spec);
                    if let Got::Vals(..) = got {
                        if spec != Want::Undef && out != sout {
                            o.fail(Kind::ImplVsSpec, &stream, format!("{stream}: text after the constant"), format!("{src}: typeset {out:?}; TeX leaves {sout:?} (model {mout:?})"));
                        } else if spec != Want::Undef && out != mout {
                            o.fail(Kind::ImplVsModel, &stream, format!("{stream}: model text"), format!("{src}: typeset {out:?}; model {mout:?}"));
                        }
                    }
                }
            }
            other => panic!("bad case kind {other:?}"),
        }
        o
    }

    fn shrink(&self, case: &str) -> Vec<String> {
        let words: Vec<&str> = case.split_ascii_whitespace().collect();
        let mut out = vec![];
        if matches!(words.first(), Some(&"tint") | Some(&"tdim") | Some(&"tglue") | Some(&"tidx")) && words.len() == 3 {
            let tx: Vec<char> = words[2].chars().collect();
            for i in (0..tx.len()).rev() {
                let mut c = tx.clone();
                c.remove(i);
                if !c.is_empty() {
                    out.push(format!("{} {} {}", words[0], words[1], c.iter().collect::<String>()));
                }
            }
            if words[1] != "0" {
                out.push(format!("{} 0 {}", words[0], words[2]));
            }
            return out;
        }
        if words.first() == Some(&"psr") {
            // a failing range → its single values
            if let (Ok(a), Ok(b), Ok(c)) = (words[1].parse::<i64>(), words[2].parse::<i64>(), words[3].parse::<i64>()) {
                if c > 1 {
                    out.push(format!("psr {a} {b} {}", c / 2));
                    out.push(format!("psr {} {b} {}", a + b * (c / 2), c - c / 2));
                } else {
                    out.push(format!("ps {a}"));
                }
            }
            return out;
        }
        for (i, w) in words.iter().enumerate().skip(1) {
            let mut alts: Vec<String> = vec![];
            if words[i - 1] == "K" || (words[0] == "int" && i == 2) {
                continue;
            }
            if let Ok(v) = w.parse::<i64>() {
                if i >= 2 && !(words[0] == "int" && i == 2) && !(words[i - 1] == "K") {
                    for c in [0, v / 2, v - v.signum(), v / 65536 * 65536] {
                        if c != v {
                            alts.push(c.to_string());
                        }
                    }
                }
            }
            if w.len() > 1 && (w.bytes().all(|b| b.is_ascii_hexdigit() && !b.is_ascii_lowercase()) || w.bytes().all(|b| b"pms".contains(&b))) {
                alts.push(w[1..].to_string());
                alts.push(w[..w.len() - 1].to_string());
            }
            if w.starts_with('.') && w.len() > 1 {
                alts.push(w[..w.len() - 1].to_string());
            }
            if w.starts_with('r') && w[1..].parse::<u32>().is_ok() && *w != "r0" {
                alts.push("r0".into());
            }
            for a in alts {
                let mut ws: Vec<String> = words.iter().map(|x| x.to_string()).collect();
                ws[i] = a;
                out.push(ws.join(" "));
            }
        }
        out
    }

    fn extra_evidence(&self) -> Option<String> {
        Some(format!("\"exhaustive_sweep_values\": {}", self.sweep_values))
    }
}

fn main() {
    run(C06 { jobs: 16, frac_table: None, sweep_values: 0 });
}
