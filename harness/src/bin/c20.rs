//! C20 — core containers and identifiers: scoped grouping map, string interner, KMP
//! substring matcher, command tags.
//!
//! Case strings (integers only; identical to the requests of `lean/Driver/C20.lean`):
//!   `gm <nkeys> <split> <n> <ops>`   one history on `GroupingHashMap` *and* `GroupingVec`; every key read
//!                                    after every op; `iter_all` → `FromIterator` at `split`, the rebuilt
//!                                    map driven by the remaining ops.  Op: `0 k v` local insert, `1 k v`
//!                                    global insert, `2` begin_group, `3` end_group.
//!   `gx|gy <depth> <split> <n> <prefix>`  exhaustive: every extension of the prefix to `depth` ops over the
//!                                    10-op alphabet (2 keys × 2 values × 2 scopes, begin, end), compared by
//!                                    digest; `gx` = HashMap backing, `gy` = Vec backing.
//!   `km <patlen> <pat> <text>`       one pattern/text through `Matcher`/`Search`.
//!   `kx <depth> <alphabet> <patlen> <pat>`  every text of length `depth` (hence every shorter one: the
//!                                    matcher is streaming), by digest.
//!   `in <nstr> (<len> <bytes>)*`     interner, constant hasher and default hasher, serde rebuild.
//!   `tg <T> <N>`                     `T` threads × `N` `Tag::new()`; `st <T>`: `T` threads on one `StaticTag`.

use std::collections::{BTreeSet, HashMap, HashSet};
use std::hash::{BuildHasherDefault, Hasher};
use std::num::NonZeroU32;
use texcraft_stdext::algorithms::substringsearch::Matcher;
use texcraft_stdext::collections::groupingmap::{BackingContainer, GroupingContainer, Item, Scope};
use texcraft_stdext::collections::interner::{Interner, Key};
use texcraft_stdext::collections::nevec::Nevec;
use texlang::command::{StaticTag, Tag};
use vh::*;

// ------------------------------------------------------------------------------------------
// digests: the same arithmetic as DrvC20.mix
// ------------------------------------------------------------------------------------------
const SEED0: u64 = 14695981039346656037;
#[inline]
fn mix(h: u64, x: u64) -> u64 {
    (h ^ x).wrapping_mul(1099511628211)
}

// ------------------------------------------------------------------------------------------
// grouping map
// ------------------------------------------------------------------------------------------
#[derive(Clone, Copy, PartialEq, Eq, Debug)]
enum GOp {
    Ins(usize, usize, bool), // key, value, global
    Ext(usize, usize),       // `extend([(key, value)])`: a local insert through the other public entry point
    Begin,
    End,
}

fn enc_gops(ops: &[GOp]) -> String {
    let mut v: Vec<i64> = vec![];
    for op in ops {
        match *op {
            GOp::Ins(k, val, g) => v.extend([g as i64, k as i64, val as i64]),
            GOp::Ext(k, val) => v.extend([4, k as i64, val as i64]),
            GOp::Begin => v.push(2),
            GOp::End => v.push(3),
        }
    }
    join(&v)
}

fn dec_gops(n: usize, v: &[i64]) -> Vec<GOp> {
    let mut ops = vec![];
    let mut i = 0;
    while ops.len() < n {
        match v[i] {
            c @ (0 | 1) => {
                ops.push(GOp::Ins(v[i + 1] as usize, v[i + 2] as usize, c == 1));
                i += 3;
            }
            2 => {
                ops.push(GOp::Begin);
                i += 1;
            }
            3 => {
                ops.push(GOp::End);
                i += 1;
            }
            4 => {
                ops.push(GOp::Ext(v[i + 1] as usize, v[i + 2] as usize));
                i += 3;
            }
            x => panic!("bad op code {x}"),
        }
    }
    assert_eq!(i, v.len(), "trailing words in op list");
    ops
}

fn alpha_op(i: usize) -> GOp {
    if i < 8 {
        GOp::Ins(i % 2, (i / 2) % 2, (i / 4) % 2 == 1)
    } else if i == 8 {
        GOp::Begin
    } else {
        GOp::End
    }
}

type GC<T> = GroupingContainer<usize, usize, T>;

/// One op, then every key is read, then `len()` and `iter()`: exactly `DrvC20.mStep`.
fn g_step<T: BackingContainer<usize, usize>>(m: &mut GC<T>, nkeys: usize, op: GOp, out: &mut Vec<u64>) {
    let code = match op {
        GOp::Ins(k, v, g) => m.insert(k, v, if g { Scope::Global } else { Scope::Local }) as u64,
        GOp::Ext(k, v) => {
            m.extend([(k, v)]);
            2
        }
        GOp::Begin => {
            m.begin_group();
            2
        }
        GOp::End => match m.end_group() {
            Ok(()) => 2,
            Err(_) => 3,
        },
    };
    out.push(code);
    for k in 0..nkeys {
        out.push(match m.get(&k) {
            None => 0,
            Some(v) => *v as u64 + 1,
        });
    }
    // the other observers of the visible state: len()/is_empty() and iter() (order-independent sum)
    let len = m.len() as u64;
    out.push(if m.is_empty() == (len == 0) { len } else { 999_999 });
    out.push(m.iter().map(|(k, v)| k as u64 * 31 + *v as u64 + 1).sum());
}

/// Canonical `iter_all`: each run of values sorted by key, a group boundary is `-1`.
fn canon_items<T: BackingContainer<usize, usize>>(m: &GC<T>) -> Vec<i64> {
    let mut out = vec![];
    let mut run: Vec<(usize, usize)> = vec![];
    let flush = |run: &mut Vec<(usize, usize)>, out: &mut Vec<i64>| {
        run.sort();
        for (k, v) in run.drain(..) {
            out.push(k as i64);
            out.push(v as i64);
        }
    };
    for it in m.iter_all() {
        match it {
            Item::BeginGroup => {
                flush(&mut run, &mut out);
                out.push(-1);
            }
            Item::Value((k, v)) => run.push((k, *v)),
        }
    }
    flush(&mut run, &mut out);
    out
}

fn rebuild<T: BackingContainer<usize, usize>>(m: &GC<T>) -> GC<T> {
    let items: Vec<Item<(usize, usize)>> = m.iter_all().map(Item::adapt_map(|(k, v): (usize, &usize)| (k, *v))).collect();
    items.into_iter().collect()
}

struct GmRun {
    trace: Vec<u64>,
    items: Result<Vec<i64>, String>,
    rebuilt: Result<Vec<u64>, String>,
}

fn run_gm<T: BackingContainer<usize, usize>>(nkeys: usize, split: usize, ops: &[GOp]) -> Result<GmRun, String> {
    caught(|| {
        let mut m: GC<T> = Default::default();
        let mut trace = vec![];
        let mut items = Ok(vec![]);
        let mut rebuilt = Ok(vec![]);
        for (i, op) in ops.iter().enumerate() {
            if i == split {
                at_split(&m, nkeys, &ops[split..], &mut items, &mut rebuilt);
            }
            g_step(&mut m, nkeys, *op, &mut trace);
        }
        if split >= ops.len() {
            at_split(&m, nkeys, &[], &mut items, &mut rebuilt);
        }
        GmRun { trace, items, rebuilt }
    })
}

fn at_split<T: BackingContainer<usize, usize>>(
    m: &GC<T>,
    nkeys: usize,
    suffix: &[GOp],
    items: &mut Result<Vec<i64>, String>,
    rebuilt: &mut Result<Vec<u64>, String>,
) {
    *items = caught(|| canon_items(m));
    *rebuilt = caught(|| {
        let mut r = rebuild(m);
        let mut t = vec![];
        for op in suffix {
            g_step(&mut r, nkeys, *op, &mut t);
        }
        t
    });
}

fn op_kind(op: GOp) -> &'static str {
    match op {
        GOp::Ins(_, _, false) => "local-insert",
        GOp::Ins(_, _, true) => "global-insert",
        GOp::Ext(..) => "extend",
        GOp::Begin => "begin_group",
        GOp::End => "end_group",
    }
}

/// Where two traces first differ: which op, and whether in its return value or in a read.
fn trace_diff(nkeys: usize, ops: &[GOp], a: &[u64], b: &[u64]) -> Option<String> {
    if a == b {
        return None;
    }
    let w = nkeys + 3;
    let n = a.len().min(b.len());
    for i in 0..n {
        if a[i] != b[i] {
            let opi = i / w;
            let what = match i % w {
                0 => "result",
                x if x <= nkeys => "visible value",
                x if x == nkeys + 1 => "len()",
                _ => "iter()",
            };
            return Some(format!("{what} after {}", ops.get(opi).map(|o| op_kind(*o)).unwrap_or("?")));
        }
    }
    Some("trace length".into())
}

fn show_u(v: &[u64]) -> String {
    if v.is_empty() {
        "-".into()
    } else {
        join(v)
    }
}
fn show_i(v: &[i64]) -> String {
    if v.is_empty() {
        "-".into()
    } else {
        join(v)
    }
}
fn parse_u(s: &str) -> Vec<u64> {
    let s = s.trim();
    if s == "-" {
        vec![]
    } else {
        s.split_ascii_whitespace().map(|w| w.parse().unwrap_or_else(|_| panic!("bad nat {w:?} in driver reply"))).collect()
    }
}

/// Branch tags of a history, from a shadow of the log structure (keys logged per open group).
fn gm_tags(ops: &[GOp], out: &mut CaseOutcome) {
    let mut vis: HashSet<usize> = HashSet::new();
    let mut logs: Vec<HashMap<usize, bool>> = vec![]; // key -> is Delete
    let mut seen: BTreeSet<&'static str> = BTreeSet::new();
    let mut maxd = 0;
    for op in ops {
        match *op {
            GOp::Ins(k, _, true) => {
                let mut purged = false;
                for l in logs.iter_mut() {
                    purged |= l.remove(&k).is_some();
                }
                if purged {
                    seen.insert("gm:global-purges-log-entry");
                }
                seen.insert(if vis.contains(&k) { "gm:insert(Some,None)" } else { "gm:insert(None,None)" });
                if !logs.is_empty() {
                    seen.insert("gm:global-inside-group");
                }
                vis.insert(k);
            }
            GOp::Ins(k, _, false) | GOp::Ext(k, _) => {
                if matches!(op, GOp::Ext(..)) {
                    seen.insert("gm:extend");
                }
                let ex = vis.contains(&k);
                match logs.last_mut() {
                    None => {
                        seen.insert(if ex { "gm:insert(Some,None)" } else { "gm:insert(None,None)" });
                    }
                    Some(l) => {
                        if !ex {
                            seen.insert("gm:insert(None,Some)");
                            l.insert(k, true);
                        } else if l.contains_key(&k) {
                            seen.insert("gm:insert(Some,Some)-occupied");
                        } else {
                            seen.insert("gm:insert(Some,Some)-vacant");
                            l.insert(k, false);
                        }
                    }
                }
                vis.insert(k);
            }
            GOp::Begin => {
                logs.push(HashMap::new());
                maxd = maxd.max(logs.len());
            }
            GOp::End => match logs.pop() {
                None => {
                    seen.insert("gm:end-no-group");
                }
                Some(l) => {
                    if l.is_empty() {
                        seen.insert("gm:end-empty-log");
                    }
                    for (k, del) in l {
                        if del {
                            seen.insert("gm:end-delete");
                            vis.remove(&k);
                        } else {
                            seen.insert("gm:end-revert");
                        }
                    }
                }
            },
        }
    }
    for s in seen {
        out.tag(s);
    }
    out.tag(format!("gm:max-depth-{}", if maxd >= 6 { "6+".to_string() } else { maxd.to_string() }));
}

/// Tags for the three `key_to_val` cases of `IterAll::next` and the two of `IterAll::new`, from the
/// canonical items and the visible set: computed on the state at `split` by a shadow run.
fn iter_tags(ops: &[GOp], out: &mut CaseOutcome) {
    // shadow: stack of snapshots
    let mut cur: HashMap<usize, usize> = HashMap::new();
    let mut saved: Vec<HashMap<usize, usize>> = vec![];
    for op in ops {
        match *op {
            GOp::Ext(k, v) => {
                cur.insert(k, v);
            }
            GOp::Ins(k, v, g) => {
                cur.insert(k, v);
                if g {
                    for s in saved.iter_mut() {
                        s.insert(k, v);
                    }
                }
            }
            GOp::Begin => saved.push(cur.clone()),
            GOp::End => {
                if let Some(s) = saved.pop() {
                    cur = s;
                }
            }
        }
    }
    if let Some(global) = saved.first() {
        for (k, v) in &cur {
            match global.get(k) {
                None => out.tag("it:visible-key-not-global(skip)"),
                Some(g) if g != v => out.tag("it:visible-key-global-value-differs"),
                Some(_) => out.tag("it:visible-key-global"),
            }
        }
        if saved.len() >= 2 {
            out.tag("it:nested>=2");
        }
    } else {
        out.tag("it:no-open-group");
    }
}

// ------------------------------------------------------------------------------------------
// interner helpers
// ------------------------------------------------------------------------------------------
#[derive(Default)]
struct ConstHasher;
impl Hasher for ConstHasher {
    fn finish(&self) -> u64 {
        12
    }
    fn write(&mut self, _: &[u8]) {}
}
type ConstBuild = BuildHasherDefault<ConstHasher>;

/// Relabel keys by order of first appearance (1, 2, …): interned ids themselves are not compared.
fn canon_keys(keys: &[usize]) -> Vec<u64> {
    let mut m: HashMap<usize, u64> = HashMap::new();
    keys.iter()
        .map(|k| {
            let n = m.len() as u64 + 1;
            *m.entry(*k).or_insert(n)
        })
        .collect()
}

struct InRun {
    keys: Vec<u64>,
    resolve_ok: bool,
    resolve_detail: String,
    /// keys handed out by the deserialised interner for `strs ++ extras`, canonicalised together with the
    /// original keys (so that "same key as before serialisation" is visible)
    after: Vec<u64>,
    get_same: bool,
}

fn run_interner<S: std::hash::BuildHasher + Default>(strs: &[String], extras: &[String]) -> Result<InRun, String> {
    caught(|| {
        let mut it: Interner<NonZeroU32, S> = Default::default();
        let mut keys: Vec<usize> = vec![];
        let mut raw: Vec<NonZeroU32> = vec![];
        let mut resolve_ok = true;
        let mut resolve_detail = String::new();
        for (i, s) in strs.iter().enumerate() {
            // `get` before interning: a key exactly when the string was interned before
            let earlier = strs[..i].iter().position(|t| t == s);
            if it.get(s) != earlier.map(|j| raw[j]) {
                resolve_ok = false;
                resolve_detail = format!("get({s:?}) before interning #{i} is {:?}, expected the key of #{earlier:?}", it.get(s).map(|k| k.into_usize()));
            }
            let k = it.get_or_intern(s);
            raw.push(k);
            keys.push(k.into_usize());
            // every key handed out so far still resolves to its string
            for j in 0..=i {
                if it.resolve(raw[j]) != Some(strs[j].as_str()) {
                    resolve_ok = false;
                    resolve_detail = format!("after interning #{i}, key of #{j} resolves to {:?}, expected {:?}", it.resolve(raw[j]), strs[j]);
                }
            }
            if it.get(s) != Some(k) {
                resolve_ok = false;
                resolve_detail = format!("get({s:?}) after interning it is not its key");
            }
            // a key that was never handed out resolves to nothing
            let distinct = keys.iter().collect::<HashSet<_>>().len();
            if let Some(unused) = NonZeroU32::try_from_usize(distinct) {
                if !raw.contains(&unused) && it.resolve(unused).is_some() {
                    resolve_ok = false;
                    resolve_detail = format!("after interning #{i}: a key never handed out resolves to {:?}", it.resolve(unused));
                }
            }
        }
        // serde rebuild with the same kind of hasher
        let ser = serde_json::to_string(&it).expect("serialize interner");
        let mut de: Interner<NonZeroU32, S> = serde_json::from_str(&ser).expect("deserialize interner");
        let mut get_same = true;
        for s in strs.iter().chain(extras.iter()) {
            if de.get(s).map(|k| k.into_usize()) != it.get(s).map(|k| k.into_usize()) {
                get_same = false;
            }
        }
        let mut all = keys.clone();
        for s in strs.iter().chain(extras.iter()) {
            all.push(de.get_or_intern(s).into_usize());
        }
        for (j, s) in strs.iter().enumerate() {
            if de.resolve(raw[j]) != Some(s.as_str()) {
                get_same = false;
            }
        }
        let canon = canon_keys(&all);
        InRun { keys: canon[..keys.len()].to_vec(), resolve_ok, resolve_detail, after: canon[keys.len()..].to_vec(), get_same }
    })
}

fn enc_strs(strs: &[String]) -> String {
    let mut v: Vec<i64> = vec![strs.len() as i64];
    for s in strs {
        v.push(s.len() as i64);
        v.extend(s.bytes().map(|b| b as i64));
    }
    join(&v)
}

fn dec_strs(v: &[i64]) -> Vec<String> {
    let n = v[0] as usize;
    let mut i = 1;
    let mut out = vec![];
    for _ in 0..n {
        let l = v[i] as usize;
        let bytes: Vec<u8> = v[i + 1..i + 1 + l].iter().map(|b| *b as u8).collect();
        out.push(String::from_utf8(bytes).expect("case strings are valid UTF-8"));
        i += 1 + l;
    }
    out
}

// ------------------------------------------------------------------------------------------
// tags
// ------------------------------------------------------------------------------------------
fn tag_value(t: Tag) -> Option<u64> {
    // `Tag` is opaque; its derived Debug prints `Tag(n)`.
    let s = format!("{t:?}");
    s.strip_prefix("Tag(")?.strip_suffix(')')?.parse().ok()
}

// ------------------------------------------------------------------------------------------

struct C20 {
    /// first failing single case found while bisecting an exhaustive case (for the shrinker)
    found: HashMap<String, String>,
    /// number of matcher runs that did not terminate (their threads are leaked); after a few, matcher
    /// cases are skipped so that the run itself terminates
    kmp_hangs: u32,
    /// histories / texts covered inside exhaustive cases (for the evidence)
    histories: u64,
    texts: u64,
}

/// Run `f` on a helper thread; `None` if it has not finished after `secs` seconds (the matcher is a
/// `while` loop over a table: a wrong table index can make it spin forever, which must be an outcome).
fn with_timeout<T: Send + 'static>(secs: u64, f: impl FnOnce() -> T + Send + 'static) -> Option<T> {
    let (tx, rx) = std::sync::mpsc::channel();
    std::thread::spawn(move || {
        let _ = tx.send(f());
    });
    rx.recv_timeout(std::time::Duration::from_secs(secs)).ok()
}

fn real_search(pat: &[u8], text: &[u8]) -> Result<Vec<u64>, String> {
    caught(|| {
        let m = Matcher::new(Nevec::new_with_tail(pat[0], pat[1..].to_vec()));
        let mut s = m.start();
        text.iter().map(|c| s.next(c) as u64).collect::<Vec<u64>>()
    })
}

impl C20 {
    fn gm_case(&mut self, case: &str, drv: &mut Driver, out: &mut CaseOutcome, tags: bool) {
        let v = parse_i64s(case.split_once(' ').unwrap().1);
        let (nkeys, split, n) = (v[0] as usize, v[1] as usize, v[2] as usize);
        let ops = dec_gops(n, &v[3..]);
        out.nontrivial = ops.iter().any(|o| matches!(o, GOp::Ins(..) | GOp::Ext(..))) && ops.iter().any(|o| matches!(o, GOp::Begin));
        if tags {
            gm_tags(&ops, out);
            iter_tags(&ops[..split.min(ops.len())], out);
        }
        let reply = drv.ask(case);
        let parts: Vec<&str> = reply.split('|').map(|s| s.trim()).collect();
        if parts.len() != 6 {
            panic!("driver reply malformed: {reply} (request {case})");
        }
        let (m_trace, s_trace) = (parse_u(parts[0]), parse_u(parts[1]));
        // the generic container code over the Vec backing (`BMap (vecBacking Nat)`) is the model of `GroupingVec`
        let mv_trace = parse_u(parts[4]);
        if let Some(d) = trace_diff(nkeys, &ops, &mv_trace, &s_trace) {
            out.fail(Kind::ModelVsSpec, "gmap-vec", format!("gmap vec-model/spec: {d}"), format!("vec model: {}\nspec: {}", parts[4], parts[1]));
        }
        if let Some(d) = trace_diff(nkeys, &ops, &m_trace, &s_trace) {
            out.fail(Kind::ModelVsSpec, "gmap", format!("gmap model/spec: {d}"), format!("model: {}\nspec: {}", parts[0], parts[1]));
        }
        let w = nkeys + 3;
        let s_suffix: Vec<u64> = s_trace[(split.min(ops.len()) * w).min(s_trace.len())..].to_vec();
        if parts[3] != "panic" && parts[3] != "fuel" {
            if let Some(d) = trace_diff(nkeys, &ops[split.min(ops.len())..], &parse_u(parts[3]), &s_suffix) {
                out.fail(Kind::ModelVsSpec, "rebuild", format!("rebuild model/spec: {d}"), format!("model rebuilt: {}\nspec suffix: {}", parts[3], show_u(&s_suffix)));
            }
        } else {
            out.fail(Kind::ModelVsSpec, "iter_all", "model iter_all panics", format!("model iterAll: {}", parts[3]));
        }
        for (backing, r) in [("hashmap", run_gm::<HashMap<usize, usize>>(nkeys, split, &ops)), ("vec", run_gm::<Vec<Option<usize>>>(nkeys, split, &ops))] {
            let stream = format!("gmap-{backing}");
            match r {
                Err(p) => out.fail(Kind::ImplPanic, &stream, format!("panic {}", strip_msg(&p)), format!("GroupingContainer panicked: {p}")),
                Ok(run) => {
                    if let Some(d) = trace_diff(nkeys, &ops, &run.trace, &s_trace) {
                        out.fail(Kind::ImplVsSpec, &stream, format!("history: {d}"), format!("impl: {}\nspec: {}", show_u(&run.trace), parts[1]));
                    }
                    let (model_trace, model_txt, model_items) = if backing == "vec" { (&mv_trace, parts[4], parts[5]) } else { (&m_trace, parts[0], parts[2]) };
                    if let Some(d) = trace_diff(nkeys, &ops, &run.trace, model_trace) {
                        out.fail(Kind::ImplVsModel, &stream, format!("history (model): {d}"), format!("impl: {}\nmodel: {model_txt}", show_u(&run.trace)));
                    }
                    match &run.items {
                        Err(p) => out.fail(Kind::ImplPanic, "iter_all", format!("panic {}", strip_msg(p)), format!("iter_all panicked after {split} ops: {p}")),
                        Ok(items) => {
                            if show_i(items) != model_items {
                                out.fail(Kind::ImplVsModel, "iter_all", "iter_all items differ", format!("impl ({backing}): {}\nmodel: {model_items}", show_i(items)));
                            }
                        }
                    }
                    match &run.rebuilt {
                        Err(p) => out.fail(Kind::ImplPanic, "rebuild", format!("panic {}", strip_msg(p)), format!("iter_all/FromIterator panicked after {split} ops: {p}")),
                        Ok(t) => {
                            if let Some(d) = trace_diff(nkeys, &ops[split.min(ops.len())..], t, &s_suffix) {
                                out.fail(
                                    Kind::ImplVsSpec,
                                    "rebuild",
                                    format!("rebuilt map: {d}"),
                                    format!("rebuilt after {split} ops, then the remaining ops\nimpl: {}\nspec: {}", show_u(t), show_u(&s_suffix)),
                                );
                            }
                        }
                    }
                }
            }
        }
    }

    fn gx_digest<T: BackingContainer<usize, usize>>(depth: usize, split: usize, prefix: &[usize]) -> Result<(u64, u64, u64), String> {
        caught(|| {
            let (mut dm, mut di, mut leaves) = (SEED0, SEED0, 0u64);
            let free = depth - prefix.len();
            let total = 10usize.pow(free as u32);
            let mut hist: Vec<GOp> = prefix.iter().map(|i| alpha_op(*i)).collect();
            hist.resize(depth, GOp::Begin);
            let mut t: Vec<u64> = Vec::with_capacity(64);
            for leaf in 0..total {
                // digits of `leaf`, most significant first = lexicographic order = the driver's DFS order
                let mut x = leaf;
                for j in (prefix.len()..depth).rev() {
                    hist[j] = alpha_op(x % 10);
                    x /= 10;
                }
                let mut m: GC<T> = Default::default();
                let mut hm = SEED0;
                let mut hrb = SEED0;
                let mut rb: Option<GC<T>> = None;
                for (i, op) in hist.iter().enumerate() {
                    if i == split {
                        rb = Some(rebuild(&m));
                    }
                    t.clear();
                    g_step(&mut m, 2, *op, &mut t);
                    for x in &t {
                        hm = mix(hm, *x);
                    }
                    if let Some(r) = rb.as_mut() {
                        t.clear();
                        g_step(r, 2, *op, &mut t);
                        for x in &t {
                            hrb = mix(hrb, *x);
                        }
                    }
                }
                dm = mix(mix(dm, hm), hrb);
                let mut hi = SEED0;
                for x in canon_items(&m) {
                    hi = mix(hi, (x + 2) as u64);
                }
                di = mix(di, hi);
                leaves += 1;
            }
            (dm, di, leaves)
        })
    }

    fn gx_case(&mut self, case: &str, drv: &mut Driver, out: &mut CaseOutcome) {
        let (cmd, rest) = case.split_once(' ').unwrap();
        let v = parse_i64s(rest);
        let (depth, split, n) = (v[0] as usize, v[1] as usize, v[2] as usize);
        let prefix: Vec<usize> = v[3..].iter().map(|x| *x as usize).collect();
        assert_eq!(prefix.len(), n);
        out.nontrivial = true;
        out.tag(format!("{cmd}:depth-{depth}"));
        let reply = drv.ask(&format!("gx {rest}"));
        let r: Vec<u64> = reply.split_ascii_whitespace().map(|w| w.parse().unwrap_or_else(|_| panic!("bad gx reply {reply}"))).collect();
        let (m_dm, m_ds, m_di, m_leaves) = (r[0], r[1], r[2], r[3]);
        let got = if cmd == "gx" { Self::gx_digest::<HashMap<usize, usize>>(depth, split, &prefix) } else { Self::gx_digest::<Vec<Option<usize>>>(depth, split, &prefix) };
        let agree = match &got {
            Ok((dm, di, leaves)) => *dm == m_dm && *dm == m_ds && *di == m_di && *leaves == m_leaves,
            Err(_) => false,
        };
        if agree {
            self.histories += m_leaves;
            return;
        }
        // Disagreement somewhere below this prefix: find the first history that fails on its own.
        let free = depth - prefix.len();
        let total = 10usize.pow(free as u32);
        for leaf in 0..total {
            let mut idx = prefix.clone();
            let mut digits = vec![0usize; free];
            let mut x = leaf;
            for j in (0..free).rev() {
                digits[j] = x % 10;
                x /= 10;
            }
            idx.extend(digits);
            let ops: Vec<GOp> = idx.iter().map(|i| alpha_op(*i)).collect();
            let line = format!("gm 2 {split} {depth} {}", enc_gops(&ops));
            let mut o = CaseOutcome::default();
            self.gm_case(&line, drv, &mut o, false);
            // also the end state's iter_all (the digest covers it)
            if o.failures.is_empty() {
                let line2 = format!("gm 2 {depth} {depth} {}", enc_gops(&ops));
                self.gm_case(&line2, drv, &mut o, false);
                if !o.failures.is_empty() {
                    self.found.insert(case.to_string(), line2);
                }
            } else {
                self.found.insert(case.to_string(), line);
            }
            if !o.failures.is_empty() {
                for mut f in o.failures {
                    f.detail = format!("first failing history under this prefix: {}\n{}", self.found[case], f.detail);
                    out.failures.push(f);
                }
                return;
            }
        }
        match got {
            Err(p) => out.fail(Kind::ImplPanic, cmd, format!("panic {}", strip_msg(&p)), format!("exhaustive enumeration panicked: {p}")),
            Ok((dm, di, leaves)) => out.fail(
                Kind::ImplVsModel,
                cmd,
                "exhaustive digest differs but no single history does",
                format!("impl {dm} {di} {leaves}; driver {reply}"),
            ),
        }
    }

    fn km_case(&mut self, case: &str, drv: &mut Driver, out: &mut CaseOutcome, tags: bool) {
        let v = parse_i64s(case.split_once(' ').unwrap().1);
        let pl = v[0] as usize;
        let pat: Vec<u8> = v[1..1 + pl].iter().map(|x| *x as u8).collect();
        let text: Vec<u8> = v[1 + pl..].iter().map(|x| *x as u8).collect();
        out.nontrivial = text.len() >= pat.len() && pat.len() >= 2;
        let reply = drv.ask(case);
        let parts: Vec<&str> = reply.split('|').map(|s| s.trim()).collect();
        if parts.len() != 4 {
            panic!("driver reply malformed: {reply} (request {case})");
        }
        if parts[0] != parts[1] {
            out.fail(Kind::ModelVsSpec, "kmp", "kmp model/spec answers differ", format!("model: {}\nspec: {}", parts[0], parts[1]));
        }
        if parts[2] != parts[3] {
            out.fail(Kind::ModelVsSpec, "kmp", "kmp model/spec prefix function differs", format!("model: {}\nspec: {}", parts[2], parts[3]));
        }
        if self.kmp_hangs >= 6 {
            out.tag("km:skipped-after-hangs");
            return;
        }
        let (p2, t2) = (pat.clone(), text.clone());
        let got = match with_timeout(if self.kmp_hangs == 0 { 10 } else { 2 }, move || real_search(&p2, &t2)) {
            Some(g) => g,
            None => {
                self.kmp_hangs += 1;
                out.fail(Kind::ImplPanic, "kmp", "kmp: Matcher/Search does not terminate", format!("pattern {pat:?} text {text:?}: no answer within the time limit"));
                return;
            }
        };
        match got {
            Err(p) => out.fail(Kind::ImplPanic, "kmp", format!("panic {}", strip_msg(&p)), format!("Matcher/Search panicked: {p}")),
            Ok(ans) => {
                let spec = parse_u(parts[1]);
                if tags {
                    let pos: Vec<usize> = ans.iter().enumerate().filter(|(_, b)| **b == 1).map(|(i, _)| i).collect();
                    out.tag(match pos.len() {
                        0 => "km:no-match",
                        1 => "km:one-match",
                        _ => "km:many-matches",
                    });
                    if pos.windows(2).any(|w| w[1] - w[0] < pat.len()) {
                        out.tag("km:overlapping-matches");
                    }
                    out.tag(format!("km:patlen-{}", if pat.len() >= 6 { "6+".into() } else { pat.len().to_string() }));
                }
                if ans != spec {
                    let class = if ans.iter().sum::<u64>() < spec.iter().sum::<u64>() { "missed match" } else if ans.iter().sum::<u64>() > spec.iter().sum::<u64>() { "spurious match" } else { "misplaced match" };
                    out.fail(Kind::ImplVsSpec, "kmp", format!("kmp: {class}"), format!("pattern {pat:?} text {text:?}\nimpl: {}\nspec: {}", show_u(&ans), parts[1]));
                }
                if show_u(&ans) != parts[0] {
                    out.fail(Kind::ImplVsModel, "kmp", "kmp answers differ from model", format!("impl: {}\nmodel: {}", show_u(&ans), parts[0]));
                }
            }
        }
    }

    fn kx_case(&mut self, case: &str, drv: &mut Driver, out: &mut CaseOutcome) {
        let v = parse_i64s(case.split_once(' ').unwrap().1);
        let (depth, alphabet, pl) = (v[0] as usize, v[1] as usize, v[2] as usize);
        let pat: Vec<u8> = v[3..].iter().map(|x| *x as u8).collect();
        assert_eq!(pat.len(), pl);
        out.nontrivial = true;
        out.tag(format!("kx:patlen-{pl}"));
        let reply = drv.ask(case);
        let r: Vec<u64> = reply.split_ascii_whitespace().map(|w| w.parse().unwrap_or(u64::MAX)).collect();
        let total = alphabet.pow(depth as u32);
        if self.kmp_hangs >= 6 {
            out.tag("kx:skipped-after-hangs");
            return;
        }
        let pat_c = pat.clone();
        let got = with_timeout(if self.kmp_hangs == 0 { 120 } else { 5 }, move || caught(|| {
            let pat = pat_c;
            let m = Matcher::new(Nevec::new_with_tail(pat[0], pat[1..].to_vec()));
            let mut d = SEED0;
            let mut text = vec![0u8; depth];
            for leaf in 0..total {
                let mut x = leaf;
                for j in (0..depth).rev() {
                    text[j] = (x % alphabet) as u8;
                    x /= alphabet;
                }
                let mut s = m.start();
                let mut h = SEED0;
                for c in &text {
                    h = mix(h, s.next(c) as u64);
                }
                d = mix(d, h);
            }
            d
        }));
        let got = match got {
            Some(g) => g,
            None => {
                self.kmp_hangs += 1;
                Err("timeout: enumeration did not finish".to_string())
            }
        };
        if let (Ok(d), 3) = (&got, r.len()) {
            if *d == r[0] && *d == r[1] && r[2] == total as u64 {
                self.texts += total as u64;
                return;
            }
        }
        // find the first failing text
        let mut text = vec![0u8; depth];
        for leaf in 0..total {
            let mut x = leaf;
            for j in (0..depth).rev() {
                text[j] = (x % alphabet) as u8;
                x /= alphabet;
            }
            let line = format!("km {pl} {} {}", join(&pat), join(&text));
            let mut o = CaseOutcome::default();
            self.km_case(&line, drv, &mut o, false);
            if !o.failures.is_empty() {
                self.found.insert(case.to_string(), line.clone());
                for mut f in o.failures {
                    f.detail = format!("first failing text for this pattern: {line}\n{}", f.detail);
                    out.failures.push(f);
                }
                return;
            }
        }
        out.fail(Kind::ImplVsModel, "kx", "exhaustive kmp digest differs but no single text does", format!("impl {got:?}; driver {reply}"));
    }

    fn in_case(&mut self, case: &str, drv: &mut Driver, out: &mut CaseOutcome) {
        let v = parse_i64s(case.split_once(' ').unwrap().1);
        let strs = dec_strs(&v);
        let distinct: HashSet<&String> = strs.iter().collect();
        out.nontrivial = distinct.len() >= 2 && distinct.len() < strs.len();
        out.tag(if distinct.len() < strs.len() { "in:has-repeats" } else { "in:all-distinct" });
        if strs.iter().any(|s| s.is_empty()) {
            out.tag("in:empty-string");
        }
        if strs.iter().any(|a| strs.iter().any(|b| a != b && !a.is_empty() && b.starts_with(a.as_str()))) {
            out.tag("in:prefix-related-strings");
        }
        if strs.iter().any(|s| !s.is_ascii()) {
            out.tag("in:multibyte");
        }
        let extras: Vec<String> = vec!["".into(), "zz-new".into(), strs.first().map(|s| format!("{s}x")).unwrap_or_default()];
        let reply = drv.ask(case);
        let parts: Vec<&str> = reply.split('|').map(|s| s.trim()).collect();
        if parts.len() != 5 {
            panic!("driver reply malformed: {reply} (request {case})");
        }
        let spec = parse_u(parts[2]);
        if parts[0] != parts[2] || parts[1] != parts[2] || parts[3] != "resolve=1" || parts[4] != "rebuild=1" {
            out.fail(Kind::ModelVsSpec, "interner", "interner model/spec differ", reply.clone());
        }
        // what the rebuilt interner must hand out for strs ++ extras: ask the spec on the whole sequence
        let mut all = strs.clone();
        all.extend(strs.iter().cloned());
        all.extend(extras.iter().cloned());
        let reply2 = drv.ask(&format!("in {}", enc_strs(&all)));
        let parts2: Vec<&str> = reply2.split('|').map(|s| s.trim()).collect();
        let spec_all = parse_u(parts2[2]);
        let spec_after = spec_all[strs.len()..].to_vec();
        for (hname, r) in [("const", run_interner::<ConstBuild>(&strs, &extras)), ("default", run_interner::<std::collections::hash_map::RandomState>(&strs, &extras))] {
            let stream = format!("interner-{hname}");
            match r {
                Err(p) => out.fail(Kind::ImplPanic, &stream, format!("panic {}", strip_msg(&p)), format!("Interner panicked: {p}")),
                Ok(run) => {
                    if run.keys != spec {
                        let class = if run.keys.iter().max() < spec.iter().max() { "different strings share a key" } else { "equal strings get different keys" };
                        out.fail(Kind::ImplVsSpec, &stream, format!("interner: {class}"), format!("strings {strs:?}\nimpl keys (canonical): {}\nspec: {}", show_u(&run.keys), parts[2]));
                    }
                    if !run.resolve_ok {
                        out.fail(Kind::ImplVsSpec, &stream, "interner: get/resolve disagree with the interned strings", run.resolve_detail.clone());
                    }
                    if run.after != spec_after || !run.get_same {
                        out.fail(
                            Kind::ImplVsSpec,
                            &stream,
                            "interner: deserialised interner behaves differently",
                            format!("strings {strs:?} extras {extras:?}\nimpl keys after rebuild: {}\nspec: {}\nget/resolve unchanged: {}", show_u(&run.after), show_u(&spec_after), run.get_same),
                        );
                    }
                    if show_u(&run.keys) != parts[0] {
                        out.fail(Kind::ImplVsModel, &stream, "interner keys differ from model", format!("impl: {}\nmodel: {}", show_u(&run.keys), parts[0]));
                    }
                }
            }
        }
    }

    fn tg_case(&mut self, case: &str, drv: &mut Driver, out: &mut CaseOutcome) {
        let v = parse_i64s(case.split_once(' ').unwrap().1);
        let (t, n) = (v[0] as usize, v[1] as usize);
        out.nontrivial = t >= 2;
        out.tag(format!("tg:threads-{}", if t >= 32 { "32+".into() } else { t.to_string() }));
        let got = caught(|| {
            let before = Tag::new();
            let barrier = std::sync::Barrier::new(t);
            let mut per_thread: Vec<Vec<Tag>> = vec![];
            std::thread::scope(|s| {
                let hs: Vec<_> = (0..t)
                    .map(|_| {
                        s.spawn(|| {
                            barrier.wait();
                            (0..n).map(|_| Tag::new()).collect::<Vec<Tag>>()
                        })
                    })
                    .collect();
                for h in hs {
                    per_thread.push(h.join().expect("tag thread panicked"));
                }
            });
            let after = Tag::new();
            (before, per_thread, after)
        });
        match got {
            Err(p) => out.fail(Kind::ImplPanic, "tags", format!("panic {}", strip_msg(&p)), format!("Tag::new panicked: {p}")),
            Ok((before, per_thread, after)) => {
                let all: Vec<Tag> = per_thread.iter().flatten().copied().collect();
                // interleaving actually happened? (a thread's tags are not one contiguous block)
                let vals: Vec<Option<u64>> = all.iter().map(|t| tag_value(*t)).collect();
                if vals.as_slice().iter().all(|v| v.is_some()) {
                    let vals: Vec<u64> = vals.into_iter().map(|v| v.unwrap()).collect();
                    let interleaved = per_thread.iter().any(|th| {
                        let v: Vec<u64> = th.iter().map(|t| tag_value(*t).unwrap()).collect();
                        v.windows(2).any(|w| w[1] != w[0] + 1)
                    });
                    out.tag(if interleaved { "tg:threads-interleaved" } else { "tg:threads-not-interleaved" });
                    // S (computed by Lean on the real output): pairwise distinct
                    let verdict = drv.ask(&format!("tgchk {}", join(&vals)));
                    if verdict != "distinct=1" {
                        out.fail(Kind::ImplVsSpec, "tags", "tags: two Tag::new() calls returned the same tag", format!("{t} threads x {n}: {verdict}"));
                    }
                    // M: exactly the values n0 .. n0 + T*N - 1
                    let n0 = tag_value(before).unwrap() + 1;
                    let m = drv.ask(&format!("tg {n0} {t} {n}"));
                    let i = format!(
                        "count={} min={} max={} panics=0",
                        vals.len(),
                        vals.iter().min().copied().unwrap_or(0),
                        vals.iter().max().copied().unwrap_or(0)
                    );
                    if i != m || tag_value(after) != Some(n0 + (t * n) as u64) {
                        out.fail(Kind::ImplVsModel, "tags", "tags: values are not the model's contiguous range", format!("impl: {i} next={:?}\nmodel: {m}", tag_value(after)));
                    }
                    // the instruction-level machine (mutex as a primitive) under a pseudo-random scheduler
                    if t * n <= 400 {
                        out.tag("tg:instruction-level-model");
                        let mf = drv.ask(&format!("tf {n0} {t} {n} {}", vals[0] % 97));
                        if i != mf {
                            out.fail(Kind::ImplVsModel, "tags", "tags: values differ from the instruction-level model", format!("impl: {i}\nmodel: {mf}"));
                        }
                    }
                } else {
                    // opaque tags: distinctness through Eq/Ord only
                    let set: BTreeSet<Tag> = all.iter().copied().collect();
                    if set.len() != all.len() || set.contains(&before) || set.contains(&after) {
                        out.fail(Kind::ImplVsSpec, "tags", "tags: two Tag::new() calls returned the same tag", format!("{t} threads x {n}"));
                    }
                    out.tag("tg:opaque-debug");
                }
            }
        }
    }

    fn st_case(&mut self, case: &str, drv: &mut Driver, out: &mut CaseOutcome) {
        let v = parse_i64s(case.split_once(' ').unwrap().1);
        let t = v[0] as usize;
        // rounds: every round is a first use of a fresh StaticTag by all threads at once
        let rounds = v.get(1).copied().unwrap_or(1).max(1) as usize;
        out.nontrivial = t >= 2;
        out.tag("st:static-tag");
        let got = caught(|| {
            let before = Tag::new();
            let cells: Vec<StaticTag> = (0..rounds).map(|_| StaticTag::new()).collect();
            let barrier = std::sync::Barrier::new(t);
            let mut res: Vec<Vec<(Tag, Tag)>> = vec![];
            std::thread::scope(|s| {
                let hs: Vec<_> = (0..t)
                    .map(|_| {
                        s.spawn(|| {
                            cells
                                .iter()
                                .map(|cell| {
                                    barrier.wait();
                                    (cell.get(), cell.get())
                                })
                                .collect::<Vec<(Tag, Tag)>>()
                        })
                    })
                    .collect();
                for h in hs {
                    res.push(h.join().expect("static tag thread panicked"));
                }
            });
            let after = Tag::new();
            let last: Vec<Tag> = cells.iter().map(|c| c.get()).collect();
            (before, res, after, last)
        });
        match got {
            Err(p) => out.fail(Kind::ImplPanic, "static-tag", format!("panic {}", strip_msg(&p)), format!("StaticTag::get panicked: {p}")),
            Ok((before, res, after, last)) => {
                for (r, l) in last.iter().enumerate() {
                    let set: BTreeSet<Tag> = res.iter().flat_map(|th| [th[r].0, th[r].1]).collect();
                    if set.len() != 1 || !set.contains(l) {
                        out.fail(Kind::ImplVsSpec, "static-tag", "static tag resolves to more than one value", format!("{t} threads, round {r}: {set:?}, later {l:?}"));
                        break;
                    }
                }
                let distinct: BTreeSet<Tag> = last.iter().copied().collect();
                if distinct.len() != last.len() || distinct.contains(&before) || distinct.contains(&after) {
                    out.fail(Kind::ImplVsSpec, "static-tag", "static tag equals another tag", format!("{last:?}"));
                }
                if let (Some(b), Some(a)) = (tag_value(before), tag_value(after)) {
                    // M: one creation per cell (the model's `get` schedule on one cell, per round)
                    let m = drv.ask(&format!("st {} {t}", b + 1));
                    let want = format!("count={t} min={} max={}", b + 1, b + 1);
                    if m != want || a != b + 1 + rounds as u64 {
                        out.fail(Kind::ImplVsModel, "static-tag", "static tag: not one creation per cell", format!("{rounds} cells, counter went from {} to {a}\nmodel (one cell): {m}", b + 1));
                    }
                }
            }
        }
    }

    fn gen_history(r: &mut Rng, nkeys: usize, nvals: usize, len: usize, maxdepth: usize) -> Vec<GOp> {
        let mut ops = vec![];
        let mut depth = 0usize;
        // phases: tend to go deep, then unwind
        let mut bias_begin = r.range(1, 4) as u64;
        for i in 0..len {
            if i % 25 == 24 {
                bias_begin = r.range(0, 4) as u64;
            }
            let x = r.below(12);
            let op = if x < bias_begin && depth < maxdepth {
                depth += 1;
                GOp::Begin
            } else if x < 5 {
                if depth > 0 {
                    depth -= 1;
                    GOp::End
                } else if r.chance(1, 4) {
                    GOp::End // the error path
                } else {
                    GOp::Ins(r.below(nkeys as u64) as usize, r.below(nvals as u64) as usize, false)
                }
            } else if x < 10 {
                if r.chance(1, 8) {
                    GOp::Ext(r.below(nkeys as u64) as usize, r.below(nvals as u64) as usize)
                } else {
                    GOp::Ins(r.below(nkeys as u64) as usize, r.below(nvals as u64) as usize, false)
                }
            } else {
                GOp::Ins(r.below(nkeys as u64) as usize, r.below(nvals as u64) as usize, true)
            };
            ops.push(op);
        }
        ops
    }
}

/// Breadth-first search over the distinct *concrete* states of the real `GroupingHashMap` (2 keys × 2
/// values): a state is identified by its visible values plus its canonical `iter_all` (which shows every
/// group's logged keys and the values they revert to). Every state is reached by a shortest history; every
/// one-op extension of it becomes a `gm` case whose `iter_all`/rebuild is taken at the very end. This goes
/// deeper (nesting and length) than the exhaustive length-bounded scope.
fn bfs_cases(max_depth: usize, max_states: usize) -> Vec<String> {
    let key_of = |h: &[GOp]| -> Option<Vec<i64>> {
        caught(|| {
            let mut m: GC<HashMap<usize, usize>> = Default::default();
            let mut t = vec![];
            for op in h {
                g_step(&mut m, 2, *op, &mut t);
            }
            let mut k: Vec<i64> = (0..2).map(|i| m.get(&i).map(|v| *v as i64).unwrap_or(-7)).collect();
            k.extend(canon_items(&m));
            k
        })
        .ok()
    };
    let mut out = vec![];
    let mut seen: HashSet<Vec<i64>> = HashSet::new();
    let mut queue: std::collections::VecDeque<(Vec<GOp>, usize)> = Default::default();
    seen.insert(key_of(&[]).unwrap_or_default());
    queue.push_back((vec![], 0));
    let mut expanded = 0;
    while let Some((h, depth)) = queue.pop_front() {
        if expanded >= max_states {
            break;
        }
        expanded += 1;
        for a in 0..10 {
            let op = alpha_op(a);
            if op == GOp::Begin && depth >= max_depth {
                continue;
            }
            let mut h2 = h.clone();
            h2.push(op);
            out.push(format!("gm 2 {} {} {}", h2.len(), h2.len(), enc_gops(&h2)));
            let d2 = match op {
                GOp::Begin => depth + 1,
                GOp::End => depth.saturating_sub(1),
                _ => depth,
            };
            if let Some(k) = key_of(&h2) {
                if seen.insert(k) {
                    queue.push_back((h2, d2));
                }
            }
        }
    }
    out
}

fn all_seqs(alphabet: usize, len: usize) -> Vec<Vec<usize>> {
    let mut out = vec![vec![]];
    for _ in 0..len {
        let mut next = vec![];
        for s in &out {
            for a in 0..alphabet {
                let mut t = s.clone();
                t.push(a);
                next.push(t);
            }
        }
        out = next;
    }
    out
}

impl Property for C20 {
    fn id(&self) -> &'static str {
        "C20"
    }
    fn rule(&self) -> String {
        "gx/gy: every history over the 10-op alphabet (2 keys x 2 values x local/global, begin, end) of length = depth (quick 6 on HashMap backing and 5 on Vec backing; thorough 7 and 6), \
         every key read after every op, iter_all->FromIterator at depth/2 then the remaining ops on the rebuilt map, iter_all of the final state, compared by digest and bisected on mismatch; \
         gm (bfs): breadth-first search over the distinct concrete states of the real map (visible values + canonical iter_all) for 2 keys x 2 values, nesting <= 3 (quick, first 1500 states) / <= 5 (thorough, first 40000 states), every one-op extension of every state's shortest history, iter_all + rebuild at the end; \
         gm: random histories, 1..12 keys, 2..4 values, length <= 400, nesting <= 10, unmatched end_group with probability, random split; \
         kx: every pattern over {0,1,2} of length <= 4 (quick) / <= 5 (thorough) against every text of length 8 / 12 (hence all shorter: streaming), by digest; km: random patterns (<= 8, periodic ones favoured) and texts (<= 48) over 1..3 letters; \
         in: every sequence of length <= 6 (thorough) / <= 4 (quick) over {\"\", a, ab, b}, random sequences with repeats, multi-byte strings; constant hasher and RandomState; serde_json rebuild; \
         tg/st: T in {1,2,4,8,16,32,64} threads x N creations behind a barrier, repeated. \
         Non-trivial = gm: has an insert and a begin_group; km: pattern >= 2 and text >= pattern; in: repeats and >= 2 distinct strings; tg/st: >= 2 threads; exhaustive cases always. distinct = distinct case string."
            .into()
    }
    fn builtin_corpus(&self) -> Vec<String> {
        let mut v: Vec<String> = vec![];
        let g = |split: usize, ops: &[GOp]| format!("gm 3 {split} {} {}", ops.len(), enc_gops(ops));
        use GOp::*;
        // the unit tests of groupingmap.rs, and the shapes named in DESIGN 5.1
        v.push(g(1, &[Begin, Ins(0, 5, false), End, Ins(0, 4, false)]));
        v.push(g(2, &[Begin, Ins(0, 5, true), End]));
        v.push(g(5, &[Ins(0, 1, false), Begin, Ins(0, 2, false), Begin, Ins(0, 3, false), End, End]));
        v.push(g(4, &[Begin, Begin, Ins(0, 1, false), Ins(0, 2, true), End, End]));
        v.push(g(4, &[Ins(1, 1, false), Begin, Ins(0, 1, false), Begin, Ins(0, 2, false), Ins(1, 2, false), Ins(2, 0, true), End, End, End]));
        v.push(g(0, &[End, Begin, End, End]));
        v.push(g(3, &[Begin, Ins(0, 1, false), Begin, Ins(0, 2, true), Ins(0, 3, false), End, End]));
        v.push("km 1 0 0 0 0".into());
        v.push("km 2 0 0 0 0 0 0".into());
        v.push("km 3 0 1 0 0 1 0 1 0 1 0".into());
        v.push("km 5 0 0 1 0 0 0 0 1 0 0 1 0 0 0 1 0 0".into());
        v.push("km 3 0 1 2".into());
        v.push(format!("in {}", enc_strs(&["hello".into(), "world".into(), "hello".into()])));
        v.push(format!("in {}", enc_strs(&["".into(), "".into(), "a".into(), "".into()])));
        v.push(format!("in {}", enc_strs(&["é".into(), "e".into(), "é".into(), "\u{301}".into()])));
        v.push("in 0".into());
        v.push("tg 1 1".into());
        v.push("st 1".into());
        v
    }
    fn generate(&mut self, ctx: &Ctx, rng: &mut Rng) -> Vec<String> {
        let mut v = vec![];
        // --- exhaustive histories
        let (dx, dy) = if ctx.thorough { (7usize, 6usize) } else { (6, 5) };
        let plen = if ctx.thorough { 2 } else { 1 };
        for p in all_seqs(10, plen) {
            v.push(format!("gx {dx} {} {plen} {}", dx / 2, join(&p)));
        }
        for p in all_seqs(10, 1) {
            v.push(format!("gy {dy} {} 1 {}", dy / 2, join(&p)));
        }
        // every split point at a smaller depth
        let ds = if ctx.thorough { 5 } else { 4 };
        for split in 0..=ds {
            v.push(format!("gx {ds} {split} 0"));
        }
        // --- breadth-first over distinct states, deeper than the length-bounded scope
        let (bd, bs) = if ctx.thorough { (5usize, 40_000usize) } else { (3, 1_500) };
        v.extend(bfs_cases(bd, bs));
        // --- random histories
        let n_gm = if ctx.thorough { 60_000 } else { 8_000 };
        let mut r = rng.fork();
        for i in 0..n_gm {
            let nkeys = 1 + r.below(12) as usize;
            let nvals = 2 + r.below(3) as usize;
            let len = match i % 4 {
                0 => 1 + r.below(12),
                1 => 1 + r.below(40),
                2 => 1 + r.below(120),
                _ => 1 + r.below(400),
            } as usize;
            let maxdepth = 1 + r.below(10) as usize;
            let ops = Self::gen_history(&mut r, nkeys, nvals, len, maxdepth);
            let split = r.below(len as u64 + 1) as usize;
            v.push(format!("gm {nkeys} {split} {len} {}", enc_gops(&ops)));
        }
        // --- KMP exhaustive
        let (pmax, depth) = if ctx.thorough { (5usize, 12usize) } else { (4, 8) };
        for pl in 1..=pmax {
            for p in all_seqs(3, pl) {
                v.push(format!("kx {depth} 3 {pl} {}", join(&p)));
            }
        }
        // binary alphabet, longer patterns
        let (pmax2, depth2) = if ctx.thorough { (8usize, 16usize) } else { (6, 10) };
        for pl in (pmax + 1)..=pmax2 {
            for p in all_seqs(2, pl) {
                v.push(format!("kx {depth2} 2 {pl} {}", join(&p)));
            }
        }
        // --- KMP random
        let n_km = if ctx.thorough { 30_000 } else { 3_000 };
        let mut r = rng.fork();
        for _ in 0..n_km {
            let alpha = 1 + r.below(3);
            let pl = 1 + r.below(8) as usize;
            let pat: Vec<u64> = if r.chance(1, 2) {
                // periodic pattern: many borders
                let per = 1 + r.below(3) as usize;
                let unit: Vec<u64> = (0..per).map(|_| r.below(alpha)).collect();
                (0..pl).map(|i| unit[i % per]).collect()
            } else {
                (0..pl).map(|_| r.below(alpha)).collect()
            };
            let tl = r.below(49) as usize;
            let mut text: Vec<u64> = vec![];
            while text.len() < tl {
                if r.chance(1, 3) {
                    // plant (a prefix of) the pattern
                    let k = 1 + r.below(pl as u64) as usize;
                    text.extend(&pat[..k]);
                } else {
                    text.push(r.below(alpha));
                }
            }
            text.truncate(tl);
            v.push(format!("km {pl} {} {}", join(&pat), join(&text)).trim_end().to_string());
        }
        // --- interner
        let base = ["", "a", "ab", "b"];
        let lmax = if ctx.thorough { 6 } else { 4 };
        for l in 1..=lmax {
            for s in all_seqs(4, l) {
                let strs: Vec<String> = s.iter().map(|i| base[*i].to_string()).collect();
                v.push(format!("in {}", enc_strs(&strs)));
            }
        }
        let n_in = if ctx.thorough { 6_000 } else { 600 };
        let mut r = rng.fork();
        let words = ["", "a", "b", "ab", "ba", "abc", "relax", "def", "é", "ée", "par", "\\", " ", "aa", "aaa", "ß", "漢"];
        for _ in 0..n_in {
            let n = 1 + r.below(30) as usize;
            let pool = 1 + r.below(words.len() as u64) as usize;
            let strs: Vec<String> = (0..n)
                .map(|_| {
                    if r.chance(1, 6) {
                        let l = r.below(5) as usize;
                        (0..l).map(|_| (b'a' + r.below(3) as u8) as char).collect()
                    } else {
                        words[r.below(pool as u64) as usize].to_string()
                    }
                })
                .collect();
            v.push(format!("in {}", enc_strs(&strs)));
        }
        // --- tags
        let reps = if ctx.thorough { 12 } else { 2 };
        let n = if ctx.thorough { 200 } else { 60 };
        for _ in 0..reps {
            for t in [1usize, 2, 4, 8, 16, 32, 64] {
                v.push(format!("tg {t} {n}"));
                v.push(format!("tg {t} 1"));
                v.push(format!("tg {t} {}", (320 / t).max(1)));
                v.push(format!("st {t} {}", if t == 1 { 1 } else { 300 }));
            }
        }
        v
    }

    fn run_case(&mut self, case: &str, drv: &mut Driver) -> CaseOutcome {
        let mut out = CaseOutcome::default();
        let cmd = case.split(' ').next().unwrap_or("");
        match cmd {
            "gm" => self.gm_case(case, drv, &mut out, true),
            "gx" | "gy" => self.gx_case(case, drv, &mut out),
            "km" => self.km_case(case, drv, &mut out, true),
            "kx" => self.kx_case(case, drv, &mut out),
            "in" => self.in_case(case, drv, &mut out),
            "tg" => self.tg_case(case, drv, &mut out),
            "st" => self.st_case(case, drv, &mut out),
            _ => panic!("bad case {case}"),
        }
        out
    }

    fn extra_evidence(&self) -> Option<String> {
        Some(format!(
            "\"histories_inside_exhaustive_cases\": {}, \"pattern_text_pairs_inside_exhaustive_cases\": {}, \"matcher_runs_that_did_not_terminate\": {}",
            self.histories, self.texts, self.kmp_hangs
        ))
    }

    fn shrink(&self, case: &str) -> Vec<String> {
        let (cmd, rest) = case.split_once(' ').unwrap_or((case, ""));
        let mut c = vec![];
        match cmd {
            "gx" | "gy" | "kx" => {
                if let Some(l) = self.found.get(case) {
                    c.push(l.clone());
                }
            }
            "gm" => {
                let v = parse_i64s(rest);
                let (nkeys, split, n) = (v[0] as usize, v[1] as usize, v[2] as usize);
                let ops = dec_gops(n, &v[3..]);
                let mk = |split: usize, ops: &[GOp]| format!("gm {nkeys} {} {} {}", split.min(ops.len()), ops.len(), enc_gops(ops)).trim_end().to_string();
                if ops.len() > 1 {
                    let h = ops.len() / 2;
                    c.push(mk(split.min(h), &ops[..h]));
                    c.push(mk(split.saturating_sub(h), &ops[h..]));
                    for i in 0..ops.len() {
                        let mut o = ops.clone();
                        o.remove(i);
                        c.push(mk(if i < split { split - 1 } else { split }, &o));
                    }
                }
                if nkeys > 1 && ops.iter().all(|o| !matches!(o, GOp::Ins(k, _, _) | GOp::Ext(k, _) if *k == nkeys - 1)) {
                    c.push(format!("gm {} {split} {n} {}", nkeys - 1, enc_gops(&ops)).trim_end().to_string());
                }
            }
            "km" => {
                let v = parse_i64s(rest);
                let pl = v[0] as usize;
                let (pat, text) = (&v[1..1 + pl], &v[1 + pl..]);
                let mk = |p: &[i64], t: &[i64]| format!("km {} {} {}", p.len(), join(p), join(t)).trim_end().to_string();
                if text.len() > 1 {
                    c.push(mk(pat, &text[..text.len() / 2]));
                    c.push(mk(pat, &text[text.len() / 2..]));
                }
                for i in 0..text.len() {
                    let mut t = text.to_vec();
                    t.remove(i);
                    c.push(mk(pat, &t));
                }
                if pat.len() > 1 {
                    for i in 0..pat.len() {
                        let mut p = pat.to_vec();
                        p.remove(i);
                        c.push(mk(&p, text));
                    }
                }
            }
            "in" => {
                let strs = dec_strs(&parse_i64s(rest));
                if strs.len() > 1 {
                    c.push(format!("in {}", enc_strs(&strs[..strs.len() / 2])));
                    c.push(format!("in {}", enc_strs(&strs[strs.len() / 2..])));
                    for i in 0..strs.len() {
                        let mut s = strs.clone();
                        s.remove(i);
                        c.push(format!("in {}", enc_strs(&s)));
                    }
                }
            }
            "tg" => {
                let v = parse_i64s(rest);
                if v[0] > 2 {
                    c.push(format!("tg {} {}", v[0] / 2, v[1]));
                }
            }
            _ => {}
        }
        c
    }
}

fn main() {
    run(C20 { found: HashMap::new(), kmp_hangs: 0, histories: 0, texts: 0 });
}
