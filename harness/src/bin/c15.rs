//! C15 — packing a horizontal list produces TeX's box dimensions and glue setting.
//!
//! Case strings (all integers, the same encoding as `lean/Driver/C15.lean`):
//!   `hp <mode> <amount> <n> <item>…`   mode 0 = `PackWidth::Exact`, 1 = `Additional`.
//!       items: `0|1 fw w fh h fd d` Char|Ligature whose font answers width/height/depth
//!       (flag 0 = `None`), `2|3 h w d s` HBox|VBox, `4 h w d` Rule, `5 w st so sh sho` Glue,
//!       `6 w` Kern, `7 p` Penalty, `8` Discretionary, `9` Whatsit,
//!       `10|11 code font` Char|Ligature with character code `'a' + code` in font `font` of the
//!       harness's own four-font table `table_metric` (same code, different metrics per font;
//!       some characters missing in some fonts, some without height and/or depth). The
//!       harness measures these per (font, code) itself and hands the dimensions to Lean in
//!       the `0|1` form; the real `pack` must ask the font repository for every node.
//!   `tx <width> <text>`                 text through the real `TextPreprocessorImpl` with two
//!       real fonts (0 = cmr10, 1 = cmss8; a word prefix `@0`/`@1` switches font, a following
//!       `+` joins the word to the previous one without a space), giving chars, ligatures,
//!       kerns, glue; packed with the real `TfmFontRepo`; the fonts' answers are read per
//!       (char, font) through the `FontRepo` trait and handed to the model.
//!   `un <k>`                            Mark/Insertion/Adjust/Math: `todo!()` (outside the
//!       quantifier; observed and tagged, never a failure).
//!
//! The real `HBox::pack` runs in-process; the Lean driver returns the model's box (M), the
//! unpatched model's box, TeX's box (S), and the verdict of S on the *real* output.

use boxworks::ds;
use boxworks::FontRepo;
use common::{GlueOrder, Scaled};
use std::collections::HashMap;
use std::rc::Rc;
use vh::*;

// ---------------------------------------------------------------------------------------
// A font repository that answers what the case says.
// ---------------------------------------------------------------------------------------

#[derive(Default)]
struct CaseFont {
    m: HashMap<(char, u32), [Option<Scaled>; 3]>,
}
impl FontRepo for CaseFont {
    fn width(&self, c: char, font: u32) -> Option<Scaled> {
        self.m.get(&(c, font)).and_then(|x| x[0])
    }
    fn height(&self, c: char, font: u32) -> Option<Scaled> {
        self.m.get(&(c, font)).and_then(|x| x[1])
    }
    fn depth(&self, c: char, font: u32) -> Option<Scaled> {
        self.m.get(&(c, font)).and_then(|x| x[2])
    }
}

#[derive(Debug)]
struct AWhatsit;
impl ds::Whatsit for AWhatsit {}

fn order_of(i: i64) -> GlueOrder {
    match i {
        0 => GlueOrder::Normal,
        1 => GlueOrder::Fil,
        2 => GlueOrder::Fill,
        _ => GlueOrder::Filll,
    }
}
fn order_code(o: GlueOrder) -> i64 {
    match o {
        GlueOrder::Normal => 0,
        GlueOrder::Fil => 1,
        GlueOrder::Fill => 2,
        GlueOrder::Filll => 3,
    }
}

fn arity(tag: i64) -> usize {
    match tag {
        0 | 1 => 7,
        2 | 3 => 5,
        4 => 4,
        5 => 6,
        6 | 7 => 2,
        8 | 9 => 1,
        10 | 11 => 3,
        t => panic!("bad item tag {t}"),
    }
}

fn split_items(mut v: &[i64], n: usize) -> Vec<Vec<i64>> {
    let mut out = vec![];
    for _ in 0..n {
        let a = arity(v[0]);
        out.push(v[..a].to_vec());
        v = &v[a..];
    }
    assert!(v.is_empty(), "trailing integers in case");
    out
}

fn item_name(tag: i64) -> &'static str {
    [
        "char", "ligature", "hbox", "vbox", "rule", "glue", "kern", "penalty", "discretionary", "whatsit",
        "char(font table)", "ligature(font table)",
    ][tag as usize]
}

fn sc(i: i64) -> Scaled {
    Scaled(i32::try_from(i).expect("case value outside i32"))
}

const TABLE_FONTS: i64 = 4;
const TABLE_CODES: i64 = 6;

/// The harness's own fonts: `[width, height, depth]` of character `'a' + code` in font `font`
/// (sp), `None` = the font does not answer. For one code the fonts differ in all three
/// dimensions; in every font some characters are missing (no width), some have a width but
/// no height, no depth, or neither.
fn table_metric(font: i64, code: i64) -> [Option<i64>; 3] {
    assert!((0..TABLE_FONTS).contains(&font) && (0..TABLE_CODES).contains(&code), "font/code outside the table");
    let w = (3 + 2 * code + 5 * font) * 65536 + 4321 * font + 17 * code;
    let h = ((font + 1) * (code + 2)) * 65536 - 1000 * font;
    let d = ((3 - font) * 65536 + (code * 65536) / 2 + 99 * font) * ((code + font) % 2 + 1);
    if (font + code) % 5 == 4 {
        return [None, Some(h), Some(d)]; // missing character: height/depth answers are irrelevant
    }
    match (2 * font + code) % 7 {
        3 => [Some(w), None, Some(d)],
        5 => [Some(w), Some(h), None],
        6 => [Some(w), None, None],
        _ => [Some(w), Some(h), Some(d)],
    }
}

fn table_char(code: i64) -> char {
    (b'a' + code as u8) as char
}

/// Items as Lean gets them: glyphs of the font table measured here, per (font, code).
fn measured(items: &[Vec<i64>]) -> Vec<Vec<i64>> {
    items
        .iter()
        .map(|it| match it[0] {
            10 | 11 => {
                let m = table_metric(it[2], it[1]);
                let f = |x: Option<i64>| [x.is_some() as i64, x.unwrap_or(0)];
                let (w, h, d) = (f(m[0]), f(m[1]), f(m[2]));
                vec![it[0] - 10, w[0], w[1], h[0], h[1], d[0], d[1]]
            }
            _ => it.clone(),
        })
        .collect()
}

/// The real list for a case, and the font that answers as the case says.
fn build(items: &[Vec<i64>]) -> (Vec<ds::Horizontal>, CaseFont) {
    let mut font = CaseFont::default();
    for f in 0..TABLE_FONTS {
        for c in 0..TABLE_CODES {
            let m = table_metric(f, c);
            font.m.insert((table_char(c), f as u32), [m[0].map(sc), m[1].map(sc), m[2].map(sc)]);
        }
    }
    // a character that *has* metrics (and whose code also occurs in the list proper), used
    // inside discretionaries and nested boxes: it must not contribute
    let inner = ds::Char { char: 'a', font: 2 };
    let mut l: Vec<ds::Horizontal> = vec![];
    for (idx, it) in items.iter().enumerate() {
        match it[0] {
            0 | 1 => {
                let char = char::from_u32(0x100 + idx as u32).unwrap();
                let fnt = (idx % 3) as u32;
                let o = |f: i64, v: i64| if f != 0 { Some(sc(v)) } else { None };
                font.m.insert((char, fnt), [o(it[1], it[2]), o(it[3], it[4]), o(it[5], it[6])]);
                if it[0] == 0 {
                    l.push(ds::Char { char, font: fnt }.into());
                } else {
                    l.push(
                        ds::Ligature {
                            char,
                            font: fnt,
                            original_chars: "fi".into(),
                            includes_left_boundary: idx % 2 == 0,
                            includes_right_boundary: false,
                        }
                        .into(),
                    );
                }
            }
            10 | 11 => {
                let (char, fnt) = (table_char(it[1]), it[2] as u32);
                if it[0] == 10 {
                    l.push(ds::Char { char, font: fnt }.into());
                } else {
                    l.push(
                        ds::Ligature {
                            char,
                            font: fnt,
                            original_chars: "ff".into(),
                            includes_left_boundary: false,
                            includes_right_boundary: idx % 2 == 1,
                        }
                        .into(),
                    );
                }
            }
            2 => l.push(
                ds::HBox {
                    height: sc(it[1]),
                    width: sc(it[2]),
                    depth: sc(it[3]),
                    shift_amount: sc(it[4]),
                    list: vec![inner.clone().into()],
                    glue_ratio: ds::GlueRatio { num: Scaled(3), den: Scaled(2) },
                    glue_order: GlueOrder::Fil,
                }
                .into(),
            ),
            3 => l.push(
                ds::VBox {
                    height: sc(it[1]),
                    width: sc(it[2]),
                    depth: sc(it[3]),
                    shift_amount: sc(it[4]),
                    list: vec![ds::Vertical::Kern(ds::Kern { width: Scaled(5 << 16), kind: ds::KernKind::Explicit })],
                    glue_ratio: Default::default(),
                    glue_order: GlueOrder::Normal,
                }
                .into(),
            ),
            4 => l.push(ds::Rule { height: sc(it[1]), width: sc(it[2]), depth: sc(it[3]) }.into()),
            5 => l.push(
                ds::Glue {
                    value: common::Glue {
                        width: sc(it[1]),
                        stretch: sc(it[2]),
                        stretch_order: order_of(it[3]),
                        shrink: sc(it[4]),
                        shrink_order: order_of(it[5]),
                    },
                    // pack ignores the kind of a glue node (leaders are a TODO there): every kind
                    kind: match (idx as i64 + it[1]).rem_euclid(6) {
                        0 => ds::GlueKind::Normal,
                        1 => ds::GlueKind::ConditionalMath,
                        2 => ds::GlueKind::Math,
                        3 => ds::GlueKind::AlignedLeader,
                        4 => ds::GlueKind::CenteredLeader,
                        _ => ds::GlueKind::ExpandedLeader,
                    },
                }
                .into(),
            ),
            6 => l.push(
                ds::Kern {
                    width: sc(it[1]),
                    // every kind of kern adds its width
                    kind: match (idx as i64 + it[1]).rem_euclid(4) {
                        0 => ds::KernKind::Normal,
                        1 => ds::KernKind::Explicit,
                        2 => ds::KernKind::Accent,
                        _ => ds::KernKind::Math,
                    },
                }
                .into(),
            ),
            7 => l.push(ds::Penalty(it[1] as i32).into()),
            8 => l.push(
                ds::Discretionary {
                    pre_break: vec![ds::DiscretionaryElem::Char(inner.clone())],
                    post_break: vec![ds::DiscretionaryElem::Kern(ds::Kern {
                        width: Scaled(4 << 16),
                        kind: ds::KernKind::Normal,
                    })],
                    replace_count: 0,
                }
                .into(),
            ),
            9 => l.push(ds::Horizontal::Whatsit(Rc::new(AWhatsit))),
            _ => unreachable!(),
        }
    }
    (l, font)
}

/// The font's answers for a real list, through the `FontRepo` trait (the model takes the
/// repository's answers as input), in the case encoding.
fn encode_real_list<F: FontRepo>(font: &F, l: &[ds::Horizontal]) -> Option<Vec<Vec<i64>>> {
    let mut out = vec![];
    let o = |x: Option<Scaled>| -> [i64; 2] {
        match x {
            Some(s) => [1, s.0 as i64],
            None => [0, 0],
        }
    };
    for e in l {
        use ds::Horizontal as H;
        match e {
            H::Char(ds::Char { char, font: f }) | H::Ligature(ds::Ligature { char, font: f, .. }) => {
                let tag = if matches!(e, H::Char(_)) { 0 } else { 1 };
                let (w, h, d) = (o(font.width(*char, *f)), o(font.height(*char, *f)), o(font.depth(*char, *f)));
                out.push(vec![tag, w[0], w[1], h[0], h[1], d[0], d[1]]);
            }
            H::Glue(g) => out.push(vec![
                5,
                g.value.width.0 as i64,
                g.value.stretch.0 as i64,
                order_code(g.value.stretch_order),
                g.value.shrink.0 as i64,
                order_code(g.value.shrink_order),
            ]),
            H::Kern(k) => out.push(vec![6, k.width.0 as i64]),
            H::Penalty(p) => out.push(vec![7, p.0 as i64]),
            H::Discretionary(_) => out.push(vec![8]),
            _ => return None,
        }
    }
    Some(out)
}

fn enc_case(mode: i64, amount: i64, items: &[Vec<i64>]) -> String {
    let mut v = vec![mode, amount, items.len() as i64];
    for it in items {
        v.extend_from_slice(it);
    }
    format!("hp {}", join(&v))
}

// ---------------------------------------------------------------------------------------
// Generators
// ---------------------------------------------------------------------------------------

fn glue(w: i64, st: i64, so: i64, sh: i64, sho: i64) -> Vec<i64> {
    vec![5, w, st, so, sh, sho]
}

/// Natural width and per-order totals as the *generator* needs them to aim the target width
/// at the boundaries (plain sums; the checked quantities come from Lean).
fn gen_sums(items: &[Vec<i64>]) -> (i64, [i64; 4], [i64; 4]) {
    let (mut nat, mut st, mut sh) = (0i64, [0i64; 4], [0i64; 4]);
    for it in &measured(items) {
        match it[0] {
            0 | 1 => {
                if it[1] != 0 {
                    nat += it[2]
                }
            }
            2 | 3 | 4 => nat += it[2],
            5 => {
                nat += it[1];
                st[it[3] as usize] += it[2];
                sh[it[5] as usize] += it[4];
            }
            6 => nat += it[1],
            _ => {}
        }
    }
    (nat, st, sh)
}

fn clamp32(x: i64) -> i64 {
    x.clamp(i32::MIN as i64, i32::MAX as i64)
}

/// Target widths at natural ± {0, 1sp, total, total ± 1sp} for every order's totals.
fn targets(items: &[Vec<i64>]) -> Vec<(i64, i64)> {
    let (nat, st, sh) = gen_sums(items);
    let mut deltas: Vec<i64> = vec![0, 1, -1, 65536, -65536];
    for o in 0..4 {
        for t in [st[o], sh[o]] {
            for s in [1i64, -1] {
                for e in [-1i64, 0, 1] {
                    deltas.push(s * t + e);
                }
            }
        }
    }
    deltas.sort();
    deltas.dedup();
    let mut out = vec![];
    for d in deltas {
        out.push((1, clamp32(d)));
        out.push((0, clamp32(nat + d)));
    }
    out
}

fn amount(rng: &mut Rng) -> i64 {
    match rng.below(12) {
        0 | 1 => 0,
        2 | 3 => rng.range(-3, 3),
        4..=6 => rng.range(-20, 20) * 65536,
        7 | 8 => rng.range(-2_000_000, 2_000_000),
        9 => *rng.pick(&[1i64 << 24, -(1 << 24), (1 << 26) - 1, -(1 << 26)]),
        10 => rng.range(-(1 << 28), 1 << 28),
        _ => {
            if rng.chance(1, 6) {
                interesting_i32(rng) as i64
            } else {
                rng.range(-70000, 70000)
            }
        }
    }
}

/// A glyph of the font table; with a previous glyph, mostly the same code in another font.
fn table_glyph(rng: &mut Rng, last_glyph: &Option<Vec<i64>>) -> Vec<i64> {
    let tag = 10 + rng.below(2) as i64;
    match last_glyph {
        Some(g) if rng.chance(2, 3) => {
            let font = if rng.chance(5, 6) { (g[2] + 1 + rng.below(TABLE_FONTS as u64 - 1) as i64) % TABLE_FONTS } else { g[2] };
            vec![tag, g[1], font]
        }
        _ => vec![tag, rng.below(TABLE_CODES as u64) as i64, rng.below(TABLE_FONTS as u64) as i64],
    }
}

fn random_item(rng: &mut Rng, last_glue: &Option<Vec<i64>>, last_glyph: &Option<Vec<i64>>) -> Vec<i64> {
    if rng.chance(1, 5) {
        return table_glyph(rng, last_glyph);
    }
    match rng.below(20) {
        0 | 1 => {
            let fw = rng.chance(9, 10) as i64;
            vec![rng.below(2) as i64, fw, amount(rng), rng.chance(4, 5) as i64, amount(rng), rng.chance(4, 5) as i64, amount(rng)]
        }
        2 | 3 => {
            let shift = if rng.chance(1, 3) { 0 } else { amount(rng) };
            vec![2 + rng.below(2) as i64, amount(rng), amount(rng), amount(rng), shift]
        }
        4 => {
            let run = -(1i64 << 31);
            let h = if rng.chance(1, 4) { run } else { amount(rng) };
            let d = if rng.chance(1, 4) { run } else { amount(rng) };
            vec![4, h, amount(rng), d]
        }
        5 => vec![6, amount(rng)],
        6 => vec![7, rng.range(-10001, 10001)],
        7 => vec![8 + rng.below(2) as i64],
        8 | 9 => {
            // cancel (or nearly cancel) the previous glue
            match last_glue {
                Some(g) => {
                    let e = rng.range(-1, 1) * rng.below(2) as i64;
                    glue(amount(rng), clamp32(-g[2] + e), g[3], clamp32(-g[4] + e), g[5])
                }
                None => glue(amount(rng), amount(rng), rng.below(4) as i64, amount(rng), rng.below(4) as i64),
            }
        }
        10 | 11 => {
            // a higher order with zero amount (C15-a's shape)
            glue(amount(rng), 0, rng.below(4) as i64, 0, rng.below(4) as i64)
        }
        _ => {
            let so = if rng.chance(1, 2) { 0 } else { rng.below(4) as i64 };
            let sho = if rng.chance(1, 2) { 0 } else { rng.below(4) as i64 };
            glue(amount(rng), amount(rng), so, amount(rng), sho)
        }
    }
}

fn random_case(rng: &mut Rng, max_len: u64) -> String {
    let n = rng.below(max_len + 1);
    let mut items = vec![];
    let mut last_glue = None;
    let mut last_glyph = None;
    // every fourth list is text-like: glyphs of the font table with glue, kerns, penalties,
    // discretionaries in between
    let texty = rng.chance(1, 4);
    for _ in 0..n {
        let it = if texty {
            match rng.below(10) {
                0..=5 => table_glyph(rng, &last_glyph),
                6 => vec![6, amount(rng)],
                7 => {
                    if rng.chance(1, 2) {
                        vec![7, rng.range(-10001, 10001)]
                    } else {
                        vec![8]
                    }
                }
                _ => glue(amount(rng), amount(rng), 0, amount(rng), 0),
            }
        } else {
            random_item(rng, &last_glue, &last_glyph)
        };
        if it[0] == 5 {
            last_glue = Some(it.clone());
        }
        if it[0] >= 10 {
            last_glyph = Some(it.clone());
        }
        items.push(it);
    }
    let (mode, amt) = if rng.chance(4, 5) {
        let t = targets(&items);
        *rng.pick(&t)
    } else {
        (rng.below(2) as i64, amount(rng))
    };
    enc_case(mode, amt, &items)
}

const WORDS: &[&str] = &[
    "office", "fluffy", "AV", "Tofu", "find", "the", "a", "waffle", "--", "difficult", "VAT", "fjord", "x", "''", "ff", "fi",
    "affine", "Wow", "To", "y,", "end.", "I", "shuffle", "12", "(a)",
];

/// The harness's own reading of the TFM files (per (font, char), straight from `tfm::File`),
/// independent of `boxworks_text::TfmFontRepo`, which is what the real `pack` is given.
struct TfmDirect(Vec<tfm::File>);
impl FontRepo for TfmDirect {
    fn width(&self, c: char, font: u32) -> Option<Scaled> {
        self.0[font as usize].width_utf8(c)
    }
    fn height(&self, c: char, font: u32) -> Option<Scaled> {
        self.0[font as usize].height_utf8(c)
    }
    fn depth(&self, c: char, font: u32) -> Option<Scaled> {
        self.0[font as usize].depth_utf8(c)
    }
}

/// A `tfm::File` as the `tf` request wants it: `nchars (c wi hi di)* nw w* nh h* nd d*`, the
/// tables converted with the crate's own `FixWord::to_scaled(design_size)` (C17's subject).
fn enc_font(id: i64, f: &tfm::File) -> Vec<i64> {
    let mut v = vec![id, f.char_dimens.len() as i64];
    for (c, d) in &f.char_dimens {
        v.extend([c.0 as i64, d.width_index.get() as i64, d.height_index as i64, d.depth_index as i64]);
    }
    for t in [&f.widths, &f.heights, &f.depths] {
        v.push(t.len() as i64);
        v.extend(t.iter().map(|x| x.to_scaled(f.header.design_size).0 as i64));
    }
    v
}

/// Nodes of a real list for a `tf` request: glyphs as `20|21 char font`.
fn enc_nodes(l: &[ds::Horizontal]) -> Option<Vec<i64>> {
    let mut out = vec![];
    for e in l {
        use ds::Horizontal as H;
        match e {
            H::Char(c) => out.extend([20, c.char as i64, c.font as i64]),
            H::Ligature(c) => out.extend([21, c.char as i64, c.font as i64]),
            H::Glue(g) => out.extend([
                5,
                g.value.width.0 as i64,
                g.value.stretch.0 as i64,
                order_code(g.value.stretch_order),
                g.value.shrink.0 as i64,
                order_code(g.value.shrink_order),
            ]),
            H::Kern(k) => out.extend([6, k.width.0 as i64]),
            H::Penalty(p) => out.extend([7, p.0 as i64]),
            H::Discretionary(_) => out.push(8),
            H::HBox(b) => out.extend([2, b.height.0 as i64, b.width.0 as i64, b.depth.0 as i64, b.shift_amount.0 as i64]),
            H::Rule(r) => out.extend([4, r.height.0 as i64, r.width.0 as i64, r.depth.0 as i64]),
            _ => return None,
        }
    }
    Some(out)
}

/// A synthetic font of a `tf` case: `nchars (c wi hi di)* nw w* nh h* nd d*` with raw fix
/// words (design size 10pt).
struct RawFont {
    chars: Vec<[i64; 4]>,
    tables: [Vec<i64>; 3],
}

fn parse_raw_fonts(v: &mut &[i64], n: usize) -> Vec<RawFont> {
    let mut next = |v: &mut &[i64]| {
        let (h, t) = v.split_first().expect("truncated tf case");
        *v = t;
        *h
    };
    (0..n)
        .map(|_| {
            let nc = next(v) as usize;
            let chars = (0..nc).map(|_| [next(v), next(v), next(v), next(v)]).collect();
            let mut tables: [Vec<i64>; 3] = Default::default();
            for t in tables.iter_mut() {
                let k = next(v) as usize;
                *t = (0..k).map(|_| next(v)).collect();
            }
            RawFont { chars, tables }
        })
        .collect()
}

fn enc_raw_fonts(fs: &[RawFont]) -> Vec<i64> {
    let mut v = vec![fs.len() as i64];
    for f in fs {
        v.push(f.chars.len() as i64);
        for c in &f.chars {
            v.extend(c);
        }
        for t in &f.tables {
            v.push(t.len() as i64);
            v.extend(t);
        }
    }
    v
}

fn build_tfm(f: &RawFont) -> tfm::File {
    let mut file = tfm::File::default();
    file.header.design_size = tfm::FixWord::ONE * 10;
    for c in &f.chars {
        file.char_dimens.insert(
            tfm::Char(c[0] as u8),
            tfm::CharDimensions {
                width_index: match std::num::NonZeroU8::new(c[1] as u8) {
                    Some(n) => tfm::WidthIndex::Valid(n),
                    None => tfm::WidthIndex::Invalid,
                },
                height_index: c[2] as u8,
                depth_index: c[3] as u8,
                italic_index: 0,
            },
        );
    }
    let fw = |t: &Vec<i64>| t.iter().map(|x| tfm::FixWord(*x as i32)).collect::<Vec<_>>();
    file.widths = fw(&f.tables[0]);
    file.heights = fw(&f.tables[1]);
    file.depths = fw(&f.tables[2]);
    file
}

/// The node part of a `tf` case: `20|21 char font` or any `hp` item.
fn split_nodes(mut v: &[i64], n: usize) -> Vec<Vec<i64>> {
    let mut out = vec![];
    for _ in 0..n {
        let a = if v[0] == 20 || v[0] == 21 { 3 } else { arity(v[0]) };
        out.push(v[..a].to_vec());
        v = &v[a..];
    }
    assert!(v.is_empty(), "trailing integers in tf case");
    out
}

fn random_raw_font(rng: &mut Rng) -> RawFont {
    let mut tables: [Vec<i64>; 3] = Default::default();
    for t in tables.iter_mut() {
        let k = rng.range(1, 5);
        *t = (0..k).map(|i| if i == 0 { 0 } else { rng.range(-(1 << 20), 3 << 20) }).collect();
    }
    let mut chars = vec![];
    for c in [0i64, 97, 98, 99, 100, 255] {
        if rng.chance(2, 3) {
            // indices: 0 (invalid width / zero entry), inside the table, one past its end
            let idx = |rng: &mut Rng, t: &Vec<i64>| rng.range(0, t.len() as i64);
            let wi = if rng.chance(1, 6) { 0 } else { idx(rng, &tables[0]) };
            chars.push([c, wi, idx(rng, &tables[1]), idx(rng, &tables[2])]);
        }
    }
    RawFont { chars, tables }
}

fn random_tf_case(rng: &mut Rng) -> String {
    let nf = rng.range(1, 3);
    let fonts: Vec<RawFont> = (0..nf).map(|_| random_raw_font(rng)).collect();
    let n = rng.range(0, 8);
    let mut nodes: Vec<Vec<i64>> = vec![];
    let mut last: Option<i64> = None;
    for _ in 0..n {
        let it = match rng.below(10) {
            0..=6 => {
                let c = match last {
                    Some(c) if rng.chance(1, 2) => c,
                    _ => *rng.pick(&[0i64, 97, 98, 99, 100, 255, 256, 300, 8364]),
                };
                last = Some(c);
                let font = if rng.chance(1, 40) { nf } else { rng.range(0, nf - 1) };
                vec![20 + rng.below(2) as i64, c, font]
            }
            7 => vec![6, amount(rng)],
            8 => vec![2, amount(rng), amount(rng), amount(rng), amount(rng)],
            _ => glue(amount(rng), amount(rng), rng.below(4) as i64, amount(rng), rng.below(4) as i64),
        };
        nodes.push(it);
    }
    let mut v = enc_raw_fonts(&fonts);
    v.extend([rng.below(2) as i64, amount(rng), nodes.len() as i64]);
    for n in &nodes {
        v.extend(n);
    }
    format!("tf {}", join(&v))
}

struct C15 {
    tfm: Option<(boxworks_text::TextPreprocessorImpl, boxworks_text::TfmFontRepo)>,
    direct: Option<TfmDirect>,
    tx_nodes: Option<(usize, Vec<i64>)>,
    repo: String,
}

impl C15 {
    fn real_font(&mut self, repo: &str) -> &mut (boxworks_text::TextPreprocessorImpl, boxworks_text::TfmFontRepo) {
        if self.tfm.is_none() {
            let mut tp = boxworks_text::TextPreprocessorImpl::new(boxworks_text::Params::plain_tex_defaults());
            let mut fr = boxworks_text::TfmFontRepo::default();
            let mut direct = vec![];
            for (id, name) in ["cmr10", "cmss8"].iter().enumerate() {
                let bytes = std::fs::read(format!("{repo}/crates/tfm/corpus/computer-modern/{name}.tfm")).expect("tfm file");
                let mut f = tfm::File::deserialize(&bytes).0.expect("tfm parses");
                let prog = tfm::ligkern::CompiledProgram::compile_from_tfm_file(&mut f).0;
                tp.register_font(id as u32, &f, prog);
                fr.register_font(id as u32, f);
                direct.push(tfm::File::deserialize(&bytes).0.expect("tfm parses"));
            }
            self.direct = Some(TfmDirect(direct));
            tp.activate_font(0);
            self.tfm = Some((tp, fr));
        }
        self.tfm.as_mut().unwrap()
    }
}

struct Real {
    v: [i64; 6],
    list_kept: bool,
    shift: i64,
}

fn run_real<F: FontRepo>(font: &F, list: Vec<ds::Horizontal>, mode: i64, amt: i64) -> Result<Real, String> {
    let before = format!("{list:?}");
    let pw = if mode == 0 { ds::PackWidth::Exact(sc(amt)) } else { ds::PackWidth::Additional(sc(amt)) };
    caught(|| ds::HBox::pack(font, list, pw)).map(|b| Real {
        v: [
            b.height.0 as i64,
            b.width.0 as i64,
            b.depth.0 as i64,
            order_code(b.glue_order),
            b.glue_ratio.num.0 as i64,
            b.glue_ratio.den.0 as i64,
        ],
        list_kept: format!("{:?}", b.list) == before,
        shift: b.shift_amount.0 as i64,
    })
}

fn field<'a>(reply: &'a str, key: &str) -> &'a str {
    reply
        .split(' ')
        .find_map(|w| w.strip_prefix(key).and_then(|r| r.strip_prefix('=')))
        .unwrap_or_else(|| panic!("driver reply lacks {key}: {reply}"))
}

fn section(reply: &str, key: &str, n: usize) -> Vec<i64> {
    let ws: Vec<&str> = reply.split(' ').collect();
    let i = ws.iter().position(|w| *w == key).unwrap_or_else(|| panic!("driver reply lacks {key}: {reply}"));
    ws[i + 1..i + 1 + n].iter().map(|w| w.parse().expect("int")).collect()
}

/// The ratio as a reduced fraction with a positive denominator (0 = 0/1): the stored pair is
/// compared as the exact rational it denotes, not as a representation.
fn canon(v: &[i64]) -> Vec<i64> {
    let (mut n, mut d) = (v[4], v[5]);
    if d != 0 {
        let (mut a, mut b) = (n.abs(), d.abs());
        while b != 0 {
            (a, b) = (b, a % b);
        }
        n /= a;
        d /= a;
        if d < 0 {
            n = -n;
            d = -d;
        }
    }
    vec![v[0], v[1], v[2], v[3], n, d]
}

const ORDER_NAMES: [&str; 4] = ["normal", "fil", "fill", "filll"];

impl C15 {
    fn compare(&mut self, mode: i64, amt: i64, items: &[Vec<i64>], real: Result<Real, String>, drv: &mut Driver, stream: &str, out: CaseOutcome) -> CaseOutcome {
        self.compare_req(None, mode, amt, items, real, drv, stream, out)
    }

    /// `tf_req`: a `tf …` request (raw font tables, glyph nodes as (char, font)) to be used
    /// instead of the `hp` request built from `items` (which then serve tags and sums only).
    #[allow(clippy::too_many_arguments)]
    fn compare_req(&mut self, tf_req: Option<String>, mode: i64, amt: i64, items: &[Vec<i64>], real: Result<Real, String>, drv: &mut Driver, stream: &str, mut out: CaseOutcome) -> CaseOutcome {
        let is_tf = tf_req.is_some();
        let mut req = tf_req.unwrap_or_else(|| enc_case(mode, amt, items));
        match &real {
            Ok(r) => req.push_str(&format!(" 1 {}", join(&r.v))),
            Err(_) => req.push_str(" 0"),
        }
        let reply = drv.ask(&req);
        if reply == "bad-request" {
            panic!("driver rejected: {req}");
        }
        if reply == "unregistered-font" {
            // `TfmFontRepo` indexes its map with the font id: the model says panic
            out.tag("tf:unregistered-font");
            if real.is_ok() {
                out.fail(Kind::ImplVsModel, stream, "unregistered font: model panics, real returned", format!("request: {req}"));
            }
            return out;
        }
        if is_tf && field(&reply, "tdims") != "1" {
            out.fail(Kind::ModelVsSpec, stream, "hpack_tfm_dims: model dimensions differ from the raw tables", format!("request: {req}\nreply: {reply}"));
        }
        let fits = field(&reply, "fits") == "1";
        let fits_old = field(&reply, "fitsold") == "1";
        // a box or rule for which exchanging width and height makes a difference (C15-c)
        let swapcand = items.iter().any(|it| match it[0] {
            2 | 3 => it[1] - it[4] != it[2],
            4 => it[1] != it[2],
            _ => false,
        });
        let tex = field(&reply, "tex").to_string();
        let zhi = field(&reply, "zhi") == "1";
        let m = section(&reply, "M", 6);
        let old = section(&reply, "O", 6);
        let s = section(&reply, "S", 7);

        out.tag(format!("mode={}", if mode == 0 { "exact" } else { "additional" }));
        for it in items {
            out.tag(format!("item={}", item_name(it[0])));
            if it[0] <= 1 {
                if it[1] == 0 {
                    out.tag("char:no-width(skipped)");
                } else if it[3] == 0 || it[5] == 0 {
                    out.tag("char:no-height-or-depth(0)");
                }
            }
            if (it[0] == 2 || it[0] == 3) && it[4] != 0 {
                out.tag("box:shifted");
            }
            if it[0] == 4 && (it[1] == -(1 << 31) || it[3] == -(1 << 31)) {
                out.tag("rule:running");
            }
        }
        if items.is_empty() {
            out.tag("list=empty");
        }
        // theorem small_inRange, on every case: TeX's size discipline implies the i32 side condition
        let small = field(&reply, "small") == "1";
        if small {
            out.tag("small(TeX size discipline)");
            if !fits {
                out.fail(Kind::ModelVsSpec, stream, "small_inRange: Small but not inRange", format!("request: {req}\nreply: {reply}"));
            }
        } else if fits {
            out.tag("not-small-but-in-range");
        }
        if !fits {
            // some intermediate value leaves i32: outside the quantifier (TeX assumes it does
            // not happen); the harness build panics on overflow.
            out.tag("out-of-range(i32)");
            out.tag(if real.is_err() { "out-of-range:panic" } else { "out-of-range:returned" });
            // The side condition itself is checked: it decides what is compared. Where the
            // model predicts an overflow (patched and unpatched bookkeeping alike) the real
            // code, built with overflow checks, must not return.
            if real.is_ok() && !fits_old {
                out.fail(
                    Kind::ImplVsModel,
                    stream,
                    "range: returned although the model predicts i32 overflow",
                    format!("request: {req}\nreply: {reply}"),
                );
            }
            return out;
        }
        out.nontrivial = !items.is_empty();
        out.tag(format!("tex={tex}"));
        out.tag(format!("tex-order={}", ORDER_NAMES[s[4] as usize]));
        if zhi {
            out.tag("zero-total-above-chosen-order");
        }
        {
            let (_, st, sh) = gen_sums(items);
            let present = |stretch: bool, o: usize| items.iter().any(|it| it[0] == 5 && it[if stretch { 3 } else { 5 }] as usize == o && it[if stretch { 2 } else { 4 }] != 0);
            for o in 0..4 {
                if (st[o] == 0 && present(true, o)) || (sh[o] == 0 && present(false, o)) {
                    out.tag("totals:cancel-to-zero");
                }
                if st[o] < 0 || sh[o] < 0 {
                    out.tag("totals:negative");
                }
            }
        }
        // theorems of the deepening round, checked on every case
        if field(&reply, "le") != "1" {
            out.fail(Kind::ModelVsSpec, stream, "hpackLe_eq_tex: the <= variant differs from TeX", format!("request: {req}\nreply: {reply}"));
        }
        if fits && field(&reply, "mfill") != "1" {
            out.fail(Kind::ModelVsSpec, stream, "hpack_fills: the model's set widths do not fill the box", format!("request: {req}\nreply: {reply}"));
        }
        if field(&reply, "ms") != "1" {
            out.fail(Kind::ModelVsSpec, stream, format!("model differs from TeX tex={tex}"), format!("request: {req}\nreply: {reply}"));
        }
        let r = match real {
            Ok(r) => r,
            Err(p) => {
                let sig = if swapcand && !fits_old && p.contains("overflow") {
                    "box/rule: width and height exchanged (arithmetic overflow)".to_string()
                } else {
                    format!("panic {}", strip_msg(&p))
                };
                out.fail(Kind::ImplPanic, stream, sig, format!("{p}\nrequest: {req}"));
                return out;
            }
        };
        if !r.list_kept || r.shift != 0 {
            out.fail(Kind::ImplVsSpec, stream, "list changed or box shifted", format!("list kept: {} shift: {}", r.list_kept, r.shift));
        }
        if r.v[..] == m[..] {
            out.tag("impl=model");
        } else if r.v[..] == old[..] {
            out.tag("impl=unpatched-model");
        } else {
            out.tag("impl=neither-model");
        }
        let b = |k: &str| field(&reply, k) == "1";
        if !b("is") {
            let (dims, ord, rat) = (b("dims"), b("ord"), b("rat"));
            // The three repaired defects keep their signatures, but only where the real
            // output is exactly what the unpatched code produced (`hpackOld`); anything
            // else is described by the clauses that fail.
            let is_old = r.v[..] == old[..];
            let sig = if !is_old {
                format!("differs from TeX: dims={} order={} ratio={}", dims as u8, ord as u8, rat as u8)
            } else if swapcand {
                "box/rule: width and height exchanged".to_string()
            } else if dims && zhi && (!ord || !rat) {
                "glue order with zero total kept: order/ratio differ from TeX".to_string()
            } else if dims && ord && !rat && tex == "overfull" && r.v[4] == r.v[5] {
                "overfull box: ratio +1 instead of -1 (shrinking)".to_string()
            } else {
                format!("differs from TeX: dims={} order={} ratio={}", dims as u8, ord as u8, rat as u8)
            };
            out.fail(
                Kind::ImplVsSpec,
                stream,
                sig,
                format!(
                    "TeX's branch: {tex}\nreal  (h w d order num den):      {}\nmodel (h w d order num den):      {}\nTeX   (h w d sign order num den): {}\nrequest: {req}",
                    join(&r.v),
                    join(&m),
                    join(&s)
                ),
            );
        } else if !b("fill") {
            // the node-by-node form of "fills the box exactly" (theorem set_widths_fill),
            // evaluated by Lean on the real box
            out.fail(
                Kind::ImplVsSpec,
                stream,
                "set widths of the nodes do not add up to the box width",
                format!("TeX's branch: {tex}\nreal: {}\nrequest: {req}", join(&r.v)),
            );
        } else if canon(&r.v) != canon(&m) {
            let names = ["height", "width", "depth", "order", "num", "den"];
            let which: Vec<&str> = (0..6).filter(|i| r.v[*i] != m[*i]).map(|i| names[i]).collect();
            out.fail(
                Kind::ImplVsModel,
                stream,
                format!("fields differ from model: {} tex={tex}", which.join(",")),
                format!("real: {}\nmodel: {}\nrequest: {req}", join(&r.v), join(&m)),
            );
        }
        out
    }
}

impl Property for C15 {
    fn id(&self) -> &'static str {
        "C15"
    }
    fn rule(&self) -> String {
        "hp: boundary corpus (C15-a/b witnesses, empty list, every item kind alone); exhaustive: every list of length ≤ 3 (thorough: ≤ 4) over a 12-item alphabet \
         (glue with zero / cancelling / negative amounts at mixed orders, kern, shifted box, char, penalty) × 9 additional widths; random: lists ≤ 12 (thorough ≤ 30) items of all ten kinds, \
         amounts boundary-heavy, glue that cancels its predecessor, zero-amount infinite glue, target = natural ± {0, 1sp, 1pt, total[o], total[o] ± 1sp} for every order's stretch and shrink total, exact and additional; \
         glyphs: explicit per-node font answers (unique codes) and a four-font x six-code harness font table in which the same character code has different width/height/depth per font, \
         is missing in some fonts and lacks height and/or depth in others; lists repeat a code across fonts adjacent and separated by glue/kern/penalty/discretionary/whatsit/box, as Char and as Ligature \
         (corpus: every code x ordered font pair x 8 separators); the harness measures per (font, code) itself; \
         tx: words through the real text preprocessor with two real fonts (cmr10, cmss8; font switches inside and between words, repeated letters across the switch) packed with the real TfmFontRepo. \
         Non-trivial = non-empty list and every intermediate value inside i32 (otherwise out of the quantifier, tagged out-of-range); distinct = distinct case string."
            .into()
    }
    fn builtin_corpus(&self) -> Vec<String> {
        let pt = 65536i64;
        let mut v = vec![];
        // C15-a, stretch: plus 5pt, plus 0fil, to 10pt
        v.push(enc_case(0, 10 * pt, &[glue(0, 5 * pt, 0, 0, 0), glue(0, 0, 1, 0, 0)]));
        // C15-a, stretch totals that cancel: plus 3fil, plus -3fil, plus 5pt
        v.push(enc_case(0, 10 * pt, &[glue(0, 3 * pt, 1, 0, 0), glue(0, -3 * pt, 1, 0, 0), glue(0, 5 * pt, 0, 0, 0)]));
        // C15-a, shrink: minus 5pt, minus 0fill, to -3pt
        v.push(enc_case(0, -3 * pt, &[glue(0, 0, 0, 5 * pt, 0), glue(0, 0, 0, 0, 2)]));
        // C15-a, order only: zero shrink at fil, nothing else
        v.push(enc_case(1, -pt, &[glue(pt, 0, 0, 0, 1)]));
        // C15-b, overfull
        v.push(enc_case(1, -3 * pt, &[glue(10 * pt, 0, 0, 2 * pt, 0)]));
        // overfull boundary: shrink exactly enough, one sp short
        v.push(enc_case(1, -2 * pt, &[glue(10 * pt, 0, 0, 2 * pt, 0)]));
        v.push(enc_case(1, -2 * pt - 1, &[glue(10 * pt, 0, 0, 2 * pt, 0)]));
        // overfull with zero and negative shrinkability
        v.push(enc_case(1, -pt, &[vec![6, pt]]));
        v.push(enc_case(1, -pt, &[glue(pt, 0, 0, -pt, 0)]));
        // excess = -2^31: `-excess` overflows, but it is only evaluated at shrink order normal
        v.push(enc_case(0, -(1 << 31), &[glue(0, 0, 0, pt, 1)]));
        v.push(enc_case(0, -(1 << 31), &[glue(0, 0, 0, pt, 0)]));
        v.push(enc_case(0, (1 << 31) - 1, &[glue(0, pt, 2, 0, 0)]));
        // empty list
        for (m, a) in [(0, 0), (0, pt), (0, -pt), (1, 0), (1, 1), (1, -1)] {
            v.push(enc_case(m, a, &[]));
        }
        // every kind alone and together
        let all: Vec<Vec<i64>> = vec![
            vec![0, 1, 5 * pt, 1, 7 * pt, 1, 2 * pt],
            vec![1, 1, 6 * pt, 0, 0, 1, 3 * pt],
            vec![0, 0, 9 * pt, 1, 90 * pt, 1, 90 * pt],
            vec![2, 8 * pt, 4 * pt, pt, 3 * pt],
            vec![3, 8 * pt, 4 * pt, pt, -3 * pt],
            vec![4, -(1 << 31), pt / 2, -(1 << 31)],
            vec![4, 12 * pt, pt / 2, 4 * pt],
            glue(3 * pt, pt, 0, pt, 0),
            glue(0, pt, 1, 0, 0),
            glue(0, pt, 2, pt, 3),
            vec![6, -pt],
            vec![7, 10000],
            vec![8],
            vec![9],
        ];
        for it in &all {
            for (m, a) in [(1, 0), (1, pt), (1, -pt)] {
                v.push(enc_case(m, a, std::slice::from_ref(it)));
            }
        }
        for (m, a) in targets(&all) {
            v.push(enc_case(m, a, &all));
        }
        // the same character code in different fonts of the font table: adjacent, separated
        // by each kind of non-glyph node, Char/Ligature in both orders, a character missing
        // in the first or in the second font, width without height/depth
        {
            let sep: Vec<Vec<Vec<i64>>> = vec![
                vec![],
                vec![glue(3 * pt, pt, 0, pt, 0)],
                vec![vec![6, pt]],
                vec![vec![7, 100]],
                vec![vec![8]],
                vec![vec![9]],
                vec![vec![2, 2 * pt, 3 * pt, pt, 0]],
                vec![glue(pt, pt, 1, 0, 0), vec![6, -pt], vec![7, 0], vec![8]],
            ];
            for code in 0..TABLE_CODES {
                for f1 in 0..TABLE_FONTS {
                    for f2 in 0..TABLE_FONTS {
                        if f1 == f2 {
                            continue;
                        }
                        for (k, s) in sep.iter().enumerate() {
                            let (t1, t2) = match (code + f1 + f2 + k as i64) % 4 {
                                0 => (10, 10),
                                1 => (10, 11),
                                2 => (11, 10),
                                _ => (11, 11),
                            };
                            let mut items = vec![vec![t1, code, f1]];
                            items.extend(s.iter().cloned());
                            items.push(vec![t2, code, f2]);
                            let a = [0, pt, -pt][(code + k as i64) as usize % 3];
                            v.push(enc_case(1, a, &items));
                        }
                    }
                }
            }
            // three fonts in a row, and a repeat of the very same (code, font)
            v.push(enc_case(1, 0, &[vec![10, 0, 0], vec![10, 0, 1], vec![10, 0, 2], vec![10, 0, 3], vec![10, 0, 3]]));
            v.push(enc_case(0, 100 * pt, &[vec![10, 5, 0], glue(pt, pt, 0, pt, 0), vec![11, 5, 1], vec![10, 5, 2]]));
        }
        for k in 0..4 {
            v.push(format!("un {k}"));
        }
        v.push("tx 6553600 office fluffy AV find the difficult waffle".into());
        v.push("tx 65536 office fluffy AV find the difficult waffle".into());
        v.push("tx 6553600 a @1+a @0+a @1a f @0fi @1+ff office @1+e".into());
        v.push("tx 0 a @1+a".into());
        // tf: one font, `a` valid, `b` invalid width index, `c` height index outside the table;
        // a second font with other tables; a code above 255; an unregistered font
        {
            let f0 = RawFont { chars: vec![[97, 1, 1, 1], [98, 0, 1, 1], [99, 1, 4, 4]], tables: [vec![0, 500000], vec![0, 400000], vec![0, 100000]] };
            let f1 = RawFont { chars: vec![[97, 2, 1, 0]], tables: [vec![0, 7, 900000], vec![0, 700000], vec![0]] };
            let mut base = enc_raw_fonts(&[f0, f1]);
            let nodes: Vec<Vec<i64>> = vec![vec![20, 97, 0], vec![21, 97, 1], vec![20, 98, 0], vec![20, 99, 0], vec![20, 300, 1], vec![20, 98, 1]];
            let mut a = base.clone();
            a.extend([1, 0, nodes.len() as i64]);
            for n in &nodes {
                a.extend(n);
            }
            v.push(format!("tf {}", join(&a)));
            base.extend([1, 0, 1, 20, 97, 2]);
            v.push(format!("tf {}", join(&base)));
        }
        v
    }
    fn generate(&mut self, ctx: &Ctx, rng: &mut Rng) -> Vec<String> {
        let mut v = vec![];
        // exhaustive small scope
        let alpha: Vec<Vec<i64>> = vec![
            glue(1, 2, 0, 2, 0),
            glue(0, 0, 1, 0, 1),
            glue(0, 3, 1, 3, 1),
            glue(0, -3, 1, -3, 1),
            glue(2, 1, 2, 0, 0),
            glue(0, 0, 0, 1, 3),
            glue(-1, -2, 0, -2, 0),
            glue(0, 0, 3, 0, 2),
            vec![6, 5],
            vec![2, 3, 4, 1, 2],
            vec![0, 1, 2, 1, 7, 0, 0],
            vec![7, 0],
            vec![10, 0, 0],
            vec![10, 0, 1],
            vec![11, 0, 2],
        ];
        let max = if ctx.thorough { 4 } else { 3 };
        let adds: &[i64] = &[0, 1, -1, 2, -2, 3, -3, 5, -5];
        let mut idx = vec![0usize; 0];
        loop {
            let items: Vec<Vec<i64>> = idx.iter().map(|i| alpha[*i].clone()).collect();
            if !items.is_empty() {
                for a in adds {
                    v.push(enc_case(1, *a, &items));
                }
            }
            // next index vector (length-lexicographic)
            let mut k = idx.len();
            loop {
                if k == 0 {
                    idx = vec![0; idx.len() + 1];
                    break;
                }
                k -= 1;
                idx[k] += 1;
                if idx[k] < alpha.len() {
                    break;
                }
                idx[k] = 0;
            }
            if idx.len() > max {
                break;
            }
        }
        // random
        let (n_rand, max_len, n_tx) = if ctx.thorough { (400_000, 30, 20_000) } else { (30_000, 12, 1_500) };
        for i in 0..n_rand {
            let ml = if i % 4 == 0 { 3 } else { max_len };
            v.push(random_case(rng, ml));
        }
        let n_tf = if ctx.thorough { 60_000 } else { 4_000 };
        for _ in 0..n_tf {
            v.push(random_tf_case(rng));
        }
        for _ in 0..n_tx {
            let n = rng.range(1, 7);
            let mut words: Vec<String> = vec![];
            for _ in 0..n {
                let w = *rng.pick(WORDS);
                let prefix = match rng.below(6) {
                    0 => "@1",
                    1 => "@0",
                    2 => "@1+",
                    3 => "@0+",
                    _ => "",
                };
                // after a switch, often repeat the last character of the previous word
                let w = match (prefix.is_empty(), words.last()) {
                    (false, Some(prev)) if rng.chance(2, 3) => {
                        let c = prev.chars().last().unwrap();
                        format!("{c}{w}")
                    }
                    _ => w.to_string(),
                };
                words.push(format!("{prefix}{w}"));
            }
            let w = match rng.below(4) {
                0 => rng.range(0, 400) * 65536,
                1 => rng.range(0, 30_000_000),
                2 => rng.range(0, 10) * 65536,
                _ => rng.range(-65536, 65536),
            };
            v.push(format!("tx {w} {}", words.join(" ")));
        }
        v
    }
    fn run_case(&mut self, case: &str, drv: &mut Driver) -> CaseOutcome {
        let mut out = CaseOutcome::default();
        let (cmd, rest) = case.split_once(' ').unwrap_or((case, ""));
        match cmd {
            "hp" => {
                let v = parse_i64s(rest);
                let (mode, amt, n) = (v[0], v[1], v[2] as usize);
                let items = split_items(&v[3..], n);
                let (list, font) = build(&items);
                let real = run_real(&font, list, mode, amt);
                out.tag("stream=hp");
                // the same code in another font (with different answers) after a glyph
                let glyphs: Vec<(usize, &Vec<i64>)> = items.iter().enumerate().filter(|(_, it)| it[0] >= 10).collect();
                for w in glyphs.windows(2) {
                    let ((i, a), (j, b)) = (w[0], w[1]);
                    if a[1] == b[1] && a[2] != b[2] && table_metric(a[2], a[1]) != table_metric(b[2], b[1]) {
                        out.tag(if j == i + 1 { "glyph:same-code-other-font:adjacent" } else { "glyph:same-code-other-font:separated" });
                        let (ma, mb) = (table_metric(a[2], a[1]), table_metric(b[2], b[1]));
                        if ma[0].is_none() != mb[0].is_none() {
                            out.tag("glyph:same-code-other-font:one-missing");
                        }
                    }
                }
                self.compare(mode, amt, &measured(&items), real, drv, "hp", out)
            }
            "tx" => {
                let (w, text) = rest.split_once(' ').unwrap_or((rest, ""));
                let w: i64 = w.parse().expect("width");
                let repo = self.repo.clone();
                let (tp, fr) = self.real_font(&repo);
                let mut list = vec![];
                {
                    use boxworks::TextPreprocessor;
                    tp.new_paragraph();
                    tp.activate_font(0);
                    let mut first = true;
                    for word in text.split_ascii_whitespace() {
                        let mut word = word;
                        let mut join = false;
                        if let Some(r) = word.strip_prefix("@0") {
                            tp.activate_font(0);
                            word = r;
                        } else if let Some(r) = word.strip_prefix("@1") {
                            tp.activate_font(1);
                            word = r;
                        }
                        if let Some(r) = word.strip_prefix('+') {
                            join = true;
                            word = r;
                        }
                        if !first && !join {
                            tp.add_space(&mut list);
                        }
                        tp.add_word(word, &mut list);
                        first = false;
                    }
                }
                for w in list.windows(3) {
                    use ds::Horizontal as H;
                    let cf = |e: &H| match e {
                        H::Char(c) => Some((c.char, c.font)),
                        H::Ligature(l) => Some((l.char, l.font)),
                        _ => None,
                    };
                    if let (Some(a), Some(b)) = (cf(&w[0]), cf(&w[1])) {
                        if a.0 == b.0 && a.1 != b.1 {
                            out.tag("tx:same-code-other-font:adjacent");
                        }
                    } else if let (Some(a), None, Some(b)) = (cf(&w[0]), cf(&w[1]), cf(&w[2])) {
                        if a.0 == b.0 && a.1 != b.1 {
                            out.tag("tx:same-code-other-font:separated");
                        }
                    }
                }
                let items = encode_real_list(self.direct.as_ref().unwrap(), &list)
                    .expect("text lists contain chars, ligatures, kerns, glue");
                self.tx_nodes = Some((list.len(), enc_nodes(&list).expect("encodable nodes")));
                let fr: &boxworks_text::TfmFontRepo = &self.tfm.as_ref().unwrap().1;
                let real = run_real(fr, list, 0, w);
                out.tag("stream=tx");
                // two ways: exact width, and additional = width - something is covered by hp
                // the request carries the raw tables of both fonts and the glyphs as (char,
                // font): Lean does the lookups (model of TfmFontRepo / *_utf8)
                let d = self.direct.as_ref().unwrap();
                let mut v = vec![d.0.len() as i64];
                for (id, f) in d.0.iter().enumerate() {
                    v.extend(enc_font(id as i64, f));
                }
                let nodes = self.tx_nodes.take().expect("nodes");
                v.extend([0, w, nodes.0 as i64]);
                v.extend(nodes.1);
                let tf_req = format!("tf {}", join(&v));
                // cross-check: the same list with the glyphs measured by tfm::File::*_utf8
                let m_direct = drv.ask(&format!("{} 0", enc_case(0, w, &items)));
                let m_tf = drv.ask(&format!("{tf_req} 0"));
                if section(&m_direct, "M", 6) != section(&m_tf, "M", 6) {
                    out.fail(
                        Kind::ImplVsModel,
                        "tx",
                        "lookup: tfm::File::*_utf8 differs from the Lean TfmFont lookup",
                        format!("direct: {m_direct}\nlean lookup: {m_tf}"),
                    );
                }
                self.compare_req(Some(tf_req), 0, w, &items, real, drv, "tx", out)
            }
            "tf" => {
                // synthetic TFM fonts registered in the real TfmFontRepo
                let v = parse_i64s(rest);
                let mut cur: &[i64] = &v;
                let nf = cur[0] as usize;
                cur = &cur[1..];
                let fonts = parse_raw_fonts(&mut cur, nf);
                let (mode, amt, n) = (cur[0], cur[1], cur[2] as usize);
                let nodes = split_nodes(&cur[3..], n);
                let files: Vec<tfm::File> = fonts.iter().map(build_tfm).collect();
                let mut repo = boxworks_text::TfmFontRepo::default();
                for (id, f) in files.iter().enumerate() {
                    repo.register_font(id as u32, f.clone());
                }
                let direct = TfmDirect(files);
                // the real list
                let mut list: Vec<ds::Horizontal> = vec![];
                let mut plain: Vec<Vec<i64>> = vec![]; // glyphs measured by *_utf8, for tags and sums
                for (idx, nd) in nodes.iter().enumerate() {
                    if nd[0] == 20 || nd[0] == 21 {
                        let char = char::from_u32(nd[1] as u32).expect("scalar value");
                        let font = nd[2] as u32;
                        if nd[0] == 20 {
                            list.push(ds::Char { char, font }.into());
                        } else {
                            list.push(
                                ds::Ligature { char, font, original_chars: "fl".into(), includes_left_boundary: false, includes_right_boundary: false }.into(),
                            );
                        }
                        if (font as usize) < nf {
                            let o = |x: Option<Scaled>| [x.is_some() as i64, x.map(|s| s.0 as i64).unwrap_or(0)];
                            let (w, h, d) = (o(direct.width(char, font)), o(direct.height(char, font)), o(direct.depth(char, font)));
                            plain.push(vec![nd[0] - 20, w[0], w[1], h[0], h[1], d[0], d[1]]);
                            if w[0] == 0 {
                                out.tag("tf:glyph-not-in-font");
                            } else if h[0] == 0 || d[0] == 0 {
                                out.tag("tf:height-or-depth-index-outside-table");
                            }
                            if nd[1] > 255 {
                                out.tag("tf:char-above-255");
                            }
                        } else {
                            plain.push(vec![nd[0] - 20, 0, 0, 0, 0, 0, 0]);
                        }
                    } else {
                        let (l1, _) = build(std::slice::from_ref(nd));
                        let _ = idx;
                        list.extend(l1);
                        plain.push(nd.clone());
                    }
                }
                let real = run_real(&repo, list, mode, amt);
                let mut req = vec![nf as i64];
                for (id, f) in direct.0.iter().enumerate() {
                    req.extend(enc_font(id as i64, f));
                }
                req.extend([mode, amt, n as i64]);
                for nd in &nodes {
                    req.extend(nd);
                }
                out.tag("stream=tf");
                self.compare_req(Some(format!("tf {}", join(&req))), mode, amt, &plain, real, drv, "tf", out)
            }
            "un" => {
                let k: i64 = rest.trim().parse().expect("kind");
                let node: ds::Horizontal = match k {
                    0 => ds::Mark { list: vec![] }.into(),
                    1 => ds::Insertion {
                        box_number: 0,
                        height: Scaled::ZERO,
                        split_max_depth: Scaled::ZERO,
                        split_top_skip: common::Glue::default(),
                        float_penalty: 0,
                        vbox: vec![],
                    }
                    .into(),
                    2 => ds::Adjust { list: vec![] }.into(),
                    _ => ds::Math::Before.into(),
                };
                let r = caught(|| ds::HBox::pack(&CaseFont::default(), vec![node], ds::PackWidth::Additional(Scaled::ZERO)));
                out.tag("stream=un");
                out.tag(if r.is_err() { "unsupported-node:todo-panic(out of quantifier)" } else { "unsupported-node:returned" });
                out
            }
            other => panic!("unknown case kind {other}"),
        }
    }
    fn shrink(&self, case: &str) -> Vec<String> {
        let (cmd, rest) = case.split_once(' ').unwrap_or((case, ""));
        let mut c = vec![];
        match cmd {
            "hp" => {
                let v = parse_i64s(rest);
                let (mode, amt, n) = (v[0], v[1], v[2] as usize);
                let items = split_items(&v[3..], n);
                if items.len() > 1 {
                    c.push(enc_case(mode, amt, &items[..items.len() / 2]));
                    c.push(enc_case(mode, amt, &items[items.len() / 2..]));
                }
                for i in 0..items.len() {
                    let mut o = items.clone();
                    o.remove(i);
                    c.push(enc_case(mode, amt, &o));
                }
                // smaller numbers: exact → additional 1pt / -1pt, widths to 0
                if mode == 0 {
                    let (nat, _, _) = gen_sums(&items);
                    c.push(enc_case(1, clamp32(amt - nat), &items));
                }
                for i in 0..items.len() {
                    if items[i][0] == 5 && items[i][1] != 0 {
                        let mut o = items.clone();
                        o[i][1] = 0;
                        c.push(enc_case(mode, amt, &o));
                    }
                }
            }
            "tf" => {
                let v = parse_i64s(rest);
                let mut cur: &[i64] = &v;
                let nf = cur[0] as usize;
                cur = &cur[1..];
                let fonts = parse_raw_fonts(&mut cur, nf);
                let (mode, amt, n) = (cur[0], cur[1], cur[2] as usize);
                let nodes = split_nodes(&cur[3..], n);
                for i in 0..nodes.len() {
                    let mut o = nodes.clone();
                    o.remove(i);
                    let mut w = enc_raw_fonts(&fonts);
                    w.extend([mode, amt, o.len() as i64]);
                    for nd in &o {
                        w.extend(nd);
                    }
                    c.push(format!("tf {}", join(&w)));
                }
            }
            "tx" => {
                let (w, text) = rest.split_once(' ').unwrap_or((rest, ""));
                let words: Vec<&str> = text.split(' ').collect();
                for i in 0..words.len() {
                    if words.len() > 1 {
                        let mut o = words.clone();
                        o.remove(i);
                        c.push(format!("tx {w} {}", o.join(" ")));
                    }
                }
            }
            _ => {}
        }
        c
    }
}

fn main() {
    let repo = parse_args().repo;
    run(C15 { tfm: None, direct: None, tx_nodes: None, repo });
}
