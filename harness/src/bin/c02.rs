//! C02 — macro parameters bind and substitute exactly as in TeX.
//!
//! Case strings (they are also the Lean driver's requests, see `lean/Driver/C02.lean`):
//!   `s P <prefix> (D <delimiter>)* (H|N) B <items> I <input>`   a macro as the user writes it
//!        and the tokens that follow its call: I vs M vs S.
//!   `r <def tokens> I <input>`   raw tokens after `\def\name` (error paths of the definition
//!        parser included): I vs M.
//! Tokens are words: `{` `}` `_` (space) `#` `\c` (control sequence named `c`), any other
//! single character. Items: token words, `#1`..`#9`, `##`.
//!
//! Each case is rendered to TeX source and run through the real lexer, the real `\def` /
//! `\gdef` and a real expansion on a `VM::<StdLibState>`, twice:
//!   * toks run: `\def\a<def>\toks0\expandafter{\a<input>}`; the expansion followed by the
//!     rest is read back, token for token (braces included), from token register 0;
//!   * direct run: `\def\a<def>\a<input>`; every token the VM's main loop delivers to the
//!     character / undefined-command handler is recorded (braces are executed as groups,
//!     so only their balance is visible: `project` in the driver).

use std::cell::RefCell;
use std::collections::HashMap;
use std::rc::Rc;
use texlang::traits::*;
use texlang::vm::implement_has_component;
use texlang::*;
use texlang_common as tc;
use texlang_stdlib as lib;
use texlang_stdlib::StdLibState;
use vh::*;

#[derive(Clone, Copy, PartialEq, Eq, Debug, Hash)]
enum T {
    Bg,
    Eg,
    Sp,
    Param,
    Ch(char),
    Cs(char),
}

fn word(t: T) -> String {
    match t {
        T::Bg => "{".into(),
        T::Eg => "}".into(),
        T::Sp => "_".into(),
        T::Param => "#".into(),
        T::Ch(c) => c.to_string(),
        T::Cs(c) => format!("\\{c}"),
    }
}
fn words(ts: &[T]) -> String {
    ts.iter().map(|t| word(*t)).collect::<Vec<_>>().join(" ")
}
fn tok_of_word(w: &str) -> Option<T> {
    let cs: Vec<char> = w.chars().collect();
    match cs.as_slice() {
        ['{'] => Some(T::Bg),
        ['}'] => Some(T::Eg),
        ['_'] => Some(T::Sp),
        ['#'] => Some(T::Param),
        ['\\', c] => Some(T::Cs(*c)),
        [c] if !c.is_ascii_uppercase() => Some(T::Ch(*c)),
        _ => None,
    }
}
fn parse_toks(s: &str) -> Vec<T> {
    s.split_ascii_whitespace().map(|w| tok_of_word(w).unwrap_or_else(|| panic!("bad token word {w:?}"))).collect()
}

/// Is the token list exactly what the lexer produces from `render`? (No space token after a
/// space token or after a control word: the lexer would drop it.)
fn representable(ts: &[T], after_control_word: bool) -> bool {
    let mut skip = after_control_word;
    for t in ts {
        match t {
            T::Sp => {
                if skip {
                    return false;
                }
                skip = true;
            }
            T::Cs(c) if c.is_ascii_alphabetic() => skip = true,
            _ => skip = false,
        }
    }
    true
}

/// TeX source for a token list (default category codes).
fn render(ts: &[T], out: &mut String) {
    for (i, t) in ts.iter().enumerate() {
        match t {
            T::Bg => out.push('{'),
            T::Eg => out.push('}'),
            T::Sp => out.push(' '),
            T::Param => out.push('#'),
            T::Ch(c) => out.push(*c),
            T::Cs(c) => {
                out.push('\\');
                out.push(*c);
                // a control word swallows following blanks: separate it from a following letter
                if c.is_ascii_alphabetic() {
                    if let Some(T::Ch(n)) = ts.get(i + 1) {
                        if n.is_ascii_alphabetic() {
                            out.push(' ');
                        }
                    }
                }
            }
        }
    }
}

/// TeX source for a token list *inside the body of the wrapper macro* `\\W#1{..}` that is called
/// as `\\W{ }`: every space token is written `#1` (so runs of spaces, a space after a control
/// word, a leading or trailing space — token lists the lexer can never produce — reach the
/// code under test by substitution), every `#` is written `##`.
fn render_wrapped(ts: &[T], out: &mut String) {
    for (i, t) in ts.iter().enumerate() {
        match t {
            T::Bg => out.push('{'),
            T::Eg => out.push('}'),
            T::Sp => out.push_str("#1"),
            T::Param => out.push_str("##"),
            T::Ch(c) => out.push(*c),
            T::Cs(c) => {
                out.push('\\');
                out.push(*c);
                if c.is_ascii_alphabetic() {
                    if let Some(T::Ch(n)) = ts.get(i + 1) {
                        if n.is_ascii_alphabetic() {
                            out.push(' ');
                        }
                    }
                }
            }
        }
    }
}

fn tok_of_value(v: token::Value, interner: &token::CsNameInterner) -> T {
    use token::Value::*;
    match v {
        BeginGroup(_) => T::Bg,
        EndGroup(_) => T::Eg,
        Space(_) => T::Sp,
        Parameter(_) => T::Param,
        Letter(c) | Other(c) | MathShift(c) | AlignmentTab(c) | Superscript(c) | Subscript(c) => T::Ch(c),
        CommandRef(token::CommandRef::ControlSequence(n)) => {
            let s = interner.resolve(n).unwrap_or("?");
            let mut it = s.chars();
            match (it.next(), it.next()) {
                (Some(c), None) => T::Cs(c),
                _ => T::Cs('?'),
            }
        }
        CommandRef(token::CommandRef::ActiveCharacter(c)) => T::Cs(c),
    }
}

thread_local! {
    static SEEN: RefCell<Vec<T>> = const { RefCell::new(Vec::new()) };
}

struct Rec;
impl<S: TexlangState> vm::Handlers<S> for Rec {
    fn character_handler(
        input: &mut vm::ExecutionInput<S>,
        token: token::Token,
        _: char,
    ) -> texlang::prelude::Result<()> {
        let t = tok_of_value(token.value(), input.vm().cs_name_interner());
        SEEN.with(|s| s.borrow_mut().push(t));
        Ok(())
    }
    fn undefined_command_handler(
        input: &mut vm::ExecutionInput<S>,
        token: token::Token,
    ) -> texlang::prelude::Result<()> {
        let t = tok_of_value(token.value(), input.vm().cs_name_interner());
        SEEN.with(|s| s.borrow_mut().push(t));
        Ok(())
    }
}

/// Small, message-independent classes of the errors this property can meet.
fn err_class(title: &str) -> String {
    let t = title;
    let c = if t.contains("matching the prefix of a user-defined macro") {
        "eoi-prefix"
    } else if t.contains("unexpected token while matching the prefix") {
        "prefix-mismatch"
    } else if t.contains("parsing a delimited argument") {
        "eoi-delimited"
    } else if t.contains("parsing an undelimited argument") {
        "eoi-undelimited"
    } else if t.contains("parsing a token list") {
        "eoi-balanced"
    } else if t.contains("parsing the parameter part") {
        "eoi-params"
    } else if t.contains("parsing the replacement part") {
        "eoi-replacement"
    } else if t.contains("unexpected end group token") {
        "unexpected-end-group"
    } else if t.contains("Too many parameters") {
        "too-many-params"
    } else if t.contains("unexpected parameter") {
        "bad-param-number"
    } else if t.contains("illegal parameter number") {
        "illegal-param-number"
    } else if t.contains("no group to end") {
        "no-group-to-end"
    } else {
        return format!("other:{t}");
    };
    c.to_string()
}

/// Model error name without the parameter number.
fn model_err_class(m: &str) -> String {
    let e = m.strip_prefix("err ").unwrap_or(m);
    for p in ["eoi-delimited", "eoi-undelimited"] {
        if e.starts_with(p) {
            return p.to_string();
        }
    }
    e.to_string()
}

struct Obs {
    /// error class, if `VM::run` returned an error
    err: Option<String>,
    /// tokens delivered to the handlers
    seen: Vec<T>,
    /// token register 0
    toks0: Vec<T>,
}

fn run_tex(src: &str) -> Result<Obs, String> {
    caught(|| {
        SEEN.with(|s| s.borrow_mut().clear());
        let mut vm = vm::VM::<StdLibState>::new();
        vm.push_source("c02.tex", src.to_string()).unwrap();
        let r = vm.run::<Rec>();
        let err = r.err().map(|e| err_class(&e.error.title()));
        let toks0 = vm.state.registers_token_list.values()[0]
            .iter()
            .map(|t| tok_of_value(t.value(), vm.cs_name_interner()))
            .collect();
        let seen = SEEN.with(|s| s.borrow().clone());
        Obs { err, seen, toks0 }
    })
}

// A state type with an in-memory file system (the real `\\input` reads from it); everything
// else as in `StdLibState`. Used by the source-boundary stream.
#[derive(Default)]
struct FState {
    alloc: lib::alloc::Component,
    codes_cat_code: lib::codes::Component<types::CatCode>,
    codes_math_code: lib::codes::Component<types::MathCode>,
    conditional: lib::conditional::Component,
    end_line_char: lib::endlinechar::Component,
    error_mode: lib::errormode::Component,
    input: lib::input::Component<16>,
    job: lib::job::Component,
    prefix: lib::prefix::Component,
    registers_i32: lib::registers::Component<i32, 32768>,
    registers_scaled: lib::registers::Component<common::Scaled, 32768>,
    registers_glue: lib::registers::Component<common::Glue, 32768>,
    registers_token_list: lib::registers::Component<Vec<token::Token>, 256>,
    repl: lib::repl::Component,
    script: lib::script::Component,
    time: lib::time::Component,
    tracing_macros: lib::tracingmacros::Component,
    file_system: Rc<RefCell<tc::InMemoryFileSystem>>,
    terminal_in: Rc<RefCell<tc::MockTerminalIn>>,
}

impl vm::TexlangState for FState {
    fn cat_code(&self, c: char) -> types::CatCode {
        lib::codes::cat_code(self, c)
    }
    fn end_line_char(&self) -> Option<char> {
        lib::endlinechar::end_line_char(self)
    }
    fn expansion_override_hook(
        token: token::Token,
        input: &mut vm::ExpansionInput<Self>,
        tag: Option<command::Tag>,
    ) -> texlang::prelude::Result<Option<token::Token>> {
        lib::expansion::noexpand_hook(token, input, tag)
    }
    fn variable_assignment_scope_hook(state: &mut Self) -> texcraft_stdext::collections::groupingmap::Scope {
        lib::prefix::variable_assignment_scope_hook(state)
    }
    fn recoverable_error_hook(
        &self,
        recoverable_error: error::TracedTexError,
    ) -> Result<(), Box<dyn error::TexError>> {
        lib::errormode::recoverable_error_hook(self, recoverable_error)
    }
}

impl lib::the::TheCompatible for FState {}

implement_has_component![FState{
    alloc: lib::alloc::Component,
    codes_cat_code: lib::codes::Component<types::CatCode>,
    codes_math_code: lib::codes::Component<types::MathCode>,
    conditional: lib::conditional::Component,
    end_line_char: lib::endlinechar::Component,
    error_mode: lib::errormode::Component,
    input: lib::input::Component<16>,
    job: lib::job::Component,
    prefix: lib::prefix::Component,
    registers_i32: lib::registers::Component<i32, 32768>,
    registers_scaled: lib::registers::Component<common::Scaled, 32768>,
    registers_glue: lib::registers::Component<common::Glue, 32768>,
    registers_token_list: lib::registers::Component<Vec<token::Token>, 256>,
    repl: lib::repl::Component,
    script: lib::script::Component,
    time: lib::time::Component,
    tracing_macros: lib::tracingmacros::Component,
}];

impl tc::HasLogging for FState {
    fn terminal_out(&self) -> Rc<RefCell<dyn std::io::Write>> {
        Rc::new(RefCell::new(std::io::sink()))
    }
}
impl tc::HasFileSystem for FState {
    fn file_system(&self) -> Rc<RefCell<dyn tc::FileSystem>> {
        self.file_system.clone()
    }
}
impl tc::HasTerminalIn for FState {
    fn terminal_in(&self) -> Rc<RefCell<dyn tc::TerminalIn>> {
        self.terminal_in.clone()
    }
}

/// One real run of `main` with the file `inner.tex` available to `\\input`.
fn run_tex_files(main: &str, inner: &str) -> Result<Obs, String> {
    caught(|| {
        SEEN.with(|s| s.borrow_mut().clear());
        let built_ins: HashMap<&'static str, command::BuiltIn<FState>> = lib::built_in_commands::<FState>();
        let mut vm = vm::VM::<FState>::new_with_built_in_commands(built_ins);
        let mut fs = tc::InMemoryFileSystem::new(vm.working_directory.as_ref().unwrap());
        fs.add_string_file("inner.tex", inner);
        vm.state.file_system = Rc::new(RefCell::new(fs));
        vm.push_source("main.tex", main.to_string()).unwrap();
        let r = vm.run::<Rec>();
        let err = r.err().map(|e| err_class(&e.error.title()));
        let toks0 = vm.state.registers_token_list.values()[0]
            .iter()
            .map(|t| tok_of_value(t.value(), vm.cs_name_interner()))
            .collect();
        let seen = SEEN.with(|s| s.borrow().clone());
        Obs { err, seen, toks0 }
    })
}

/// How a case is turned into TeX source.
#[derive(Clone, Copy, PartialEq, Eq, Debug)]
enum Mode {
    /// definition and call written out in one source
    Plain,
    /// both are the body of a wrapper macro (`render_wrapped`)
    Wrapped,
    /// as `Plain`, but `\\x` and `\\y` are macros while the call scans its arguments (`\\def\\x{?}`,
    /// `\\def\\y#1{!}`); the replacement text starts with `\\l\\x{;}\\l\\y{:}` (`\\l` = `\\def`), so when
    /// the expansion is executed an `\\x` bound as a token is delivered as `;` and `\\y` as `:`
    /// (read back as the tokens), while an argument bound *expanded* shows `?` / `!`.
    Expandable,
    /// the call is at the end of `inner.tex`; input[..i] is in that file, input[i..j] are pending
    /// (already expanded) tokens of the enclosing source, input[j..] is in its lexer
    File(usize, usize),
}

fn balanced(ts: &[T]) -> bool {
    let mut d = 0i64;
    for t in ts {
        match t {
            T::Bg => d += 1,
            T::Eg => {
                d -= 1;
                if d < 0 {
                    return false;
                }
            }
            _ => {}
        }
    }
    d == 0
}

// ------------------------------------------------------------------------------------------
// Structured cases
// ------------------------------------------------------------------------------------------

#[derive(Clone, Debug)]
struct SpecCase {
    pre: Vec<T>,
    delims: Vec<Vec<T>>,
    hash_brace: bool,
    body: Vec<String>, // item words
    input: Vec<T>,
}

impl SpecCase {
    fn sections(&self) -> String {
        let mut s = String::from("P");
        if !self.pre.is_empty() {
            s.push(' ');
            s.push_str(&words(&self.pre));
        }
        for d in &self.delims {
            s.push_str(" D");
            if !d.is_empty() {
                s.push(' ');
                s.push_str(&words(d));
            }
        }
        s.push_str(if self.hash_brace { " H B" } else { " N B" });
        for b in &self.body {
            s.push(' ');
            s.push_str(b);
        }
        s.push_str(" I");
        if !self.input.is_empty() {
            s.push(' ');
            s.push_str(&words(&self.input));
        }
        s
    }
    fn line(&self) -> String {
        format!("s {}", self.sections())
    }
    fn line_k(&self, kind: &str) -> String {
        format!("{kind} {}", self.sections())
    }
    fn parse(rest: &str) -> SpecCase {
        let mut c = SpecCase { pre: vec![], delims: vec![], hash_brace: false, body: vec![], input: vec![] };
        let mut sec = ' ';
        for w in rest.split_ascii_whitespace() {
            match w {
                "P" => sec = 'P',
                "D" => {
                    sec = 'D';
                    c.delims.push(vec![]);
                }
                "H" => c.hash_brace = true,
                "N" => c.hash_brace = false,
                "B" => sec = 'B',
                "I" => sec = 'I',
                _ => match sec {
                    'P' => c.pre.push(tok_of_word(w).expect("token")),
                    'D' => c.delims.last_mut().unwrap().push(tok_of_word(w).expect("token")),
                    'B' => c.body.push(w.to_string()),
                    'I' => c.input.push(tok_of_word(w).expect("token")),
                    _ => panic!("bad case"),
                },
            }
        }
        c
    }
}

const LITS: &[T] = &[T::Ch('a'), T::Ch('.'), T::Cs(','), T::Ch('b'), T::Ch('['), T::Ch(']'), T::Cs('x'), T::Sp, T::Ch('1')];
const DELIM_ALPHA: &[T] = &[T::Ch('a'), T::Ch('.'), T::Cs(',')];

struct C02;

impl C02 {
    /// A balanced token list; shapes: empty, one token, one group, several groups, nested
    /// groups, leading space, delimiter tokens inside braces.
    fn gen_balanced(rng: &mut Rng, depth: u32, out: &mut Vec<T>) {
        // the size dimension: now and then a long list (tens to hundreds of tokens, mostly
        // tokens that are not delimiter material, so that it is really bound as one argument)
        // or a deep nest
        if depth <= 1 && rng.chance(1, 40) {
            const FILL: &[T] = &[T::Ch('b'), T::Ch('['), T::Ch(']'), T::Ch('1'), T::Cs('x'), T::Sp, T::Ch('b')];
            if rng.chance(1, 2) {
                let n = *rng.pick(&[20u64, 40, 62, 63, 64, 65, 100, 127, 128, 129, 255, 256, 257, 400]) + rng.below(3);
                for _ in 0..n {
                    if rng.chance(1, 12) {
                        out.extend([T::Bg, *rng.pick(LITS), T::Eg]);
                    } else {
                        out.push(*rng.pick(FILL));
                    }
                }
            } else {
                let k = *rng.pick(&[8u64, 15, 16, 17, 31, 32, 33, 64, 65, 100]);
                for _ in 0..k {
                    out.push(T::Bg);
                    if rng.chance(1, 4) {
                        out.push(*rng.pick(FILL));
                    }
                }
                out.push(*rng.pick(LITS));
                for _ in 0..k {
                    if rng.chance(1, 4) {
                        out.push(*rng.pick(FILL));
                    }
                    out.push(T::Eg);
                }
            }
            return;
        }
        let n = match rng.below(10) {
            0 => 0,
            1..=4 => 1,
            5..=7 => 2,
            8 => 3,
            _ => 4,
        };
        for _ in 0..n {
            if depth < 3 && rng.chance(2, 5) {
                out.push(T::Bg);
                Self::gen_balanced(rng, depth + 1, out);
                out.push(T::Eg);
            } else {
                out.push(*rng.pick(LITS));
            }
        }
    }
    fn gen_delim(rng: &mut Rng) -> Vec<T> {
        match rng.below(12) {
            0..=4 => vec![*rng.pick(DELIM_ALPHA)],
            5..=7 => vec![*rng.pick(DELIM_ALPHA), *rng.pick(DELIM_ALPHA)],
            8 => vec![*rng.pick(DELIM_ALPHA), *rng.pick(DELIM_ALPHA), *rng.pick(DELIM_ALPHA)],
            // self-overlapping delimiters: the KMP fallback matters
            9 => parse_toks("a a ."),
            10 => parse_toks("a . a . a"),
            _ => vec![*rng.pick(LITS), *rng.pick(DELIM_ALPHA)],
        }
    }
    fn gen_spec(rng: &mut Rng) -> SpecCase {
        let mut c = Self::gen_spec_with(rng, false);
        Self::normalise(&mut c);
        c
    }
    /// A case for the wrapper stream: token lists are *not* normalised, and extra space tokens
    /// are put where the lexer would never leave one (runs of spaces, after control words, at
    /// either end, in delimiters, prefix and replacement text). Program kept balanced.
    fn gen_wrapped(rng: &mut Rng) -> SpecCase {
        loop {
            let mut c = Self::gen_spec_with(rng, true);
            let spray = |ts: &mut Vec<T>, rng: &mut Rng, n: u64| {
                for _ in 0..n {
                    // next to an existing space or control word if there is one, else anywhere
                    let spots: Vec<usize> = (0..ts.len()).filter(|i| matches!(ts[*i], T::Sp | T::Cs(_))).collect();
                    let k = if !spots.is_empty() && rng.chance(2, 3) { *rng.pick(&spots) + 1 } else { rng.below(ts.len() as u64 + 1) as usize };
                    ts.insert(k, T::Sp);
                }
            };
            let n = rng.below(4);
            spray(&mut c.input, rng, n);
            if rng.chance(1, 4) {
                spray(&mut c.pre, rng, 1);
            }
            if rng.chance(1, 3) {
                for d in c.delims.iter_mut() {
                    if !d.is_empty() && rng.chance(1, 2) {
                        let k = 1 + rng.below(2);
                        spray(d, rng, k);
                    }
                }
            }
            if rng.chance(1, 4) {
                let k = rng.below(c.body.len() as u64 + 1) as usize;
                c.body.insert(k, "_".into());
                c.body.insert(k, "_".into());
            }
            if balanced(&c.input) {
                return c;
            }
        }
    }
    const X_PREFIX: &'static [&'static str] = &["\\l", "\\x", "{", ";", "}", "\\l", "\\y", "{", ":", "}"];
    /// A case for the expandable-token stream (`Mode::Expandable`): `\\x` and `\\y` (macros
    /// while the arguments are scanned) inside and between the arguments, braced and unbraced,
    /// nested, delimited and undelimited; the replacement text starts with their redefinition.
    fn gen_expandable(rng: &mut Rng) -> SpecCase {
        let mut c = Self::gen_spec_with(rng, false);
        let mut any = false;
        for t in c.input.iter_mut() {
            if matches!(t, T::Ch('b') | T::Ch('1') | T::Cs(',') | T::Ch('[') | T::Ch(']')) && rng.chance(2, 3) {
                *t = if rng.chance(1, 2) { T::Cs('x') } else { T::Cs('y') };
                any = true;
            }
        }
        if !any {
            let k = rng.below(c.input.len() as u64 + 1) as usize;
            c.input.insert(k, T::Cs('x'));
        }
        let mut body: Vec<String> = Self::X_PREFIX.iter().map(|s| s.to_string()).collect();
        body.extend(c.body.iter().cloned());
        c.body = body;
        Self::normalise(&mut c);
        c
    }
    /// `f` case line: the input with the two `F` marks after `i` and `j` tokens.
    fn file_line(c: &SpecCase, i: usize, j: usize) -> String {
        let mut h = c.clone();
        h.input.clear();
        let mut line = format!("f {}", h.sections());
        for (k, t) in c.input.iter().enumerate() {
            if k == i {
                line.push_str(" F");
            }
            if k == j {
                line.push_str(" F");
            }
            line.push(' ');
            line.push_str(&word(*t));
        }
        if i >= c.input.len() {
            line.push_str(" F");
        }
        if j >= c.input.len() {
            line.push_str(" F");
        }
        line
    }
    fn file_split_ok(input: &[T], i: usize, j: usize) -> bool {
        let (p0, p1, p2) = (&input[..i], &input[i..j], &input[j..]);
        p0.last() != Some(&T::Sp) && balanced(p1) && representable(p1, true) && representable(p2, false) && p2.last() != Some(&T::Sp)
    }
    /// A case for the source-boundary stream (`Mode::File`).
    fn gen_file(rng: &mut Rng) -> String {
        loop {
            let c = Self::gen_spec(rng);
            let n = c.input.len();
            for _ in 0..8 {
                let i = match rng.below(4) {
                    0 => 0,
                    _ => rng.below(n as u64 + 1) as usize,
                };
                let j = match rng.below(4) {
                    0 => i,
                    1 => n,
                    _ => i + rng.below((n - i) as u64 + 1) as usize,
                };
                if (i, j) != (n, n) && Self::file_split_ok(&c.input, i, j) {
                    return Self::file_line(&c, i, j);
                }
            }
        }
    }
    /// KMP stress: a delimiter over the two letters a, b (highly self-overlapping) and an
    /// argument glued from prefixes, suffixes and factors of that delimiter (near misses),
    /// followed by the delimiter itself. `shape` picks the parameter text around it.
    fn kmp_case(delim: &[T], arg: &[T], shape: u64) -> String {
        let mut c = SpecCase { pre: vec![], delims: vec![delim.to_vec()], hash_brace: false, body: vec!["[".into(), "#1".into(), "]".into()], input: vec![] };
        c.input.extend(arg.iter());
        c.input.extend(delim.iter());
        match shape % 4 {
            1 => {
                // a second, undelimited parameter
                c.delims.push(vec![]);
                c.body = vec!["#2".into(), ",".into(), "#1".into()];
                c.input.push(T::Ch('.'));
            }
            2 => {
                // the #{ form: the delimiter gets a brace appended
                c.hash_brace = true;
                c.input.extend([T::Bg, T::Ch('.'), T::Eg]);
            }
            3 => {
                // two parameters with the same delimiter
                c.delims.push(delim.to_vec());
                c.body = vec!["#2".into(), ",".into(), "#1".into()];
                c.input.extend(arg.iter().rev());
                c.input.extend(delim.iter());
            }
            _ => {}
        }
        c.input.push(T::Ch('b'));
        c.line()
    }
    fn ab_string(mut idx: u64, len: usize) -> Vec<T> {
        (0..len)
            .map(|_| {
                let t = if idx & 1 == 0 { T::Ch('a') } else { T::Ch('b') };
                idx >>= 1;
                t
            })
            .collect()
    }
    fn gen_kmp(thorough: bool, rng: &mut Rng, v: &mut Vec<String>) {
        // every delimiter over {a,b} up to this length, with every "prefix ++ suffix" argument:
        // a wrong prefix-table entry v at index i-1 shows on P[..i] ++ P[v..] (false match) or
        // on P[..i] ++ P[b..] for the true border b (missed match)
        let exh_len = if thorough { 8 } else { 6 };
        let mut shape = 0u64;
        for len in 1..=exh_len {
            for idx in 0..(1u64 << len) {
                let d = Self::ab_string(idx, len);
                for i in 0..=len {
                    for j in 0..=len {
                        let mut arg = d[..i].to_vec();
                        arg.extend(d[j..].iter());
                        shape += 1;
                        v.push(Self::kmp_case(&d, &arg, if shape % 5 == 0 { shape / 5 } else { 0 }));
                    }
                }
            }
        }
        // every argument over {a,b} up to a length, for every short delimiter (thorough)
        if thorough {
            for len in 2..=5 {
                for idx in 0..(1u64 << len) {
                    let d = Self::ab_string(idx, len);
                    for alen in 0..=8 {
                        for aidx in 0..(1u64 << alen) {
                            v.push(Self::kmp_case(&d, &Self::ab_string(aidx, alen), 0));
                        }
                    }
                }
            }
        }
        // long structured delimiters (a^k b^m, (ab)^k a, (aab)^k, random) with arguments glued
        // from several random factors of the delimiter
        let n = if thorough { 40_000 } else { 3_500 };
        for _ in 0..n {
            let d: Vec<T> = match rng.below(5) {
                0 => {
                    let k = 1 + rng.below(5) as usize;
                    let m = 1 + rng.below(4) as usize;
                    let mut d = vec![T::Ch('a'); k];
                    d.extend(vec![T::Ch('b'); m]);
                    d
                }
                1 => {
                    let k = 1 + rng.below(4) as usize;
                    let mut d = vec![];
                    for _ in 0..k {
                        d.extend([T::Ch('a'), T::Ch('b')]);
                    }
                    d.push(T::Ch('a'));
                    d
                }
                2 => {
                    let k = 1 + rng.below(3) as usize;
                    let mut d = vec![];
                    for _ in 0..k {
                        d.extend([T::Ch('a'), T::Ch('a'), T::Ch('b')]);
                    }
                    if rng.chance(1, 2) {
                        d.push(*rng.pick(&[T::Ch('a'), T::Ch('b')]));
                    }
                    d
                }
                3 => {
                    // a^k b a^k' ... over three letters, other tokens as letters too
                    let alpha = [T::Ch('a'), T::Ch('a'), T::Ch('b'), T::Ch('.'), T::Cs(',')];
                    (0..2 + rng.below(7)).map(|_| *rng.pick(&alpha)).collect()
                }
                _ => Self::ab_string(rng.next_u64(), 2 + rng.below(7) as usize),
            };
            let mut arg = vec![];
            if rng.chance(1, 2) {
                // prefix ++ suffix (the shape that exposes a wrong prefix-table entry), possibly twice
                for _ in 0..1 + rng.below(2) {
                    let i = rng.below(d.len() as u64 + 1) as usize;
                    let j = rng.below(d.len() as u64 + 1) as usize;
                    arg.extend(d[..i].iter());
                    arg.extend(d[j..].iter());
                }
            } else {
                for _ in 0..1 + rng.below(4) {
                    let i = rng.below(d.len() as u64 + 1) as usize;
                    let j = i + rng.below((d.len() - i) as u64 + 1) as usize;
                    arg.extend(d[i..j].iter());
                    if rng.chance(1, 6) {
                        arg.extend([T::Bg, T::Eg]);
                    }
                }
            }
            let shape = rng.below(8);
            v.push(Self::kmp_case(&d, &arg, shape));
        }
    }
    fn gen_spec_with(rng: &mut Rng, spacey: bool) -> SpecCase {
        let nparams = match rng.below(20) {
            0 => 0,
            1..=7 => 1,
            8..=13 => 2,
            14..=16 => 3,
            17 => 4 + rng.below(4) as usize,
            18 => 8,
            _ => 9,
        };
        let mut pre = vec![];
        if rng.chance(1, 3) {
            for _ in 0..1 + rng.below(2) {
                pre.push(*rng.pick(LITS));
            }
        }
        let delims: Vec<Vec<T>> = (0..nparams).map(|_| if rng.chance(2, 5) { vec![] } else { Self::gen_delim(rng) }).collect();
        let hash_brace = rng.chance(1, 5);
        let mut body = vec![];
        let nb = rng.below(7);
        let mut open = 0;
        for _ in 0..nb {
            match rng.below(10) {
                0..=3 if nparams > 0 => body.push(format!("#{}", 1 + rng.below(nparams as u64))),
                4 => body.push("##".into()),
                5 => {
                    body.push("{".into());
                    open += 1;
                }
                6 if open > 0 => {
                    body.push("}".into());
                    open -= 1;
                }
                _ => body.push(word(*rng.pick(LITS))),
            }
        }
        for _ in 0..open {
            body.push("}".into());
        }
        // an input built to match (the spec decides what is actually bound)
        let mut input = pre.clone();
        for (i, d) in delims.iter().enumerate() {
            let last = i + 1 == delims.len();
            if d.is_empty() && !(last && hash_brace) {
                if rng.chance(1, 3) || (spacey && rng.chance(1, 2)) {
                    input.push(T::Sp);
                    if spacey {
                        for _ in 0..rng.below(3) {
                            input.push(T::Sp);
                        }
                    }
                }
                if rng.chance(1, 2) {
                    input.push(T::Bg);
                    Self::gen_balanced(rng, 1, &mut input);
                    input.push(T::Eg);
                } else {
                    input.push(*rng.pick(&[T::Ch('a'), T::Ch('.'), T::Cs(','), T::Ch('b'), T::Cs('x'), T::Ch('1')]));
                }
            } else {
                match rng.below(8) {
                    // the C02-a shape and its neighbours
                    0 => {
                        for _ in 0..2 + rng.below(2) {
                            input.push(T::Bg);
                            Self::gen_balanced(rng, 2, &mut input);
                            input.push(T::Eg);
                        }
                    }
                    1 => {
                        input.push(T::Bg);
                        Self::gen_balanced(rng, 1, &mut input);
                        input.push(T::Eg);
                    }
                    2 => {
                        // the delimiter inside braces, then outside
                        input.push(T::Bg);
                        input.extend(d.iter());
                        input.push(T::Eg);
                    }
                    3 => {
                        // a proper prefix of the delimiter first (KMP fallback)
                        let k = rng.below(d.len() as u64 + 1) as usize;
                        input.extend(d[..k].iter());
                    }
                    _ => Self::gen_balanced(rng, 0, &mut input),
                }
                input.extend(d.iter());
            }
        }
        if hash_brace {
            input.push(T::Bg);
            Self::gen_balanced(rng, 1, &mut input);
            input.push(T::Eg);
        }
        Self::gen_balanced(rng, 0, &mut input);
        // sometimes damage the call: the non-matching and error paths
        if !spacey && rng.chance(1, 8) && !input.is_empty() {
            let k = rng.below(input.len() as u64) as usize;
            match rng.below(3) {
                0 => {
                    input.remove(k);
                }
                1 => input.truncate(k),
                _ => input.insert(k, *rng.pick(&[T::Bg, T::Eg, T::Sp, T::Ch('.')])),
            }
        }
        SpecCase { pre, delims, hash_brace, body, input }
    }
    /// Make every token list lexable as written (drop unrepresentable space tokens).
    fn normalise(c: &mut SpecCase) {
        fn fix(ts: &mut Vec<T>, mut skip: bool) -> bool {
            let mut out = vec![];
            for t in ts.iter() {
                match t {
                    T::Sp => {
                        if skip {
                            continue;
                        }
                        skip = true;
                    }
                    T::Cs(c) if c.is_ascii_alphabetic() => skip = true,
                    _ => skip = false,
                }
                out.push(*t);
            }
            *ts = out;
            skip
        }
        // parameter text: prefix, then `#n` + delimiter (after `#n` a space is representable)
        fix(&mut c.pre, false);
        for d in c.delims.iter_mut() {
            fix(d, false);
        }
        let mut skip = false;
        let mut body = vec![];
        for w in &c.body {
            match tok_of_word(w) {
                Some(T::Sp) => {
                    if skip {
                        continue;
                    }
                    skip = true;
                }
                Some(T::Cs(c)) if c.is_ascii_alphabetic() => skip = true,
                _ => skip = false,
            }
            body.push(w.clone());
        }
        c.body = body;
        fix(&mut c.input, false);
        // the lexer trims blanks at the end of a line: a final space token cannot be written
        while c.input.last() == Some(&T::Sp) {
            c.input.pop();
        }
    }
}

/// `\def` text (what follows the macro name) of a raw case and the input.
fn split_raw(rest: &str) -> (Vec<T>, Vec<T>) {
    let (d, i) = match rest.split_once(" I") {
        Some((d, i)) => (d, i),
        None => match rest.strip_prefix("I") {
            Some(i) => ("", i),
            None => (rest, ""),
        },
    };
    (parse_toks(d), parse_toks(i))
}

fn first_diff_class(a: &[T], b: &[T]) -> String {
    fn k(t: Option<&T>) -> &'static str {
        match t {
            None => "end",
            Some(T::Bg) => "{",
            Some(T::Eg) => "}",
            Some(T::Sp) => "space",
            Some(T::Param) => "#",
            Some(T::Ch(_)) => "char",
            Some(T::Cs(_)) => "cs",
        }
    }
    for i in 0..a.len().max(b.len()) {
        if a.get(i) != b.get(i) {
            return format!("{} where {} expected", k(a.get(i)), k(b.get(i)));
        }
    }
    "same".into()
}

struct ModelReply {
    def_toks: Vec<T>,
    def_res: String,
    call: String,
    call_proj: String,
    old: String,
    old_proj: String,
    spec: Option<String>,
    spec_proj: Option<String>,
}

const C02A_SIG: &str = "delimited argument of several groups loses its outer braces (C02-a)";

impl C02 {
    /// What the toks run shows when the call's result is `out`: the source is
    /// `\\toks0\\expandafter{` out `}`; the register takes everything up to the first `}` with no
    /// open group, the main loop executes what is left (`project` semantics).
    /// Returns (register, delivered, error class).
    fn predict_toks(out: &[T]) -> (Vec<T>, Vec<T>, Option<String>) {
        let mut all: Vec<T> = out.to_vec();
        all.push(T::Eg);
        let mut d = 0i64;
        let mut cut = None;
        for (i, t) in all.iter().enumerate() {
            match t {
                T::Bg => d += 1,
                T::Eg => {
                    if d == 0 {
                        cut = Some(i);
                        break;
                    }
                    d -= 1;
                }
                _ => {}
            }
        }
        let Some(cut) = cut else {
            return (vec![], vec![], Some("eoi-balanced".into()));
        };
        let reg = all[..cut].to_vec();
        let mut seen = vec![];
        let mut d = 0i64;
        for t in &all[cut + 1..] {
            match t {
                T::Bg => d += 1,
                T::Eg => {
                    if d == 0 {
                        return (reg, seen, Some("no-group-to-end".into()));
                    }
                    d -= 1;
                }
                t => seen.push(*t),
            }
        }
        (reg, seen, None)
    }

    /// Compare one run (toks or direct) with a predicted outcome. `pred` is `ok <tokens>` /
    /// `err <class>`; `proj` its projection. `None` = this run cannot observe the prediction;
    /// `Some(None)` = the run shows exactly the prediction; `Some(Some(d))` = it differs.
    fn diff(obs: &Obs, toks_mode: bool, pred: &str, proj: &str) -> Option<Option<String>> {
        if toks_mode && !pred.starts_with("ok") {
            // errors depend on what follows the input (the closing brace of the register
            // assignment); the direct run decides
            return None;
        }
        if let Some(e) = pred.strip_prefix("err ") {
            let want = model_err_class(e);
            return Some(match &obs.err {
                Some(got) if *got == want => None,
                Some(got) => Some(format!("error {got} where error {want} expected")),
                None => Some(format!("no error where error {want} expected")),
            });
        }
        if pred == "panic" {
            return Some(Some("model predicts a panic".into()));
        }
        let out = parse_toks(pred.strip_prefix("ok").unwrap_or(pred));
        if toks_mode {
            let (reg, seen, err) = Self::predict_toks(&out);
            if obs.err != err {
                return Some(Some(format!(
                    "error {} where {} expected",
                    obs.err.as_deref().unwrap_or("none"),
                    err.as_deref().unwrap_or("a result")
                )));
            }
            if err.as_deref() == Some("eoi-balanced") {
                return Some(None);
            }
            if obs.toks0 != reg {
                return Some(Some(format!("register: {}", first_diff_class(&obs.toks0, &reg))));
            }
            if obs.seen != seen {
                return Some(Some(format!("after the register: {}", first_diff_class(&obs.seen, &seen))));
            }
            Some(None)
        } else {
            let (p, x) = match proj.strip_suffix('X') {
                Some(p) => (parse_toks(p), true),
                None => (parse_toks(proj), false),
            };
            match (&obs.err, x) {
                (Some(e), true) if e == "no-group-to-end" => {}
                (None, false) => {}
                (Some(e), _) => return Some(Some(format!("error {e} where {} expected", if x { "no-group-to-end" } else { "a result" }))),
                (None, true) => return Some(Some("no error where no-group-to-end expected".into())),
            }
            if obs.seen != p {
                return Some(Some(format!("delivered: {}", first_diff_class(&obs.seen, &p))));
            }
            Some(None)
        }
    }

    fn compare(
        &self,
        out: &mut CaseOutcome,
        r: &ModelReply,
        input: &[T],
        sections: Option<&str>,
        drv: &mut Driver,
        mode: Mode,
    ) {
        let wrapped = mode == Mode::Wrapped;
        if wrapped {
            // the whole program is the body of a wrapper macro, see `render_wrapped`
            let mut all = r.def_toks.clone();
            all.extend(input.iter());
            if !balanced(&all) || r.def_res != "ok" {
                out.tag("skipped:wrapper-needs-a-balanced-program");
                out.nontrivial = false;
                return;
            }
            out.tag("name:via-wrapper-macro");
        }
        // what directly follows the macro's name in the source
        let after_name: &[T] = match mode {
            Mode::File(i, _) => &input[..i],
            _ => input,
        };
        // the macro's name: a control symbol when a space token must follow it
        let needs_symbol = !wrapped && (!representable(&r.def_toks, true) || !representable(after_name, true));
        let name = if needs_symbol { "\\!" } else { "\\a" };
        out.tag(if needs_symbol { "name:control-symbol" } else { "name:control-word" });
        if !wrapped && (!representable(&r.def_toks, !needs_symbol) || !representable(after_name, !needs_symbol) || r.def_res == "overrun") {
            out.tag(if r.def_res == "overrun" { "skipped:definition-overruns-its-text" } else { "skipped:unrepresentable" });
            out.nontrivial = false;
            return;
        }
        if let Mode::File(i, j) = mode {
            // the file must not end with a blank (trimmed), the pending tokens are the body of a
            // macro (balanced, `#` doubled) after the blank that ends the file name
            let (p0, p1, p2) = (&input[..i], &input[i..j], &input[j..]);
            if p0.last() == Some(&T::Sp)
                || !balanced(p1)
                || !representable(p1, true)
                || !representable(p2, false)
                || p2.last() == Some(&T::Sp)
                || r.def_res != "ok"
            {
                out.tag("skipped:unrepresentable");
                out.nontrivial = false;
                return;
            }
            out.tag(match (p0.is_empty(), p1.is_empty(), p2.is_empty()) {
                (_, true, true) => "boundary:all-in-file",
                (true, false, true) => "boundary:pending-only",
                (true, true, false) => "boundary:lexer-only",
                (true, false, false) => "boundary:pending+lexer",
                (false, false, true) => "boundary:file+pending",
                (false, true, false) => "boundary:file+lexer",
                (false, false, false) => "boundary:file+pending+lexer",
            });
        }
        // every way of writing the definition command (prefix.rs glue included); which one is a
        // function of the case so that replays are stable
        let def_cmd = ["\\def", "\\gdef", "\\long\\def", "\\global\\def", "\\long\\gdef", "\\global\\long\\def"]
            [(r.def_toks.len() + 3 * input.len()) % 6];
        out.tag(format!("def-command:{}", def_cmd.replace('\\', "/")));
        // a global definition made inside a group and called after it
        let grouped = r.def_res == "ok" && (def_cmd.contains("gdef") || def_cmd.contains("global")) && (r.def_toks.len() + input.len()) % 2 == 0;
        if grouped {
            out.tag("def-command:global-inside-a-group");
        }
        let mut def_src = format!("{def_cmd}{name}");
        if !needs_symbol {
            if let Some(T::Ch(c)) = r.def_toks.first() {
                if c.is_ascii_alphabetic() {
                    def_src.push(' ');
                }
            }
        }
        if wrapped {
            render_wrapped(&r.def_toks, &mut def_src);
        } else {
            render(&r.def_toks, &mut def_src);
        }
        if grouped {
            def_src = format!("{{{def_src}}}");
        }
        let mut call_src = String::from(name);
        if !needs_symbol {
            if let Some(T::Ch(c)) = after_name.first() {
                if c.is_ascii_alphabetic() {
                    call_src.push(' ');
                }
            }
        }
        if wrapped {
            render_wrapped(after_name, &mut call_src);
        } else {
            render(after_name, &mut call_src);
        }
        // first line: no end-of-line character, so that the source ends exactly with the input
        let mut inner_files: Option<(String, String)> = None;
        let (toks_src, direct_src) = match mode {
            Mode::Wrapped => (
                format!("\\endlinechar=-1 \n\\def\\W#1{{{def_src}\\toks0\\expandafter{{{call_src}}}}}\\W{{ }}"),
                format!("\\endlinechar=-1 \n\\def\\W#1{{{def_src}{call_src}}}\\W{{ }}"),
            ),
            Mode::Plain => (
                format!("\\endlinechar=-1 \n{def_src}\\toks0\\expandafter{{{call_src}}}"),
                format!("\\endlinechar=-1 \n{def_src}{call_src}"),
            ),
            Mode::Expandable => {
                let pre = "\\let\\l\\def\\def\\x{?}\\def\\y#1{!}";
                // The token-register run has no preamble (`\\x`, `\\y`, `\\l` stay undefined):
                // assigning to a register expands what it reads (`Vec<Token>::parse` scans an
                // expanding stream), so it cannot show *when* a macro was expanded; it still
                // shows the braces exactly. The direct run is the one with live macros.
                (
                    format!("\\endlinechar=-1 \n{def_src}\\toks0\\expandafter{{{call_src}}}"),
                    format!("\\endlinechar=-1 \n{pre}{def_src}{call_src}"),
                )
            }
            Mode::File(i, j) => {
                let mut pending = String::new();
                {
                    // body of a macro: `#` doubled
                    let p1 = &input[i..j];
                    let mut k = 0;
                    while k < p1.len() {
                        if p1[k] == T::Param {
                            pending.push_str("##");
                            k += 1;
                        } else {
                            let e = (k..p1.len()).find(|x| p1[*x] == T::Param).unwrap_or(p1.len());
                            render(&p1[k..e], &mut pending);
                            k = e;
                        }
                    }
                }
                let mut lexer = String::new();
                render(&input[j..], &mut lexer);
                inner_files = Some((format!("{def_src}\\toks0\\expandafter{{{call_src}"), format!("{def_src}{call_src}")));
                (
                    format!("\\endlinechar=-1 \n\\def\\?{{\\input inner {pending}}}\\?{lexer}}}"),
                    format!("\\endlinechar=-1 \n\\def\\?{{\\input inner {pending}}}\\?{lexer}"),
                )
            }
        };

        let runs = vec![("toks", true, toks_src), ("direct", false, direct_src)];
        let observed: Vec<Result<Obs, String>> = runs
            .iter()
            .map(|(_, toks_mode, src)| match (&inner_files, *toks_mode) {
                (Some((inner_toks, _)), true) => run_tex_files(src, inner_toks),
                (Some((_, inner_direct)), false) => run_tex_files(src, inner_direct),
                (None, _) => {
                    let mut o = run_tex(src);
                    if mode == Mode::Expandable {
                        if let Ok(o) = o.as_mut() {
                            for t in o.toks0.iter_mut().chain(o.seen.iter_mut()) {
                                match (*t, *toks_mode) {
                                    (T::Ch(';'), false) => *t = T::Cs('x'),
                                    (T::Ch(':'), false) => *t = T::Cs('y'),
                                    _ => {}
                                }
                            }
                        }
                    }
                    o
                }
            })
            .collect();
        // The known defect C02-a is only named when *every* run of the case (the exact token
        // register as well as the handler stream) shows exactly what the unpatched trimming
        // predicate predicts, and that differs from the patched prediction.
        let shows_old = r.def_res == "ok"
            && r.old != r.call
            && runs.iter().zip(observed.iter()).all(|((_, toks_mode, _), o)| match o {
                Ok(obs) => Self::diff(obs, *toks_mode, &r.old, &r.old_proj) == Some(None),
                Err(_) => false,
            });
        for ((stream, toks_mode, src), obs) in runs.iter().zip(observed.into_iter()) {
            let obs = match obs {
                Ok(o) => o,
                Err(p) => {
                    out.fail(Kind::ImplPanic, stream, format!("panic {}", strip_msg(&p)), format!("source: {src}\npanic: {p}"));
                    continue;
                }
            };
            if let Some(e) = &obs.err {
                out.tag(format!("{stream}:err:{}", e.split(':').next().unwrap_or(e)));
            } else {
                out.tag(format!("{stream}:ok"));
            }
            let src = &match (&inner_files, *toks_mode) {
                (Some((it, _)), true) => format!("{src}\ninner.tex: {it}"),
                (Some((_, id)), false) => format!("{src}\ninner.tex: {id}"),
                _ => src.clone(),
            };
            let shown = format!(
                "source: {src}\nimpl: err={:?} register0=[{}] delivered=[{}]",
                obs.err,
                words(&obs.toks0),
                words(&obs.seen)
            );
            // I vs M
            let (pred, proj) = if r.def_res == "ok" { (r.call.as_str(), r.call_proj.as_str()) } else { (r.def_res.as_str(), "-") };
            if let Some(Some(d)) = Self::diff(&obs, *toks_mode, pred, proj) {
                let is_known = shows_old;
                let sig = if is_known { C02A_SIG.to_string() } else { format!("{stream}: {}", d.split(':').next().unwrap_or(&d)) };
                out.fail(Kind::ImplVsModel, stream, sig, format!("{shown}\nmodel: {pred}\ndifference: {d}"));
            }
            // I vs S (verdict computed by Lean on the observed tokens)
            if let (Some(sec), Some(spec)) = (sections, &r.spec) {
                let spec_out = parse_toks(spec.strip_prefix("some").unwrap());
                let verdict = if *toks_mode {
                    if !balanced(&spec_out) {
                        continue;
                    }
                    if obs.err.is_some() || !obs.seen.is_empty() {
                        "bad".to_string()
                    } else {
                        drv.ask(&format!("chk {sec} O {}", words(&obs.toks0)))
                    }
                } else {
                    match &obs.err {
                        Some(e) if e != "no-group-to-end" => "bad".to_string(),
                        e => drv.ask(&format!("chkd {sec} Q {}{}", words(&obs.seen), if e.is_some() { " X" } else { "" })),
                    }
                };
                if verdict != "ok" {
                    let sig = if shows_old {
                        C02A_SIG.to_string()
                    } else {
                        let d = Self::diff(&obs, *toks_mode, spec.replacen("some", "ok", 1).as_str(), r.spec_proj.as_deref().unwrap_or("-"))
                            .flatten()
                            .unwrap_or_else(|| "?".into());
                        format!("{stream}: {}", d.split(':').next().unwrap_or(&d))
                    };
                    out.fail(Kind::ImplVsSpec, stream, sig, format!("{shown}\nTeX: {spec}\nverdict: {verdict}"));
                }
            }
        }
        // M vs S
        if let Some(spec) = &r.spec {
            let want = spec.replacen("some", "ok", 1);
            if r.def_res != "ok" || r.call != want {
                out.fail(Kind::ModelVsSpec, "model", "model differs from spec", format!("model: {} / {}\nspec: {spec}", r.def_res, r.call));
            }
        }
    }
}

impl Property for C02 {
    fn id(&self) -> &'static str {
        "C02"
    }
    fn rule(&self) -> String {
        "s: parameter text = prefix (0-2 tokens) x 0..9 parameters, each undelimited or delimited by 1-5 tokens (3-token alphabet plus self-overlapping patterns), optional #{; \
         replacement text over literals, groups, #1..#9, ##; input = per parameter an argument from a grammar of balanced lists (empty, one token, one group, several groups, nested, leading space, \
         delimiter inside braces, proper prefix of the delimiter) followed by the delimiter, then a balanced rest; 1 in 8 inputs damaged (token dropped/inserted, truncated). \
         Exhaustive: 10 fixed macros x every input of length <= 5 (6 thorough) over { } a . _ . \
         w: the same product, not normalised and with extra space tokens (runs of 2-4 spaces before arguments, after control words, at the ends, inside delimiters/prefix/replacement), \
         plus every exhaustive input the lexer cannot produce, rendered as the body of a wrapper macro \\W#1{..} called as \\W{ } (space tokens written #1), so that token lists only expansion can produce reach Macro::call and \\def. \
         KMP: every delimiter over {a,b} of length <= 6 (8 thorough) x every argument P[..i]++P[j..] glued from a prefix and a suffix of the delimiter, every argument over {a,b} of length <= 8 for delimiters of length <= 5 (thorough), \
         and structured long delimiters (a^k b^m, (ab)^k a, (aab)^k, random, length <= 10) with arguments glued from random factors; four parameter-text shapes around them. \
         x: the same product with \\x and \\y (macros - one with a parameter - while the call scans its arguments, redefined by the replacement text before #n is used) inside and between the arguments, \
         exhaustively for 5 macros x inputs of length <= 4 (5 thorough) over { } \\x \\y . ; the handler stream shows whether a bound token was expanded early. \
         f: the call sits at the end of a file read by the real \\input (in-memory file system); the input is split file | pending tokens of the enclosing source | its lexer, \
         every split of every input of length <= 3 (4 thorough) for 5 macros, then random splits of the random product. \
         r: raw definition texts (exhaustive short ones over # 1 2 { } a, random longer ones, 9/10 parameters) with a short call. \
         Every case: real lexer, real \\def or \\gdef, real expansion, observed twice (token register, handler stream). \
         Non-trivial = the macro has at least one parameter and the call matches (spec verdict available) or the definition is rejected; distinct = distinct case string."
            .into()
    }
    fn builtin_corpus(&self) -> Vec<String> {
        let mut v: Vec<String> = vec![
            // C02-a and neighbours
            "s P D . N B [ #1 ] I { x } { y } .",
            "s P D . N B [ #1 ] I { x } .",
            "s P D . N B [ #1 ] I { x } { y } . z",
            "s P D . N B [ #1 ] I { { x } { y } } .",
            "s P D . N B [ #1 ] I { x } y { z } .",
            "s P D . N B [ #1 ] I { } { } .",
            "s P D . N B [ #1 ] I _ { x } .",
            "s P D . N B [ #1 ] I { x } _ .",
            "s P D . N B [ #1 ] I .",
            "s P D . N B [ #1 ] I { . } .",
            "s P D . N B [ #1 ] I } { .",
            "s P D . N B [ #1 ] I { x .",
            "s P D . N B [ #1 ] I x",
            // undelimited
            "s P D N B [ #1 ] I _ x y",
            "s P a D N B [ #1 ] I a _ x y",
            "s P a D N B [ #1 ] I a _ { x _ } y",
            "s P D N B [ #1 ] I { { x } } y",
            "s P D N B [ #1 ] I { x",
            "s P D N B [ #1 ] I",
            "s P D N B [ #1 ] I }",
            "s P D D N B #2 #1 ## I { a b } { . } z",
            // prefix
            "s P a . N B x I a . z",
            "s P a . N B x I a z",
            "s P a . N B x I a",
            // #{
            "s P D H B [ #1 ] I x y { z }",
            "s P D . H B [ #1 ] I x . y . { z }",
            "s P D . H B [ #1 ] I x { . { } } . { z }",
            "s P a H B x I a { z }",
            "s P H B x I { z }",
            "s P D D H B #1 - #2 I x y z { w }",
            // KMP fallbacks
            "s P D a a . N B [ #1 ] I a a a . z",
            "s P D a . a . a N B [ #1 ] I a . a . a . a . a z",
            "s P D a . a b N B [ #1 ] I a . a . a b z",
            // expandable tokens inside arguments stay unexpanded until the replacement is executed
            "x P D N B \\l \\x { ; } \\l \\y { : } [ #1 ] I { \\x } z",
            "x P D D . N B \\l \\x { ; } \\l \\y { : } [ #1 , #2 ] I { \\y } { a \\x } . \\x",
            "x P D . D N B \\l \\x { ; } \\l \\y { : } [ #1 ] [ #2 ] I { \\x } \\y . { { \\y } \\x } \\y",
            // the call at the end of an input file, arguments in the enclosing source
            "f P D D N B [ #1 , #2 ] I F { x } y F z",
            "f P D N B [ #1 ] I F { x } y F z",
            "f P D D . N B [ #1 , #2 ] I { x F a F y } z . w",
            "f P D . N B [ #1 ] I F F x . y",
            "f P D . N B [ #1 ] I a F b F c . d",
            // token lists only expansion can produce (wrapper stream)
            "w P D N B [ #1 ] I _ _ x y",
            "w P D D N B [ #1 , #2 ] I _ _ _ x _ _ { y } z",
            "w P D N B [ #1 ] I \\x _ _ y",
            "w P \\x _ D . N B [ #1 ] I \\x _ a . _",
            "w P D _ _ D N B [ #1 , #2 ] I a _ _ _ _ b",
            "w P D . N B _ _ #1 _ I _ { x } _ . _",
            // long self-overlapping delimiters with near misses
            "s P D a a a b b N B [ #1 ] I a a a b a a b b a a a b b b",
            "s P D a b a b a a N B [ #1 ] I a b a b a b a a b a b a b a a z",
            "s P D a a b a a b b N B [ #1 ] I a a b a a b a a b a a b b z",
            // nine parameters
            "s P D D D D D D D D D N B #9 #8 #7 #6 #5 #4 #3 #2 #1 I 1 2 3 4 5 6 7 8 9 z",
            "s P D . D , D . D , D . D , D . D , D . N B #9 #1 I 1 . 2 , 3 . 4 , 5 . 6 , 7 . 8 , { 9 } . z",
            // raw definitions: error paths
            "r # 1 # 2 # 3 # 4 # 5 # 6 # 7 # 8 # 9 # 1 { } I x",
            "r # 1 # 3 { } I x",
            "r # 2 { } I x",
            "r # # { } I x",
            "r # a { } I x",
            "r # \\x { } I x",
            "r # 1 { # 2 } I x",
            "r # 1 { # a } I x",
            "r # 1 { # { } } I x",
            "r # 1 { # } I x",
            "r # 1 { # _ } I x",
            "r } I x",
            "r # 1 } I x",
            "r # 1 I",
            "r # I",
            "r I",
            "r # 1 { a I",
            "r # 1 { a # I",
            "r # 1 { { } I",
            "r # 1 { # 1 # # } I { # }",
            "r a # 1 . # 2 # { # 2 # 1 } I a x . y { z }",
        ]
        .into_iter()
        .map(String::from)
        .collect();
        v.push("s P N B I".into());
        v
    }
    fn generate(&mut self, ctx: &Ctx, rng: &mut Rng) -> Vec<String> {
        let mut v = vec![];
        // exhaustive small scope
        let macros = [
            "P D . N B [ #1 ]",
            "P D N B [ #1 ]",
            "P D D . N B [ #1 ## #2 ]",
            "P D . D N B [ #2 , #1 ]",
            "P D a . N B [ #1 ]",
            "P D . H B [ #1 ]",
            "P D H B [ #1 ]",
            "P a D . . N B [ #1 ]",
            "P D a a N B [ #1 ]",
            "P . H B [ ]",
        ];
        let alpha = [T::Bg, T::Eg, T::Ch('a'), T::Ch('.'), T::Sp];
        let max_len = if ctx.thorough { 6 } else { 5 };
        for (mi, m) in macros.iter().enumerate() {
            // quick: the longest inputs only for the first six macros
            let max_len = if !ctx.thorough && mi >= 6 { max_len - 1 } else { max_len };
            for len in 0..=max_len {
                let total = (alpha.len() as u64).pow(len as u32);
                for idx in 0..total {
                    let mut x = idx;
                    let ts: Vec<T> = (0..len)
                        .map(|_| {
                            let t = alpha[(x % alpha.len() as u64) as usize];
                            x /= alpha.len() as u64;
                            t
                        })
                        .collect();
                    if !representable(&ts, false) || ts.last() == Some(&T::Sp) {
                        // the lexer cannot produce this list: through the wrapper macro
                        // (which needs a balanced program)
                        if balanced(&ts) {
                            v.push(format!("w {m} I {}", words(&ts)).trim_end().to_string());
                        }
                        if !representable(&ts, false) {
                            continue;
                        }
                    }
                    v.push(format!("s {m} I {}", words(&ts)).trim_end().to_string());
                }
            }
        }
        // raw definition texts, exhaustive short ones
        let dalpha = [T::Param, T::Ch('1'), T::Ch('2'), T::Bg, T::Eg, T::Ch('a')];
        let dmax = if ctx.thorough { 6 } else { 5 };
        for len in 0..=dmax {
            let total = (dalpha.len() as u64).pow(len as u32);
            for idx in 0..total {
                let mut x = idx;
                let ts: Vec<T> = (0..len)
                    .map(|_| {
                        let t = dalpha[(x % dalpha.len() as u64) as usize];
                        x /= dalpha.len() as u64;
                        t
                    })
                    .collect();
                v.push(format!("r {} I a {{ 1 }} 2 a", words(&ts)).replace("  ", " "));
            }
        }
        let (n_s, n_r, n_w) = if ctx.thorough { (150_000, 30_000, 60_000) } else { (10_000, 3_000, 4_000) };
        let mut r = rng.fork();
        for _ in 0..n_s {
            v.push(Self::gen_spec(&mut r).line());
        }
        // the call (and the definition) produced by expansion of a wrapper macro
        let mut r = rng.fork();
        for _ in 0..n_w {
            v.push(Self::gen_wrapped(&mut r).line_k("w"));
        }
        // KMP stress
        let mut r = rng.fork();
        Self::gen_kmp(ctx.thorough, &mut r, &mut v);
        // expandable tokens in the arguments: exhaustive small scope, then random
        let pfx = Self::X_PREFIX.join(" ");
        let xmacros = [
            format!("P D N B {pfx} [ #1 ]"),
            format!("P D . N B {pfx} [ #1 ]"),
            format!("P D D N B {pfx} [ #2 , #1 ]"),
            format!("P D D . N B {pfx} [ #1 , #2 ]"),
            format!("P D H B {pfx} [ #1 ]"),
        ];
        let xalpha = [T::Bg, T::Eg, T::Cs('x'), T::Cs('y'), T::Ch('.')];
        let xmax = if ctx.thorough { 5 } else { 4 };
        for m in xmacros.iter() {
            for len in 1..=xmax {
                for idx in 0..(xalpha.len() as u64).pow(len as u32) {
                    let mut x = idx;
                    let ts: Vec<T> = (0..len)
                        .map(|_| {
                            let t = xalpha[(x % xalpha.len() as u64) as usize];
                            x /= xalpha.len() as u64;
                            t
                        })
                        .collect();
                    if !ts.iter().any(|t| matches!(t, T::Cs(_))) {
                        continue;
                    }
                    v.push(format!("x {m} I {}", words(&ts)));
                }
            }
        }
        let mut r = rng.fork();
        for _ in 0..(if ctx.thorough { 40_000 } else { 3_000 }) {
            v.push(Self::gen_expandable(&mut r).line_k("x"));
        }
        // the call at the end of an \\input file, its arguments in the enclosing source:
        // every split of every small input, then random
        let fmacros = ["P D N B [ #1 ]", "P D . N B [ #1 ]", "P D D N B [ #2 , #1 ]", "P D D . N B [ #1 , #2 ]", "P D . H B [ #1 ]"];
        let fmax = if ctx.thorough { 4 } else { 3 };
        for m in fmacros.iter() {
            for len in 1..=fmax {
                for idx in 0..(alpha.len() as u64).pow(len as u32) {
                    let mut x = idx;
                    let ts: Vec<T> = (0..len)
                        .map(|_| {
                            let t = alpha[(x % alpha.len() as u64) as usize];
                            x /= alpha.len() as u64;
                            t
                        })
                        .collect();
                    let c = SpecCase { input: ts.clone(), ..SpecCase::parse(m) };
                    for i in 0..=len {
                        for j in i..=len {
                            if (i, j) != (len, len) && Self::file_split_ok(&ts, i, j) {
                                v.push(Self::file_line(&c, i, j));
                            }
                        }
                    }
                }
            }
        }
        let mut r = rng.fork();
        for _ in 0..(if ctx.thorough { 40_000 } else { 3_000 }) {
            v.push(Self::gen_file(&mut r));
        }
        // raw: render a structured case, then damage the definition text
        let mut r = rng.fork();
        for _ in 0..n_r {
            let c = Self::gen_spec(&mut r);
            let mut d: Vec<T> = c.pre.clone();
            for (i, dl) in c.delims.iter().enumerate() {
                d.push(T::Param);
                d.push(T::Ch((b'1' + i as u8) as char));
                d.extend(dl.iter());
            }
            if c.hash_brace {
                d.push(T::Param);
            }
            d.push(T::Bg);
            for w in &c.body {
                match w.as_str() {
                    "##" => d.extend([T::Param, T::Param]),
                    w if w.len() == 2 && w.starts_with('#') => d.extend([T::Param, T::Ch(w.chars().nth(1).unwrap())]),
                    w => d.push(tok_of_word(w).unwrap()),
                }
            }
            d.push(T::Eg);
            for _ in 0..1 + r.below(2) {
                let k = r.below(d.len() as u64) as usize;
                match r.below(4) {
                    0 => {
                        d.remove(k);
                    }
                    1 => d.insert(k, *r.pick(&[T::Param, T::Bg, T::Eg, T::Ch('1'), T::Ch('3'), T::Sp, T::Ch('a')])),
                    2 => d[k] = *r.pick(&[T::Param, T::Ch('2'), T::Ch('9'), T::Ch('a')]),
                    _ => {}
                }
            }
            let mut c2 = SpecCase { pre: d, delims: vec![], hash_brace: false, body: vec![], input: c.input.clone() };
            Self::normalise(&mut c2);
            v.push(format!("r {} I {}", words(&c2.pre), words(&c2.input)).replace("  ", " ").trim_end().to_string());
        }
        v
    }

    fn run_case(&mut self, case: &str, drv: &mut Driver) -> CaseOutcome {
        let mut out = CaseOutcome::default();
        let (cmd, rest) = case.split_once(' ').unwrap_or((case, ""));
        match cmd {
            "s" | "w" | "x" | "f" => {
                let wrapped = cmd == "w";
                // `f`: the input carries two `F` marks (end of the file part, end of the pending part)
                let mut marks: Vec<usize> = vec![];
                let cleaned: String = if cmd == "f" {
                    let mut n = 0usize;
                    let mut in_input = false;
                    let mut ws = vec![];
                    for w in rest.split_ascii_whitespace() {
                        if w == "I" {
                            in_input = true;
                        } else if w == "F" {
                            marks.push(n);
                            continue;
                        } else if in_input {
                            n += 1;
                        }
                        ws.push(w);
                    }
                    while marks.len() < 2 {
                        marks.push(n);
                    }
                    ws.join(" ")
                } else {
                    rest.to_string()
                };
                let rest = cleaned.as_str();
                let mut c = SpecCase::parse(rest);
                if cmd == "s" || cmd == "x" {
                    Self::normalise(&mut c);
                }
                let mode = match cmd {
                    "w" => Mode::Wrapped,
                    "x" => Mode::Expandable,
                    "f" => Mode::File(marks[0].min(c.input.len()), marks[1].max(marks[0]).min(c.input.len())),
                    _ => Mode::Plain,
                };
                if mode == Mode::Expandable {
                    // the redefinitions must open the replacement text (else `\\x` is still the
                    // scan-time macro when the expansion is executed): not a case of this stream
                    let ok = c.body.len() >= Self::X_PREFIX.len() && c.body.iter().zip(Self::X_PREFIX.iter()).all(|(a, b)| a == b);
                    if !ok {
                        out.tag("skipped:not-an-expandable-stream-case");
                        return out;
                    }
                    out.tag("stream:expandable-tokens-in-arguments");
                    if c.input.contains(&T::Cs('y')) {
                        out.tag("input:macro-with-parameter");
                    }
                }
                // `f` and `w` cases ask for the *stream* model (Model/C02Stream.lean: sources,
                // pending stacks, lexers), the others for the list model; the theorem
                // `stream_call_refines` says the two agree
                let line = match mode {
                    Mode::File(i, j) => Self::file_line(&c, i, j).replacen("f ", "st ", 1),
                    Mode::Wrapped => Self::file_line(&c, 0, c.input.len()).replacen("f ", "st ", 1),
                    _ => c.line(),
                };
                if line.starts_with("st ") {
                    out.tag("model:stream");
                }
                let reply = drv.ask(&line);
                let f: Vec<&str> = reply.split('|').map(|s| s.trim()).collect();
                if f.len() != 8 {
                    panic!("driver reply malformed: {reply} (request {line})");
                }
                let r = ModelReply {
                    def_toks: parse_toks(f[0]),
                    def_res: f[1].into(),
                    call: f[2].into(),
                    call_proj: f[3].into(),
                    old: f[4].into(),
                    old_proj: f[5].into(),
                    spec: if f[6] == "none" { None } else { Some(f[6].into()) },
                    spec_proj: if f[6] == "none" { None } else { Some(f[7].into()) },
                };
                // tags: the shape of the case
                out.tag(format!("params:{}", c.delims.len()));
                for d in &c.delims {
                    out.tag(if d.is_empty() { "param:undelimited" } else { "param:delimited" });
                }
                if c.hash_brace {
                    out.tag("hash-brace");
                }
                if !c.pre.is_empty() {
                    out.tag("prefix");
                }
                if c.body.iter().any(|w| w == "##") {
                    out.tag("body:##");
                }
                out.tag(match (&r.spec, r.call.starts_with("ok")) {
                    (Some(_), _) => "call:matches",
                    (None, true) => "call:no-spec-match-but-model-ok",
                    (None, false) => "call:no-match",
                });
                if r.call.starts_with("err") {
                    out.tag(format!("model:{}", model_err_class(&r.call)));
                }
                if r.old != r.call {
                    out.tag("trim:old-and-new-differ");
                }
                out.nontrivial = !c.delims.is_empty() && r.spec.is_some();
                let sec = c.sections();
                if wrapped {
                    let run = |ts: &[T]| ts.windows(2).any(|w| w[0] == T::Sp && w[1] == T::Sp);
                    if run(&c.input) {
                        out.tag("input:run-of-spaces");
                    }
                    if c.input.windows(2).any(|w| matches!(w[0], T::Cs(x) if x.is_ascii_alphabetic()) && w[1] == T::Sp) {
                        out.tag("input:space-after-control-word");
                    }
                    if c.input.last() == Some(&T::Sp) {
                        out.tag("input:trailing-space");
                    }
                    if c.delims.iter().any(|d| run(d)) || run(&c.pre) {
                        out.tag("parameter-text:run-of-spaces");
                    }
                }
                if c.delims.iter().any(|d| d.len() >= 5) {
                    out.tag("delimiter:length>=5");
                }
                if c.input.len() >= 64 {
                    out.tag("input:length>=64");
                }
                {
                    let (mut d, mut m) = (0i64, 0i64);
                    for t in &c.input {
                        match t {
                            T::Bg => d += 1,
                            T::Eg => d -= 1,
                            _ => {}
                        }
                        m = m.max(d);
                    }
                    if m >= 16 {
                        out.tag("input:nesting>=16");
                    }
                }
                self.compare(&mut out, &r, &c.input, Some(&sec), drv, mode);
            }
            "r" => {
                let (d, i) = split_raw(rest);
                let mut c = SpecCase { pre: d, delims: vec![], hash_brace: false, body: vec![], input: i };
                Self::normalise(&mut c);
                let line = format!("r {} I {}", words(&c.pre), words(&c.input));
                let reply = drv.ask(&line);
                let f: Vec<&str> = reply.split('|').map(|s| s.trim()).collect();
                if f.len() != 5 {
                    panic!("driver reply malformed: {reply} (request {line})");
                }
                let r = ModelReply {
                    def_toks: c.pre.clone(),
                    def_res: f[0].into(),
                    call: f[1].into(),
                    call_proj: f[2].into(),
                    old: f[3].into(),
                    old_proj: f[4].into(),
                    spec: None,
                    spec_proj: None,
                };
                out.tag(if r.def_res == "ok" { "def:ok".to_string() } else { format!("def:{}", r.def_res.replace(' ', ":")) });
                if r.call.starts_with("err") {
                    out.tag(format!("model:{}", model_err_class(&r.call)));
                }
                out.nontrivial = r.def_res != "ok" || r.call.starts_with("ok");
                self.compare(&mut out, &r, &c.input, None, drv, Mode::Plain);
            }
            _ => panic!("bad case {case}"),
        }
        out
    }

    fn shrink(&self, case: &str) -> Vec<String> {
        let (cmd, rest) = case.split_once(' ').unwrap_or((case, ""));
        let mut v = vec![];
        match cmd {
            "f" => {
                let mut marks = vec![];
                let mut n = 0usize;
                let mut in_input = false;
                let mut ws = vec![];
                for w in rest.split_ascii_whitespace() {
                    if w == "I" {
                        in_input = true;
                    } else if w == "F" {
                        marks.push(n);
                        continue;
                    } else if in_input {
                        n += 1;
                    }
                    ws.push(w);
                }
                while marks.len() < 2 {
                    marks.push(n);
                }
                let c = SpecCase::parse(&ws.join(" "));
                for k in 0..c.input.len() {
                    let mut h = c.clone();
                    h.input.remove(k);
                    let i = if k < marks[0] { marks[0] - 1 } else { marks[0] };
                    let j = if k < marks[1] { marks[1] - 1 } else { marks[1] };
                    v.push(Self::file_line(&h, i, j.max(i)));
                }
                for k in 0..c.body.len() {
                    let mut h = c.clone();
                    h.body.remove(k);
                    v.push(Self::file_line(&h, marks[0], marks[1]));
                }
            }
            "s" | "w" | "x" => {
                let c = SpecCase::parse(rest);
                // long inputs first: cut whole groups, or one pair of braces around a group
                if c.input.len() > 12 {
                    let mut stack = vec![];
                    let mut pairs = vec![];
                    for (k, t) in c.input.iter().enumerate() {
                        match t {
                            T::Bg => stack.push(k),
                            T::Eg => {
                                if let Some(o) = stack.pop() {
                                    pairs.push((o, k));
                                }
                            }
                            _ => {}
                        }
                    }
                    pairs.sort_by_key(|(o, k)| std::cmp::Reverse(k - o));
                    for (o, k) in pairs.iter().take(40) {
                        let mut h = c.clone();
                        h.input.drain(*o..=*k);
                        v.push(h.line_k(cmd));
                        let mut h = c.clone();
                        h.input.remove(*k);
                        h.input.remove(*o);
                        v.push(h.line_k(cmd));
                    }
                    for chunk in [c.input.len() / 2, c.input.len() / 4, 8] {
                        let mut at = 0;
                        while at + chunk <= c.input.len() && v.len() < 200 {
                            let mut h = c.clone();
                            h.input.drain(at..at + chunk);
                            v.push(h.line_k(cmd));
                            at += chunk;
                        }
                    }
                }
                // drop single input tokens, body items, prefix tokens, delimiter tokens
                if c.input.len() > 1 {
                    let mut h = c.clone();
                    h.input.truncate(c.input.len() / 2);
                    v.push(h.line_k(cmd));
                }
                for i in 0..c.input.len() {
                    let mut h = c.clone();
                    h.input.remove(i);
                    v.push(h.line_k(cmd));
                }
                for i in 0..c.body.len() {
                    let mut h = c.clone();
                    h.body.remove(i);
                    v.push(h.line_k(cmd));
                }
                for i in 0..c.pre.len() {
                    let mut h = c.clone();
                    h.pre.remove(i);
                    v.push(h.line_k(cmd));
                }
                for (k, d) in c.delims.iter().enumerate() {
                    for i in 0..d.len() {
                        let mut h = c.clone();
                        h.delims[k].remove(i);
                        v.push(h.line_k(cmd));
                    }
                }
                if c.hash_brace {
                    let mut h = c.clone();
                    h.hash_brace = false;
                    v.push(h.line_k(cmd));
                }
            }
            "r" => {
                let (d, i) = split_raw(rest);
                for k in 0..d.len() {
                    let mut h = d.clone();
                    h.remove(k);
                    v.push(format!("r {} I {}", words(&h), words(&i)).replace("  ", " ").trim_end().to_string());
                }
                for k in 0..i.len() {
                    let mut h = i.clone();
                    h.remove(k);
                    v.push(format!("r {} I {}", words(&d), words(&h)).replace("  ", " ").trim_end().to_string());
                }
            }
            _ => {}
        }
        v
    }
}

fn main() {
    if let Ok(src) = std::env::var("C02_EXPLORE") {
        install_panic_hook();
        match run_tex(&src) {
            Ok(o) => println!("err={:?}\nregister0=[{}]\ndelivered=[{}]", o.err, words(&o.toks0), words(&o.seen)),
            Err(p) => println!("panic {p}"),
        }
        return;
    }
    run(C02);
}
