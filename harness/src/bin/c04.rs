//! C04 — line breaking finds a solution iff one exists, and it is demerit-optimal.
//!
//! Case: `kp <force> <looseness> <inst>` with `<inst>` encoded as in `lean/Driver/C04.lean`.
//! The real `LineBreaker::break_line_single_attempt` is run on the list with a collecting
//! `debug::Logger`; the returned breakpoints and every logged candidate line are sent to the
//! Lean driver, which decides the property with the proved-optimal reference (`verdict=`) and
//! re-rates every candidate line (`cand=`, the tie between the spec's badness/demerits and the code).
//! Cases `bl <q> <pretol> <parfillskip×4> <nH> (pos pre)* <inst>` (stream `passes`) drive the user-level
//! `boxworks::LineBreaker::break_line`: TeX.2021.816 list preparation, the pretolerance / tolerance /
//! emergency passes with a test hyphenator in between, and `post_line_break`'s line boxes.
//! The driver also runs `C04.algo`, the Lean transcription of the active-list algorithm about which
//! `algo_sound` / `algo_optimal` are proved, on the same instance: its break list must be exactly the
//! real one (`algo=`, stream `algo`, `Kind::ImplVsModel`).

use boxworks::ds;
use boxworks_knuthplass as kp;
use common::{Glue, GlueOrder, Scaled};
use vh::*;

struct Repo;
impl boxworks::FontRepo for Repo {
    /// Character `x` of font `f` is `f` scaled points wide (so that any non-negative width can be a
    /// character or ligature node); other characters are 1000 sp per code point.
    fn width(&self, c: char, font: u32) -> Option<Scaled> {
        if c == 'x' {
            Some(Scaled(font as i32))
        } else {
            Some(Scaled((c as u32 as i32) * 1000))
        }
    }
    fn height(&self, _c: char, _font: u32) -> Option<Scaled> {
        None
    }
    fn depth(&self, _c: char, _font: u32) -> Option<Scaled> {
        None
    }
}
struct NoHyph;
impl boxworks::Hyphenator for NoHyph {
    fn hyphenate(&self, _list: &mut Vec<ds::Horizontal>) {}
}

#[derive(Clone, Debug, PartialEq)]
enum It {
    Box(i64),
    Inert,
    Glue(i64, i64, i64, i64),
    /// kind: 0 normal, 1 explicit, 2 accent, 3 math (only 1 is `explicit` in the model)
    Kern(i64, i64),
    Penalty(i64),
    Disc(Vec<i64>, Vec<i64>, i64),
    Math(bool),
}

#[derive(Clone, Debug)]
struct Inst {
    tol: i64,
    emerg: i64,
    line_pen: i64,
    hyph_pen: i64,
    exhyph_pen: i64,
    adj: i64,
    dbl: i64,
    fin: i64,
    left: [i64; 4],
    right: [i64; 4],
    widths: Vec<i64>,
    items: Vec<It>,
}

impl Inst {
    fn encode(&self) -> Vec<i64> {
        let mut v = vec![self.tol, self.emerg, self.line_pen, self.hyph_pen, self.exhyph_pen, self.adj, self.dbl, self.fin];
        v.extend(self.left);
        v.extend(self.right);
        v.push(self.widths.len() as i64);
        v.extend(&self.widths);
        v.push(self.items.len() as i64);
        for it in &self.items {
            match it {
                It::Box(w) => v.extend([0, *w]),
                It::Inert => v.push(1),
                It::Glue(w, st, so, sh) => v.extend([2, *w, *st, *so, *sh]),
                It::Kern(e, w) => v.extend([3, *e, *w]),
                It::Penalty(p) => v.extend([4, *p]),
                It::Disc(pre, post, r) => {
                    v.push(5);
                    v.push(pre.len() as i64);
                    v.extend(pre);
                    v.push(post.len() as i64);
                    v.extend(post);
                    v.push(*r);
                }
                It::Math(a) => v.extend([6, *a as i64]),
            }
        }
        v
    }
    fn decode(v: &[i64]) -> Inst {
        let mut i = 0;
        let mut nx = || {
            let x = v[i];
            i += 1;
            x
        };
        let tol = nx();
        let emerg = nx();
        let line_pen = nx();
        let hyph_pen = nx();
        let exhyph_pen = nx();
        let adj = nx();
        let dbl = nx();
        let fin = nx();
        let left = [nx(), nx(), nx(), nx()];
        let right = [nx(), nx(), nx(), nx()];
        let nw = nx();
        let widths = (0..nw).map(|_| nx()).collect();
        let ni = nx();
        let mut items = vec![];
        for _ in 0..ni {
            items.push(match nx() {
                0 => It::Box(nx()),
                1 => It::Inert,
                2 => It::Glue(nx(), nx(), nx(), nx()),
                3 => It::Kern(nx(), nx()),
                4 => It::Penalty(nx()),
                5 => {
                    let np = nx();
                    let pre = (0..np).map(|_| nx()).collect();
                    let nq = nx();
                    let post = (0..nq).map(|_| nx()).collect();
                    It::Disc(pre, post, nx())
                }
                6 => It::Math(nx() != 0),
                t => panic!("bad item tag {t}"),
            });
        }
        Inst { tol, emerg, line_pen, hyph_pen, exhyph_pen, adj, dbl, fin, left, right, widths, items }
    }
}

fn order(o: i64) -> GlueOrder {
    match o {
        0 => GlueOrder::Normal,
        1 => GlueOrder::Fil,
        2 => GlueOrder::Fill,
        _ => GlueOrder::Filll,
    }
}
fn glue(g: [i64; 4]) -> Glue {
    Glue { width: Scaled(g[0] as i32), stretch: Scaled(g[1] as i32), stretch_order: order(g[2]), shrink: Scaled(g[3] as i32), shrink_order: GlueOrder::Normal }
}
fn hbox(w: i64) -> ds::HBox {
    ds::HBox { width: Scaled(w as i32), ..Default::default() }
}

/// The concrete node behind an abstract "box" of width `w`: hbox, character, rule, vbox, ligature
/// (`sel` picks; characters and ligatures need a non-negative width).
fn box_node(w: i64, sel: usize) -> ds::Horizontal {
    match sel % 5 {
        1 if (0..=i32::MAX as i64).contains(&w) => ds::Horizontal::Char(ds::Char { char: 'x', font: w as u32 }),
        2 => ds::Horizontal::Rule(ds::Rule { width: Scaled(w as i32), ..Default::default() }),
        3 => ds::Horizontal::VBox(ds::VBox { width: Scaled(w as i32), ..Default::default() }),
        4 if (0..=i32::MAX as i64).contains(&w) => ds::Horizontal::Ligature(ds::Ligature {
            char: 'x',
            font: w as u32,
            original_chars: "xx".into(),
            includes_left_boundary: false,
            includes_right_boundary: false,
        }),
        _ => ds::Horizontal::HBox(hbox(w)),
    }
}

/// The same for the elements of a discretionary (which may also be kerns).
fn disc_elem(w: i64, sel: usize) -> ds::DiscretionaryElem {
    if sel % 6 == 5 {
        return ds::DiscretionaryElem::Kern(ds::Kern { width: Scaled(w as i32), kind: ds::KernKind::Normal });
    }
    match box_node(w, sel % 6) {
        ds::Horizontal::Char(c) => ds::DiscretionaryElem::Char(c),
        ds::Horizontal::Rule(r) => ds::DiscretionaryElem::Rule(r),
        ds::Horizontal::VBox(b) => ds::DiscretionaryElem::VBox(b),
        ds::Horizontal::Ligature(l) => ds::DiscretionaryElem::Ligature(l),
        ds::Horizontal::HBox(b) => ds::DiscretionaryElem::HBox(b),
        _ => unreachable!(),
    }
}

fn build_list(items: &[It]) -> Vec<ds::Horizontal> {
    let mut v: Vec<ds::Horizontal> = vec![];
    for (k, it) in items.iter().enumerate() {
        v.push(match it {
            // vary the concrete node kind behind "box" with the position
            It::Box(w) => box_node(*w, k),
            It::Inert => match k % 2 {
                0 => ds::Horizontal::Mark(ds::Mark { list: vec![] }),
                _ => ds::Horizontal::Adjust(ds::Adjust { list: vec![] }),
            },
            It::Glue(w, st, so, sh) => ds::Horizontal::Glue(ds::Glue { kind: ds::GlueKind::Normal, value: glue([*w, *st, *so, *sh]) }),
            It::Kern(e, w) => ds::Horizontal::Kern(ds::Kern {
                width: Scaled(*w as i32),
                kind: match *e {
                    1 => ds::KernKind::Explicit,
                    2 => ds::KernKind::Accent,
                    3 => ds::KernKind::Math,
                    _ => ds::KernKind::Normal,
                },
            }),
            It::Penalty(p) => ds::Horizontal::Penalty(ds::Penalty(*p as i32)),
            It::Disc(pre, post, r) => ds::Horizontal::Discretionary(ds::Discretionary {
                pre_break: pre.iter().enumerate().map(|(j, w)| disc_elem(*w, k + j)).collect(),
                post_break: post.iter().enumerate().map(|(j, w)| disc_elem(*w, k + j + 3)).collect(),
                replace_count: *r as u32,
            }),
            It::Math(a) => ds::Horizontal::Math(if *a { ds::Math::After } else { ds::Math::Before }),
        });
    }
    v
}

#[derive(Default)]
struct Log {
    /// node index -> (elem index or -1 for the start, line number, fitness class)
    nodes: Vec<(i64, i64, i64)>,
    last_elem: i64,
    /// a L pf b bad pen dem art
    cands: Vec<[i64; 8]>,
    /// every `log_new_active_node`, in order: elem, line, fitness class, total demerits, hyphenated, previous elem
    trace: Vec<[i64; 6]>,
    inconsistent: Option<String>,
}
impl kp::debug::Logger for Log {
    fn log_attempt(&mut self, _a: kp::debug::Attempt) {}
    fn log_feasible_breakpoint(&mut self, _list: &[ds::Horizontal], fb: kp::debug::FeasibleBreakpoint) {
        self.last_elem = fb.elem_index as i64;
        match self.nodes.get(fb.previous_node_index) {
            Some(&(a, l, pf)) => self.cands.push([a, l, pf, fb.elem_index as i64, fb.badness as i64, fb.penalty as i64, fb.demerits as i64, fb.artificial_demerits as i64]),
            None => self.inconsistent = Some(format!("feasible breakpoint refers to unknown node {}", fb.previous_node_index)),
        }
    }
    fn log_new_active_node(&mut self, an: kp::debug::NewActiveNode) {
        if an.node_index != self.nodes.len() {
            self.inconsistent = Some(format!("node index {} out of sequence", an.node_index));
        }
        match self.nodes.get(an.previous_node_index) {
            Some(&(prev_elem, _, _)) => self.trace.push([
                self.last_elem,
                an.line_number as i64,
                an.fitness_class as i64,
                an.total_demerits as i64,
                an.hyphenated as i64,
                prev_elem,
            ]),
            None => self.inconsistent = Some(format!("new active node refers to unknown node {}", an.previous_node_index)),
        }
        self.nodes.push((self.last_elem, an.line_number as i64, an.fitness_class as i64));
    }
}

fn run_real(inst: &Inst, force: bool, q: i64) -> (Option<Vec<usize>>, Log) {
    let params = kp::Params {
        adj_demerits: inst.adj as i32,
        double_hyphen_demerits: inst.dbl as i32,
        final_hyphen_demerits: inst.fin as i32,
        ex_hyphen_penalty: inst.exhyph_pen as i32,
        hyphen_penalty: inst.hyph_pen as i32,
        line_penalty: inst.line_pen as i32,
        looseness: q as i32,
        left_skip: glue(inst.left),
        right_skip: glue(inst.right),
        tolerance: inst.tol as i32,
        emergency_stretch: Scaled(inst.emerg as i32),
        ..kp::Params::plain_tex_defaults()
    };
    let widths: Vec<Scaled> = inst.widths.iter().map(|w| Scaled(*w as i32)).collect();
    let list = build_list(&inst.items);
    let mut log = Log::default();
    log.nodes.push((-1, 0, 2));
    log.last_elem = -1;
    let nohyph = NoHyph;
    let res = {
        let mut lb = kp::LineBreaker { params: &params, line_widths: &widths, line_indents: &[], debug_logger: Some(&mut log), hyphenator: &nohyph };
        lb.break_line_single_attempt(&list, &Repo, inst.tol as i32, Scaled(inst.emerg as i32), force)
    };
    (res, log)
}

/// Logger for the `passes` stream: which attempts ran, and the chain of breaks of the selected node.
#[derive(Default)]
struct PassLog {
    attempts: Vec<u8>,
    /// per node of the current attempt: (elem, previous node index)
    nodes: Vec<(usize, usize)>,
    last_elem: usize,
    selected: Option<usize>,
}
impl kp::debug::Logger for PassLog {
    fn log_attempt(&mut self, a: kp::debug::Attempt) {
        self.attempts.push(a.number());
        self.nodes.clear();
        self.nodes.push((0, 0));
        self.selected = None;
    }
    fn log_feasible_breakpoint(&mut self, _list: &[ds::Horizontal], fb: kp::debug::FeasibleBreakpoint) {
        self.last_elem = fb.elem_index;
    }
    fn log_new_active_node(&mut self, an: kp::debug::NewActiveNode) {
        self.nodes.push((self.last_elem, an.previous_node_index));
    }
    fn log_selected_node(&mut self, node_index: usize) {
        self.selected = Some(node_index);
    }
}

/// Test hyphenator: inserts `\discretionary{pre}{}{}` before the given positions of the list it is
/// handed (positions refer to that list before any insertion).
struct InsertHyph(Vec<(usize, i64)>);
impl boxworks::Hyphenator for InsertHyph {
    fn hyphenate(&self, list: &mut Vec<ds::Horizontal>) {
        let mut hs = self.0.clone();
        hs.sort();
        for (pos, pre) in hs.into_iter().rev() {
            if pos <= list.len() {
                list.insert(
                    pos,
                    ds::Horizontal::Discretionary(ds::Discretionary {
                        pre_break: vec![ds::DiscretionaryElem::HBox(hbox(pre))],
                        post_break: vec![],
                        replace_count: 0,
                    }),
                );
            }
        }
    }
}

struct PassRun {
    attempt: u8,
    breaks: Vec<usize>,
    final_len: usize,
    /// widths of the line boxes in the vertical list
    line_widths: Vec<i64>,
    /// natural widths of their contents
    line_naturals: Vec<i64>,
}

fn natural_width(list: &[ds::Horizontal]) -> i64 {
    use boxworks::FontRepo;
    list.iter()
        .map(|h| match h {
            ds::Horizontal::Char(c) => Repo.width(c.char, c.font).map_or(0, |w| w.0 as i64),
            ds::Horizontal::Ligature(c) => Repo.width(c.char, c.font).map_or(0, |w| w.0 as i64),
            ds::Horizontal::HBox(b) => b.width.0 as i64,
            ds::Horizontal::VBox(b) => b.width.0 as i64,
            ds::Horizontal::Rule(r) => r.width.0 as i64,
            ds::Horizontal::Glue(g) => g.value.width.0 as i64,
            ds::Horizontal::Kern(k) => k.width.0 as i64,
            _ => 0,
        })
        .sum()
}

/// The user-level entry point: `boxworks::LineBreaker::break_line` (TeX.2021.815-816, all passes, post_line_break).
fn run_passes(inst: &Inst, q: i64, pretol: i64, pf: [i64; 4], hyph: &[(usize, i64)]) -> Result<PassRun, String> {
    let params = kp::Params {
        adj_demerits: inst.adj as i32,
        double_hyphen_demerits: inst.dbl as i32,
        final_hyphen_demerits: inst.fin as i32,
        ex_hyphen_penalty: inst.exhyph_pen as i32,
        hyphen_penalty: inst.hyph_pen as i32,
        line_penalty: inst.line_pen as i32,
        looseness: q as i32,
        left_skip: glue(inst.left),
        right_skip: glue(inst.right),
        tolerance: inst.tol as i32,
        pre_tolerance: pretol as i32,
        emergency_stretch: Scaled(inst.emerg as i32),
        par_fill_skip: glue(pf),
        ..kp::Params::plain_tex_defaults()
    };
    let widths: Vec<Scaled> = inst.widths.iter().map(|w| Scaled(*w as i32)).collect();
    let mut list = build_list(&inst.items);
    let mut v_list: Vec<ds::Vertical> = vec![];
    let mut log = PassLog::default();
    let hy = InsertHyph(hyph.to_vec());
    {
        use boxworks::LineBreaker;
        let lb = kp::LineBreaker { params: &params, line_widths: &widths, line_indents: &[], debug_logger: Some(&mut log), hyphenator: &hy };
        lb.break_line(&Repo, &mut v_list, &mut list);
    }
    let attempt = *log.attempts.last().ok_or("no attempt was logged")?;
    let mut breaks = vec![];
    let mut idx = log.selected.ok_or("no node was selected")?;
    let mut guard = 0;
    while idx > 0 {
        let (elem, prev) = *log.nodes.get(idx).ok_or("selected chain leaves the logged nodes")?;
        breaks.push(elem);
        idx = prev;
        guard += 1;
        if guard > 100_000 {
            return Err("selected chain does not end".into());
        }
    }
    breaks.reverse();
    let line_widths = v_list.iter().filter_map(|v| if let ds::Vertical::HBox(h) = v { Some(h.width.0 as i64) } else { None }).collect();
    let line_naturals = v_list.iter().filter_map(|v| if let ds::Vertical::HBox(h) = v { Some(natural_width(&h.list)) } else { None }).collect();
    Ok(PassRun { attempt, breaks, final_len: list.len(), line_widths, line_naturals })
}

/// TeX.2021.108, used by the generators only (to place inputs on the class boundaries).
fn tex_badness(t: i64, s: i64) -> i64 {
    if t == 0 {
        return 0;
    }
    if s <= 0 {
        return 10000;
    }
    let r = if t <= 7_230_584 { t * 297 / s } else if s >= 1_663_497 { t / (s / 297) } else { t };
    if r > 1290 { 10000 } else { (r * r * r + 131072) / 262144 }
}

struct C04;

fn is_boxlike(it: &It) -> bool {
    // what a discretionary may replace: boxes and kerns (an explicit kern in the replaced
    // range is not a breakpoint, TeX.2021.869)
    matches!(it, It::Box(_) | It::Kern(_, _))
}

/// Keep `replace_count`s valid after items were removed.
fn fix_replace(items: &mut [It]) {
    for i in 0..items.len() {
        if let It::Disc(_, _, r) = &items[i] {
            let mut ok = 0;
            while ok < *r as usize && i + 1 + ok < items.len() && is_boxlike(&items[i + 1 + ok]) {
                ok += 1;
            }
            if let It::Disc(_, _, r) = &mut items[i] {
                *r = ok as i64;
            }
        }
    }
}

impl C04 {
    fn gen_inst(rng: &mut Rng, max_items: usize) -> Inst {
        let unit: i64 = if rng.chance(1, 2) { 65536 } else { 1 };
        let u = |x: i64| x * unit;
        let mut items = vec![];
        let n_words = 1 + rng.below(14) as usize;
        let sp = [u(3), u(5), u(4)];
        for wi in 0..n_words {
            if items.len() + 8 > max_items {
                break;
            }
            if rng.chance(1, 12) {
                items.push(It::Math(false));
            }
            let n_boxes = 1 + rng.below(3) as usize;
            if wi > 0 && rng.chance(1, 8) {
                // a word that starts with a font/accent kern: not discardable, belongs to the line
                items.push(It::Kern(*rng.pick(&[0, 0, 2, 3]), u(*rng.pick(&[5, 3, -2]))));
            }
            for bi in 0..n_boxes {
                items.push(It::Box(u(*rng.pick(&[4, 6, 6, 7, 9, 12, 20])) + if unit > 1 && rng.chance(1, 3) { rng.range(-500, 500) } else { 0 }));
                if bi + 1 < n_boxes && rng.chance(1, 3) {
                    // discretionary, possibly replacing the next box
                    // pre-break list: empty (\exhyphenpenalty), non-empty of total width 0 (one zero-width
                    // element, or elements that cancel: still \hyphenpenalty, TeX.2021.869 keys on emptiness),
                    // or of non-zero width — independent of the two penalties
                    let pre = match rng.below(12) {
                        0 | 1 => vec![],
                        2 => vec![u(1), u(2)],
                        3 | 4 => vec![0],
                        5 => {
                            let w = u(*rng.pick(&[1, 2, 5]));
                            vec![w, -w]
                        }
                        _ => vec![u(2)],
                    };
                    let post = match rng.below(8) {
                        0 => vec![u(*rng.pick(&[1, 3]))],
                        1 => vec![u(*rng.pick(&[2, 6, 9])), u(1)],
                        _ => vec![],
                    };
                    let r = match rng.below(8) {
                        0 | 1 => 1,
                        2 => 2,
                        _ => 0,
                    };
                    items.push(It::Disc(pre, post, r));
                    if r == 1 && rng.chance(1, 6) {
                        // replaced explicit kern directly before the inter-word glue
                        items.push(It::Kern(1, u(*rng.pick(&[1, 4, 8]))));
                        items.push(It::Glue(sp[0], u(2), 0, u(1)));
                        items.push(It::Box(u(6)));
                    } else if r == 2 {
                        // the discretionary replaces a (font) kern and a box, as after ligature/kern reconstitution
                        items.push(It::Kern(*rng.pick(&[0, 0, 2]), u(*rng.pick(&[-3, 4, 8]))));
                        items.push(It::Box(u(*rng.pick(&[4, 7]))));
                    }
                } else if bi + 1 < n_boxes && rng.chance(1, 6) {
                    items.push(It::Kern(*rng.pick(&[0, 0, 0, 2, 3]), u(*rng.pick(&[-1, 1]))));
                }
                if rng.chance(1, 25) {
                    items.push(It::Inert);
                }
            }
            if rng.chance(1, 12) {
                items.push(It::Math(true));
            }
            if wi + 1 == n_words {
                break;
            }
            // inter-word material: mostly one glue; sometimes runs of discardable items
            match rng.below(12) {
                0 => {
                    items.push(It::Penalty(*rng.pick(&[0, 50, -50, 200, 9999, 10000, 10001, -9999, -10000, -10001, -20000, 500])));
                    items.push(It::Glue(sp[0], u(2), 0, u(1)));
                }
                1 => {
                    items.push(It::Glue(sp[1], u(3), 0, u(1)));
                    items.push(It::Penalty(*rng.pick(&[0, -100, 300, -10000, -10001, -30000])));
                    items.push(It::Glue(sp[2], u(1), 0, u(1)));
                }
                2 => {
                    // mostly explicit (a breakpoint before glue); accent / math kerns are not (the glue after them is)
                    items.push(It::Kern(*rng.pick(&[1, 1, 1, 2, 3, 0]), u(*rng.pick(&[2, 5, -2]))));
                    items.push(It::Glue(sp[0], u(2), 0, u(1)));
                }
                3 => {
                    items.push(It::Glue(sp[0], u(2), 0, u(1)));
                    items.push(It::Kern(*rng.pick(&[1, 1, 1, 3]), u(3)));
                    items.push(It::Glue(sp[0], u(2), 0, u(1)));
                }
                4 => items.push(It::Glue(sp[1], u(*rng.pick(&[0, 1, 10])), *rng.pick(&[0, 0, 1, 2, 3]), u(*rng.pick(&[0, 2])))),
                5 => items.push(It::Penalty(*rng.pick(&[0, 100, -100, -10000, -10001]))),
                _ => items.push(It::Glue(*rng.pick(&sp), u(*rng.pick(&[1, 2, 3, 3])), 0, u(*rng.pick(&[0, 1, 1, 2])))),
            }
        }
        if rng.chance(9, 10) {
            if matches!(items.last(), Some(It::Glue(..))) {
                items.pop();
            }
            items.push(It::Penalty(10000));
            items.push(It::Glue(0, if rng.chance(9, 10) { 65536 } else { 0 }, 1, 0));
        }
        fix_replace(&mut items);
        let base = u(*rng.pick(&[25, 30, 40, 40, 50, 60, 80, 120]));
        let nw = 1 + rng.below(3) as usize;
        let widths = (0..nw).map(|k| base + if k > 0 { u(rng.range(-10, 10)) } else { 0 }).collect();
        let gl = |rng: &mut Rng| -> [i64; 4] {
            if rng.chance(3, 4) {
                [0, 0, 0, 0]
            } else {
                [u(*rng.pick(&[0, 1, 3])), u(*rng.pick(&[0, 2, 5])), *rng.pick(&[0, 0, 0, 1]), u(*rng.pick(&[0, 1]))]
            }
        };
        Inst {
            tol: *rng.pick(&[-1, 0, 50, 100, 200, 200, 200, 1000, 10000, 10000, 20000]),
            emerg: if rng.chance(1, 6) { u(*rng.pick(&[1, 5, 20])) } else { 0 },
            line_pen: *rng.pick(&[10, 10, 10, 0, 50, -10, 200]),
            hyph_pen: *rng.pick(&[50, 50, 0, -50, 500, 10000, -10000]),
            exhyph_pen: *rng.pick(&[50, 50, 0, 300, 10000]),
            adj: *rng.pick(&[10000, 10000, 0, -1000, 50]),
            dbl: *rng.pick(&[10000, 10000, 0, -200]),
            fin: *rng.pick(&[5000, 5000, 0, -200]),
            left: gl(rng),
            right: gl(rng),
            widths,
            items,
        }
    }

    fn small_alphabet() -> Vec<It> {
        vec![
            It::Box(10),
            It::Glue(5, 3, 0, 2),
            It::Penalty(0),
            It::Penalty(-10000),
            It::Kern(1, 2),
            It::Disc(vec![3], vec![], 0),
            It::Disc(vec![2], vec![4], 1),
        ]
    }
}

impl Property for C04 {
    fn id(&self) -> &'static str {
        "C04"
    }
    fn rule(&self) -> String {
        "Instances: (a) every list of length ≤ 4 (quick) / ≤ 5 (thorough) over a 7-item alphabet {box, glue, penalty 0, forced penalty, explicit kern, two discretionaries} \
         followed by the paragraph end, at tolerances {200, 10000}, force ∈ {0,1}; (b) random paragraphs of 1–14 words (boxes, discretionaries with replace counts, \
         font kerns, math on/off, runs of discardable items between words, finite and infinite stretch, 1–3 line widths, left/right skip, emergency stretch) × random \
         parameter settings × looseness ∈ {0,±1,±2} × force ∈ {0,1}; (c) a looseness stream: short paragraphs with finite stretch on the last line \
         (several end states per line count), looseness ∈ {±1,±2,0}; (d) a fitness-boundary stream: one or two lines engineered to have badness exactly 12/13/99/100 \
         (stretching) or 12/13 (shrinking) inside otherwise random paragraphs, several adj_demerits; (e) a badness-arithmetic stream of one-line paragraphs at the case \
         boundaries of TeX.2021.108; (f) stream `passes` (cases `bl …`): the user-level `break_line` on lists without the paragraph end (optional trailing glue), with \
         \\pretolerance, \\tolerance, \\emergencystretch, \\parfillskip and a test hyphenator that inserts discretionaries before the second pass; every pass is judged with \
         the proved reference for its own parameters, the attempt and break list are compared with the model of the three passes, and the line boxes with the breaks \
         (count, set width, natural width of the contents). Kerns come in all four kinds (normal, explicit, accent, math). The verdict is computed by Lean with the proved-optimal reference; instances outside the \
         quantifier (overfull not upward closed; totals that may reach 2^30) are skipped and counted. Non-trivial = inside the domain and with at least 2 legal \
         breakpoints; distinct = distinct case string."
            .into()
    }
    fn builtin_corpus(&self) -> Vec<String> {
        let base = Inst {
            tol: 10000, emerg: 0, line_pen: 10, hyph_pen: 50, exhyph_pen: 50, adj: 10000, dbl: 10000, fin: 5000,
            left: [0; 4], right: [0; 4], widths: vec![25], items: vec![],
        };
        let mut v = vec![];
        let mk = |items: Vec<It>| {
            let mut i = base.clone();
            i.items = items;
            format!("kp 0 0 {}", join(&i.encode()))
        };
        let end = || vec![It::Penalty(10000), It::Glue(0, 65536, 1, 0)];
        // C04-a: break at an explicit kern followed by glue (the kern must not count in the next line)
        let mut a = vec![It::Box(10), It::Glue(5, 3, 0, 2), It::Box(10), It::Kern(1, 4), It::Glue(5, 3, 0, 2), It::Box(10), It::Glue(5, 3, 0, 2), It::Box(12)];
        a.extend(end());
        v.push(mk(a));
        // C04-b: discardable items after a break (glue penalty glue) must not count in the next line
        let mut b = vec![It::Box(10), It::Glue(5, 3, 0, 2), It::Box(10), It::Glue(5, 3, 0, 2), It::Penalty(0), It::Glue(5, 3, 0, 2), It::Box(10), It::Glue(5, 3, 0, 2), It::Box(12)];
        b.extend(end());
        v.push(mk(b));
        v
    }
    fn generate(&mut self, ctx: &Ctx, rng: &mut Rng) -> Vec<String> {
        let mut v = vec![];
        // exhaustive small scope
        let alpha = Self::small_alphabet();
        let max_len = if ctx.thorough { 5 } else { 4 };
        let mut lists: Vec<Vec<It>> = vec![vec![]];
        let mut frontier: Vec<Vec<It>> = vec![vec![]];
        for _ in 0..max_len {
            let mut next = vec![];
            for l in &frontier {
                for a in &alpha {
                    let mut m = l.clone();
                    m.push(a.clone());
                    next.push(m);
                }
            }
            lists.extend(next.iter().cloned());
            frontier = next;
        }
        for l in lists {
            if l.is_empty() {
                continue;
            }
            let mut items = l;
            items.push(It::Penalty(10000));
            items.push(It::Glue(0, 65536, 1, 0));
            fix_replace(&mut items);
            for (tol, force) in [(10000, 0), (200, 0), (200, 1)] {
                let inst = Inst {
                    tol, emerg: 0, line_pen: 10, hyph_pen: 50, exhyph_pen: 50, adj: 10000, dbl: 10000, fin: 5000,
                    left: [0; 4], right: [0; 4], widths: vec![25], items: items.clone(),
                };
                v.push(format!("kp {force} 0 {}", join(&inst.encode())));
            }
        }
        // badness arithmetic stream (TeX.2021.108): one-line paragraphs `box glue` whose shortfall t and
        // stretch (or shrink) s sit at and around the case boundaries of the routine
        // (t = 7230584, s = 1663497, r = 1290, s multiples of 297), at tolerances around the result
        let n_bad = if ctx.thorough { 60_000 } else { 4_500 };
        let mut r = rng.fork();
        let ts: [i64; 12] = [1, 297, 7230583, 7230584, 7230585, 7249875, 8388608, 16777216, 100_000_000, 536_870_911, 1_000_000_000, 65536];
        let ss: [i64; 12] = [1, 296, 297, 298, 1663496, 1663497, 1663498, 5742197, 3_000_000, 30_000_000, 900_000_000, 65536];
        for k in 0..n_bad {
            let t = (*r.pick(&ts) + r.range(-3, 3) + if r.chance(1, 3) { r.range(0, 2_000_000) } else { 0 }).clamp(1, 1_000_000_000);
            let sv = (*r.pick(&ss) + r.range(-3, 3) + if r.chance(1, 3) { r.range(0, 2_000_000) } else { 0 }).clamp(0, 1_000_000_000);
            let width: i64 = 1_050_000_000;
            let stretch_side = k % 3 != 0;
            // box narrower (stretch) or wider (shrink) than the line by t
            let (boxw, glue) = if stretch_side { (width - t, It::Glue(0, sv, 0, 0)) } else { (width.min(1_000_000_000) + 0, It::Glue(0, 0, 0, sv)) };
            let (lw, boxw) = if stretch_side { (width, boxw) } else { (boxw - t.min(boxw - 1), boxw) };
            let inst = Inst {
                tol: *r.pick(&[0, 12, 13, 99, 100, 200, 201, 1000, 9999, 10000]),
                emerg: 0, line_pen: 10, hyph_pen: 50, exhyph_pen: 50, adj: 10000, dbl: 10000, fin: 5000,
                left: [0; 4], right: [0; 4], widths: vec![lw],
                // the penalty makes the glue an illegal breakpoint: the paragraph has exactly one line
                items: vec![It::Box(boxw), It::Penalty(10000), glue],
            };
            v.push(format!("kp 0 0 {}", join(&inst.encode())));
        }
        // looseness stream: short paragraphs whose last line has *finite* stretch, so that several
        // end states with the same line count but different fitness classes and demerits coexist
        // (the tie-break of TeX.2021.875), and several line counts are feasible
        let n_loose = if ctx.thorough { 30_000 } else { 3_000 };
        let mut r = rng.fork();
        for _ in 0..n_loose {
            let mut items = vec![];
            // one case in six is a *symmetric* paragraph (identical words and glue, rigid \parfillskip,
            // no adj_demerits): permuted line lengths give different end states of exactly equal demerits,
            // i.e. ties in the selection of TeX.2021.874-875
            let symmetric = r.chance(1, 6);
            let words = if symmetric { 5 + r.below(5) as usize } else { 2 + r.below(6) as usize };
            let (sym_box, sym_st) = (*r.pick(&[20i64, 30]), *r.pick(&[40i64, 20]));
            for w in 0..words {
                items.push(It::Box(if symmetric { sym_box } else { *r.pick(&[10, 15, 30, 30, 20]) }));
                if w + 1 < words {
                    if !symmetric && r.chance(1, 4) {
                        items.push(It::Penalty(*r.pick(&[70, 0, -50, 150])));
                    }
                    items.push(if symmetric { It::Glue(5, sym_st, 0, 2) } else { It::Glue(5, *r.pick(&[40, 40, 20, 10]), 0, *r.pick(&[0, 0, 2])) });
                }
            }
            items.push(It::Penalty(10000));
            items.push(It::Glue(0, if symmetric { 0 } else { *r.pick(&[110, 60, 30, 200]) }, 0, 0));
            let inst = Inst {
                tol: *r.pick(&[200, 200, 1000, 10000]),
                emerg: 0,
                line_pen: 10,
                hyph_pen: 50,
                exhyph_pen: 50,
                adj: if symmetric { 0 } else { *r.pick(&[10000, 10000, 0]) },
                dbl: 10000,
                fin: 5000,
                left: [0; 4],
                right: [0; 4],
                widths: vec![*r.pick(&[100, 100, 80, 120])],
                items,
            };
            let q = *r.pick(&[1, 1, -1, 2, -2, 0]);
            let force = r.chance(1, 5) as i64;
            v.push(format!("kp {force} {q} {}", join(&inst.encode())));
        }
        // fitness-boundary stream (TeX.2021.817/852/853): the first k words form a line whose badness is
        // exactly 12, 13, 99 or 100 (stretching) resp. 12 or 13 (shrinking) — the class boundaries — while
        // the rest of the paragraph is random, so that the adj_demerits the class decides about tip the
        // choice between competing sequences
        let n_fit = if ctx.thorough { 30_000 } else { 2_000 };
        let mut r = rng.fork();
        for _ in 0..n_fit {
            let k = 2 + r.below(3) as usize; // words in the engineered line
            let words = k + 2 + r.below(5) as usize;
            let (g, st, sh) = (*r.pick(&[3000i64, 4000, 5000]), *r.pick(&[1500i64, 2000, 3000]), *r.pick(&[500i64, 1000, 1500]));
            let ws: Vec<i64> = (0..words).map(|_| 1000 * *r.pick(&[4i64, 6, 7, 9, 12, 15]) + r.range(0, 999)).collect();
            let natural: i64 = ws[..k].iter().sum::<i64>() + (k as i64 - 1) * g;
            let shrink_side = r.chance(1, 3);
            let target = if shrink_side { *r.pick(&[12i64, 13]) } else { *r.pick(&[12i64, 13, 99, 100]) };
            let s_tot = (k as i64 - 1) * if shrink_side { sh } else { st };
            // all shortfalls with exactly that badness: take one at random (badness is monotone in t)
            let (mut lo, mut hi) = (0i64, 2 * s_tot);
            while lo < hi {
                let mid = (lo + hi) / 2;
                if tex_badness(mid, s_tot) < target { lo = mid + 1 } else { hi = mid }
            }
            let first = lo;
            let (mut lo, mut hi) = (first, 2 * s_tot);
            while lo < hi {
                let mid = (lo + hi + 1) / 2;
                if tex_badness(mid, s_tot) <= target { lo = mid } else { hi = mid - 1 }
            }
            if tex_badness(first, s_tot) != target || (shrink_side && first > s_tot) {
                continue;
            }
            let last = if shrink_side { lo.min(s_tot) } else { lo };
            let mid = r.range(first, last);
            let t = *r.pick(&[first, last, mid]);
            let width = if shrink_side { natural - t } else { natural + t };
            let mut ws = ws;
            if r.chance(2, 3) && words >= k + 3 {
                // a second engineered line (k2 words) on the other side of a class boundary, so that the two
                // lines are / are not adjacent classes: its last box is sized to give the wanted shortfall
                let k2 = 2 + r.below(2) as usize;
                let shrink2 = r.chance(1, 3);
                let target2 = if shrink2 { *r.pick(&[12i64, 13, 50]) } else { *r.pick(&[12i64, 13, 50, 99, 100, 200]) };
                let s2 = (k2 as i64 - 1) * if shrink2 { sh } else { st };
                let (mut lo, mut hi) = (0i64, 2 * s2);
                while lo < hi {
                    let mid = (lo + hi) / 2;
                    if tex_badness(mid, s2) < target2 { lo = mid + 1 } else { hi = mid }
                }
                if tex_badness(lo, s2) == target2 && !(shrink2 && lo > s2) {
                    let others: i64 = ws[k..k + k2 - 1].iter().sum::<i64>() + (k2 as i64 - 1) * g;
                    let last_box = if shrink2 { width + lo - others } else { width - lo - others };
                    if last_box > 0 {
                        ws[k + k2 - 1] = last_box;
                    }
                }
            }
            let mut items = vec![];
            for (i, w) in ws.iter().enumerate() {
                items.push(It::Box(*w));
                if i + 1 < words {
                    if r.chance(1, 6) {
                        items.push(It::Penalty(*r.pick(&[50, -50, 100, 0])));
                    }
                    items.push(It::Glue(g, st, 0, sh));
                }
            }
            items.push(It::Penalty(10000));
            items.push(It::Glue(0, if r.chance(3, 4) { 65536 } else { 0 }, 1, 0));
            let inst = Inst {
                tol: *r.pick(&[10000, 10000, 200, 1000]),
                emerg: 0,
                line_pen: *r.pick(&[10, 10, 0, 50]),
                hyph_pen: 50,
                exhyph_pen: 50,
                adj: *r.pick(&[10000, 10000, 3000, 20000, 500]),
                dbl: 10000,
                fin: 5000,
                left: [0; 4],
                right: [0; 4],
                widths: vec![width],
                items,
            };
            let q = *r.pick(&[0, 0, 0, 1, -1]);
            v.push(format!("kp 0 {q} {}", join(&inst.encode())));
        }
        // passes stream: the user-level `break_line` (TeX.2021.816 + the three passes + line boxes)
        let n_bl = if ctx.thorough { 10_000 } else { 600 };
        let mut r = rng.fork();
        for _ in 0..n_bl {
            let mut inst = Self::gen_inst(&mut r, 30);
            let unit: i64 = if inst.widths[0] >= 65536 { 65536 } else { 1 };
            let n = inst.items.len();
            // break_line appends \penalty10000\parfillskip itself
            if n >= 2 && matches!(inst.items[n - 2], It::Penalty(10000)) && matches!(inst.items[n - 1], It::Glue(0, _, 1, 0)) {
                inst.items.truncate(n - 2);
            }
            // HBox::pack has `todo!()` for marks and math nodes (boxworks ds.rs:207, :219): not generated here
            inst.items.retain(|it| !matches!(it, It::Inert | It::Math(_)));
            if r.chance(1, 3) {
                // a trailing glue is removed by TeX.2021.816
                inst.items.push(It::Glue(3 * unit, unit, 0, unit));
            }
            fix_replace(&mut inst.items);
            inst.emerg = if r.chance(1, 2) { unit * *r.pick(&[5, 20, 100]) } else { 0 };
            inst.tol = *r.pick(&[200, 200, 1000, 10000, 50]);
            let pretol = *r.pick(&[-1, 100, 100, 50, 200, 10000]);
            // where the hyphenator inserts discretionaries: between two boxes outside replaced ranges
            let mut covered = vec![false; inst.items.len() + 1];
            for (i, it) in inst.items.iter().enumerate() {
                if let It::Disc(_, _, rc) = it {
                    for k in 0..=(*rc as usize + 1) {
                        if i + k < covered.len() {
                            covered[i + k] = true;
                        }
                    }
                }
            }
            let mut hyph = vec![];
            for i in 1..inst.items.len() {
                if matches!(inst.items[i - 1], It::Box(_)) && matches!(inst.items[i], It::Box(_)) && !covered[i] && !covered[i - 1] && r.chance(1, 3) {
                    // a zero-width hyphen (non-empty pre-break of width 0) is still charged \\hyphenpenalty
                    hyph.push((i, if r.chance(1, 4) { 0 } else { 2 * unit }));
                }
            }
            let pf = if r.chance(4, 5) { [0, 65536, 1, 0] } else { [0, unit * *r.pick(&[30, 100, 200]), 0, 0] };
            let q = *r.pick(&[0, 0, 0, 0, 1, -1]);
            v.push(BlCase { q, pretol, pf, hyph, inst }.case());
        }
        let n = if ctx.thorough { 40_000 } else { 3_600 };
        let mut r = rng.fork();
        for _ in 0..n {
            let inst = Self::gen_inst(&mut r, 60);
            let q = *r.pick(&[0, 0, 0, 0, 0, 0, 1, -1, 2, -2]);
            let force = r.chance(1, 4) as i64;
            v.push(format!("kp {force} {q} {}", join(&inst.encode())));
        }
        v
    }

    fn run_case(&mut self, case: &str, drv: &mut Driver) -> CaseOutcome {
        if let Some(rest) = case.strip_prefix("bl ") {
            return run_case_passes(rest, drv);
        }
        let mut out = CaseOutcome::default();
        let rest = case.strip_prefix("kp ").expect("case starts with kp or bl");
        let v = parse_i64s(rest);
        let (force, q) = (v[0] != 0, v[1]);
        let inst = Inst::decode(&v[2..]);
        let real = caught(|| run_real(&inst, force, q));
        let (res, log) = match real {
            Err(p) => {
                // A panic inside the quantifier is a violation; outside (possible i32 overflow of
                // demerits on absurd parameters) the driver's domain check decides.
                let verdict = drv.ask(&format!("judge {} {} {} -1 0", force as i64, q, join(&inst.encode())));
                if verdict.contains("verdict=skip:") {
                    out.tag("skip:panic-outside-domain");
                } else {
                    out.fail(Kind::ImplPanic, "break", format!("panic {}", strip_msg(&p)), format!("break_line_single_attempt panicked: {p}"));
                }
                return out;
            }
            Ok(x) => x,
        };
        if let Some(msg) = &log.inconsistent {
            out.fail(Kind::ImplVsModel, "log", "logger protocol", msg.clone());
        }
        let mut req = format!("judge {} {} {}", force as i64, q, join(&inst.encode()));
        match &res {
            None => req.push_str(" -1"),
            Some(bs) => {
                req.push_str(&format!(" {}", bs.len()));
                for b in bs {
                    req.push_str(&format!(" {b}"));
                }
            }
        }
        req.push_str(&format!(" {}", log.cands.len()));
        for c in &log.cands {
            req.push(' ');
            req.push_str(&join(&c[..]));
        }
        let reply = drv.ask(&req);
        let field = |k: &str| -> String {
            reply.split_whitespace().find_map(|w| w.strip_prefix(&format!("{k}=")).map(|s| s.to_string())).unwrap_or_default()
        };
        let verdict = field("verdict");
        let cand = field("cand");
        if verdict.is_empty() {
            panic!("driver reply malformed: {reply} for {req}");
        }
        out.tag(format!("verdict:{verdict}"));
        out.tag(match &res {
            None => "impl:none".to_string(),
            Some(b) => format!("impl:lines={}", b.len().min(9)),
        });
        out.tag(format!("q={q} force={}", force as i64));
        let legal = field("legal").split(',').filter(|s| !s.is_empty()).count();
        out.nontrivial = !verdict.starts_with("skip") && legal >= 2;
        if let Some(reason) = verdict.strip_prefix("bad:") {
            let kind = if reason == "model-inconsistent" { Kind::ModelVsSpec } else { Kind::ImplVsSpec };
            out.fail(kind, "verdict", format!("line breaking: {reason}"), format!("result: {res:?}\nreply: {reply}"));
        }
        // stream `algo`: the Lean transcription of the active-list algorithm (Model/C04Algo.lean) must
        // return exactly the break list the real code returned. Not compared where the code's i32
        // arithmetic may overflow (the model works in unbounded integers).
        let algo = field("algo");
        if algo.is_empty() {
            panic!("driver reply has no algo field: {reply}");
        }
        if verdict == "skip:demerits-may-overflow" || algo.starts_with("skip:") {
            out.tag("algo:not-compared");
        } else {
            let real = match &res {
                None => "none".to_string(),
                Some(bs) => format!("[{}]", bs.iter().map(|b| b.to_string()).collect::<Vec<_>>().join(",")),
            };
            if real == algo {
                out.tag("algo:equal");
            } else {
                out.fail(
                    Kind::ImplVsModel,
                    "algo",
                    "algo: break list differs",
                    format!("real break_line_single_attempt: {real}\nmodel C04.algo: {algo}\nreply: {reply}"),
                );
            }
        }
        // stream `trace`: the active nodes the real run creates (debug::Logger::log_new_active_node), in
        // order, with line number, fitness class, total demerits, hyphenated flag and predecessor, must
        // be exactly the nodes the transcription creates — a step-by-step tie, not only the final answer.
        let trace = field("trace");
        if verdict == "skip:demerits-may-overflow" || trace.starts_with("skip:") || trace.is_empty() {
            out.tag("trace:not-compared");
        } else {
            let real = if log.trace.is_empty() {
                "-".to_string()
            } else {
                log.trace.iter().map(|t| format!("{}:{}:{}:{}:{}:{}", t[0], t[1], t[2], t[3], t[4], t[5])).collect::<Vec<_>>().join(",")
            };
            if real == trace {
                out.tag(format!("trace:equal nodes={}", match log.trace.len() { 0 => "0", 1..=4 => "1-4", 5..=19 => "5-19", 20..=99 => "20-99", _ => "100+" }));
            } else {
                let k = real.split(',').zip(trace.split(',')).take_while(|(a, b)| a == b).count();
                out.fail(
                    Kind::ImplVsModel,
                    "trace",
                    "algo: created active nodes differ",
                    format!("first difference at node #{k} (elem:line:fitness:total:hyphenated:previous_elem)\nreal : {real}\nmodel: {trace}"),
                );
            }
        }
        // sanity stream `thm`: where the hypotheses of `algo_optimal_dec` / `algo_loose` hold, the model's
        // answer must be what the theorem says (computed by the driver from the reference vector).
        match field("thm").as_str() {
            "ok:optimal" => out.tag("thm:algo_optimal hypotheses hold"),
            "ok:loose" => out.tag("thm:algo_loose hypotheses hold"),
            "n/a" => out.tag("thm:n/a (force, non-monotone or unbounded)"),
            other => out.fail(Kind::ModelVsSpec, "thm", format!("theorem contradicted by the model ({other})"), format!("reply: {reply}")),
        }
        if let Some(what) = cand.strip_prefix("bad:") {
            let mut parts = what.splitn(2, ':');
            let idx: usize = parts.next().unwrap().parse().unwrap_or(0);
            let w = parts.next().unwrap_or("?");
            let c = log.cands.get(idx).copied().unwrap_or([0; 8]);
            let at = match inst.items.get(c[0].max(0) as usize) {
                _ if c[0] < 0 => "start",
                Some(It::Glue(..)) => "glue",
                Some(It::Kern(..)) => "kern",
                Some(It::Penalty(_)) => "penalty",
                Some(It::Disc(..)) => "disc",
                Some(It::Math(_)) => "math",
                _ => "other",
            };
            out.fail(
                Kind::ImplVsModel,
                "candidate",
                format!("candidate line {w} differs (line starts after break at {at})"),
                format!("logged candidate a={} L={} pf={} b={} badness={} penalty={} demerits={} artificial={}\nreply: {reply}", c[0], c[1], c[2], c[3], c[4], c[5], c[6], c[7]),
            );
        }
        out
    }

    fn shrink(&self, case: &str) -> Vec<String> {
        if let Some(rest) = case.strip_prefix("bl ") {
            return shrink_passes(rest);
        }
        let rest = case.strip_prefix("kp ").unwrap();
        let v = parse_i64s(rest);
        let inst = Inst::decode(&v[2..]);
        let mut c = vec![];
        let n = inst.items.len();
        let mut push = |items: Vec<It>, c: &mut Vec<String>| {
            let mut i = inst.clone();
            i.items = items;
            fix_replace(&mut i.items);
            c.push(format!("kp {} {} {}", v[0], v[1], join(&i.encode())));
        };
        if n > 3 {
            // drop a word-sized chunk from the front or the middle, keeping the paragraph end
            push(inst.items[n / 3..].to_vec(), &mut c);
            let mut m = inst.items[..n / 3].to_vec();
            m.extend_from_slice(&inst.items[2 * n / 3..]);
            push(m, &mut c);
        }
        for i in 0..n {
            let mut m = inst.items.clone();
            m.remove(i);
            push(m, &mut c);
        }
        // simplify parameters
        let mut i2 = inst.clone();
        i2.left = [0; 4];
        i2.right = [0; 4];
        i2.emerg = 0;
        i2.widths.truncate(1);
        if i2.encode() != inst.encode() {
            c.push(format!("kp {} {} {}", v[0], v[1], join(&i2.encode())));
        }
        c
    }
}

struct BlCase {
    q: i64,
    pretol: i64,
    pf: [i64; 4],
    hyph: Vec<(usize, i64)>,
    inst: Inst,
}
impl BlCase {
    fn parse(rest: &str) -> BlCase {
        let v = parse_i64s(rest);
        let nh = v[6] as usize;
        let hyph = (0..nh).map(|k| (v[7 + 2 * k] as usize, v[8 + 2 * k])).collect();
        BlCase { q: v[0], pretol: v[1], pf: [v[2], v[3], v[4], v[5]], hyph, inst: Inst::decode(&v[7 + 2 * nh..]) }
    }
    fn case(&self) -> String {
        let mut v = vec![self.q, self.pretol];
        v.extend(self.pf);
        v.push(self.hyph.len() as i64);
        for (p, w) in &self.hyph {
            v.extend([*p as i64, *w]);
        }
        v.extend(self.inst.encode());
        format!("bl {}", join(&v))
    }
    /// driver request: `passes q pretol pf.. inst nH (pos pre)* k nres b..`
    fn request(&self, k: u8, breaks: &[usize]) -> String {
        let mut v = vec![self.q, self.pretol];
        v.extend(self.pf);
        v.extend(self.inst.encode());
        v.push(self.hyph.len() as i64);
        for (p, w) in &self.hyph {
            v.extend([*p as i64, *w]);
        }
        v.push(k as i64);
        v.push(breaks.len() as i64);
        v.extend(breaks.iter().map(|b| *b as i64));
        format!("passes {}", join(&v))
    }
}

/// Stream `passes`: the whole of `break_line` as a user calls it — TeX.2021.816 list preparation, the
/// pretolerance / tolerance / emergency passes with hyphenation in between, the line boxes.
fn run_case_passes(rest: &str, drv: &mut Driver) -> CaseOutcome {
    let mut out = CaseOutcome::default();
    let c = BlCase::parse(rest);
    let real = caught(|| run_passes(&c.inst, c.q, c.pretol, c.pf, &c.hyph));
    let run = match real {
        Err(p) => {
            let reply = drv.ask(&c.request(1, &[]));
            if reply.contains("pverdict=skip:") {
                out.tag("passes:skip:panic-outside-domain");
            } else {
                out.fail(Kind::ImplPanic, "passes", format!("break_line: panic {}", strip_msg(&p)), format!("break_line panicked: {p}"));
            }
            return out;
        }
        Ok(Err(msg)) => {
            out.fail(Kind::ImplVsModel, "log", "logger protocol", msg);
            return out;
        }
        Ok(Ok(r)) => r,
    };
    let reply = drv.ask(&c.request(run.attempt, &run.breaks));
    let field = |k: &str| -> String {
        reply.split_whitespace().find_map(|w| w.strip_prefix(&format!("{k}=")).map(|s| s.to_string())).unwrap_or_default()
    };
    let verdict = field("pverdict");
    if verdict.is_empty() {
        panic!("driver reply malformed: {reply}");
    }
    out.tag(format!("passes:verdict:{}", verdict.split(':').take(2).collect::<Vec<_>>().join(":")));
    out.tag(format!("passes:answered-in-pass={} emergency={} hyph={}", run.attempt, (c.inst.emerg != 0) as i64, (!c.hyph.is_empty()) as i64));
    out.nontrivial = !verdict.starts_with("skip") && run.breaks.len() >= 2;
    if let Some(reason) = verdict.strip_prefix("bad:") {
        let kind = if reason.ends_with("model-inconsistent") { Kind::ModelVsSpec } else { Kind::ImplVsSpec };
        out.fail(kind, "passes", format!("passes: {reason}"), format!("answered in attempt {} with {:?}\nreply: {reply}", run.attempt, run.breaks));
    }
    // the model comparison also holds where the verdict abstains (forced pass without feasible
    // sequence, ambiguous line count, non-monotone), but not where i32 may overflow
    let skip = matches!(verdict.as_str(), "skip:demerits-may-overflow" | "skip:no-widths" | "skip:disc-malformed");
    let model = field("pmodel");
    if !skip && model != "skip" {
        let real = format!("{}:[{}]", run.attempt, run.breaks.iter().map(|b| b.to_string()).collect::<Vec<_>>().join(","));
        if real == model {
            out.tag("passes:algo:equal");
        } else {
            out.fail(Kind::ImplVsModel, "passes-algo", "passes: attempt or break list differs from the model", format!("real : {real}\nmodel: {model}\nreply: {reply}"));
        }
        if field("plen") != run.final_len.to_string() {
            out.fail(Kind::ImplVsModel, "passes-algo", "passes: prepared list has another length", format!("real list has {} items after break_line, model {}", run.final_len, field("plen")));
        }
        // the line boxes: one per break, each packed to the width the breaker assumed for that line
        let want: Vec<i64> = (0..run.breaks.len()).map(|l| *c.inst.widths.get(l).unwrap_or(c.inst.widths.last().unwrap())).collect();
        // ... and containing exactly the material the breaker measured for that line (natural width)
        let nat = field("pnat");
        let got = run.line_naturals.iter().map(|w| w.to_string()).collect::<Vec<_>>().join(",");
        let same = nat.split(',').count() == run.line_naturals.len()
            && nat.split(',').zip(run.line_naturals.iter()).all(|(m, r)| m == "x" || m == r.to_string());
        if !same && !(nat.is_empty() && run.line_naturals.is_empty()) {
            out.fail(
                Kind::ImplVsModel,
                "lines",
                "lines: natural width of a line box differs from the width the breaker measured",
                format!("breaks {:?}: measured by the breaker {nat}, contents of the boxes {got}", run.breaks),
            );
        }
        if want != run.line_widths {
            out.fail(Kind::ImplVsModel, "lines", "lines: boxes do not match the breaks (count or width)", format!("breaks {:?}: expected box widths {:?}, got {:?}", run.breaks, want, run.line_widths));
        }
    }
    out
}

fn shrink_passes(rest: &str) -> Vec<String> {
    let c = BlCase::parse(rest);
    let mut v = vec![];
    let n = c.inst.items.len();
    for j in 0..n {
        let mut d = BlCase { q: c.q, pretol: c.pretol, pf: c.pf, hyph: vec![], inst: c.inst.clone() };
        d.inst.items.remove(j);
        fix_replace(&mut d.inst.items);
        d.hyph = c.hyph.iter().filter(|(p, _)| *p != j).map(|(p, w)| (if *p > j { *p - 1 } else { *p }, *w)).collect();
        v.push(d.case());
    }
    for k in 0..c.hyph.len() {
        let mut d = BlCase { q: c.q, pretol: c.pretol, pf: c.pf, hyph: c.hyph.clone(), inst: c.inst.clone() };
        d.hyph.remove(k);
        v.push(d.case());
    }
    let mut d = BlCase { q: c.q, pretol: c.pretol, pf: c.pf, hyph: c.hyph.clone(), inst: c.inst.clone() };
    d.inst.left = [0; 4];
    d.inst.right = [0; 4];
    d.inst.widths.truncate(1);
    if d.case() != c.case() {
        v.push(d.case());
    }
    v
}

fn main() {
    run(C04);
}
