//! C04 — line breaking finds a solution iff one exists, and it is demerit-optimal.
//!
//! Case: `kp <force> <looseness> <inst>` with `<inst>` encoded as in `lean/Driver/C04.lean`.
//! The real `LineBreaker::break_line_single_attempt` is run on the list with a collecting
//! `debug::Logger`; the returned breakpoints and every logged candidate line are sent to the
//! Lean driver, which decides the property with the proved-optimal reference (`verdict=`) and
//! re-rates every candidate line (`cand=`, the tie between the spec's badness/demerits and the code).
//! The driver also runs `C04.algo`, the Lean transcription of the active-list algorithm about which
//! `algo_sound` / `algo_optimal` are proved, on the same instance: its break list must be exactly the
//! real one (`algo=`, stream `algo`, `Kind::ImplVsModel`).

use boxworks::ds;
use boxworks_knuthplass as kp;
use common::{Glue, GlueOrder, Scaled};
use vh::*;

struct Repo;
impl boxworks::FontRepo for Repo {
    fn width(&self, c: char, _font: u32) -> Option<Scaled> {
        Some(Scaled((c as u32 as i32) * 1000))
    }
    fn height(&self, _c: char, _font: u32) -> Option<Scaled> {
        None
    }
    fn depth(&self, _c: char, _font: u32) -> Option<Scaled> {
        None
    }
}
struct NoHyph;
impl boxworks::Hyphenator for NoHyph {
    fn hyphenate(&self, _list: &mut Vec<ds::Horizontal>) {}
}

#[derive(Clone, Debug, PartialEq)]
enum It {
    Box(i64),
    Inert,
    Glue(i64, i64, i64, i64),
    Kern(bool, i64),
    Penalty(i64),
    Disc(Vec<i64>, Vec<i64>, i64),
    Math(bool),
}

#[derive(Clone, Debug)]
struct Inst {
    tol: i64,
    emerg: i64,
    line_pen: i64,
    hyph_pen: i64,
    exhyph_pen: i64,
    adj: i64,
    dbl: i64,
    fin: i64,
    left: [i64; 4],
    right: [i64; 4],
    widths: Vec<i64>,
    items: Vec<It>,
}

impl Inst {
    fn encode(&self) -> Vec<i64> {
        let mut v = vec![self.tol, self.emerg, self.line_pen, self.hyph_pen, self.exhyph_pen, self.adj, self.dbl, self.fin];
        v.extend(self.left);
        v.extend(self.right);
        v.push(self.widths.len() as i64);
        v.extend(&self.widths);
        v.push(self.items.len() as i64);
        for it in &self.items {
            match it {
                It::Box(w) => v.extend([0, *w]),
                It::Inert => v.push(1),
                It::Glue(w, st, so, sh) => v.extend([2, *w, *st, *so, *sh]),
                It::Kern(e, w) => v.extend([3, *e as i64, *w]),
                It::Penalty(p) => v.extend([4, *p]),
                It::Disc(pre, post, r) => {
                    v.push(5);
                    v.push(pre.len() as i64);
                    v.extend(pre);
                    v.push(post.len() as i64);
                    v.extend(post);
                    v.push(*r);
                }
                It::Math(a) => v.extend([6, *a as i64]),
            }
        }
        v
    }
    fn decode(v: &[i64]) -> Inst {
        let mut i = 0;
        let mut nx = || {
            let x = v[i];
            i += 1;
            x
        };
        let tol = nx();
        let emerg = nx();
        let line_pen = nx();
        let hyph_pen = nx();
        let exhyph_pen = nx();
        let adj = nx();
        let dbl = nx();
        let fin = nx();
        let left = [nx(), nx(), nx(), nx()];
        let right = [nx(), nx(), nx(), nx()];
        let nw = nx();
        let widths = (0..nw).map(|_| nx()).collect();
        let ni = nx();
        let mut items = vec![];
        for _ in 0..ni {
            items.push(match nx() {
                0 => It::Box(nx()),
                1 => It::Inert,
                2 => It::Glue(nx(), nx(), nx(), nx()),
                3 => It::Kern(nx() != 0, nx()),
                4 => It::Penalty(nx()),
                5 => {
                    let np = nx();
                    let pre = (0..np).map(|_| nx()).collect();
                    let nq = nx();
                    let post = (0..nq).map(|_| nx()).collect();
                    It::Disc(pre, post, nx())
                }
                6 => It::Math(nx() != 0),
                t => panic!("bad item tag {t}"),
            });
        }
        Inst { tol, emerg, line_pen, hyph_pen, exhyph_pen, adj, dbl, fin, left, right, widths, items }
    }
}

fn order(o: i64) -> GlueOrder {
    match o {
        0 => GlueOrder::Normal,
        1 => GlueOrder::Fil,
        2 => GlueOrder::Fill,
        _ => GlueOrder::Filll,
    }
}
fn glue(g: [i64; 4]) -> Glue {
    Glue { width: Scaled(g[0] as i32), stretch: Scaled(g[1] as i32), stretch_order: order(g[2]), shrink: Scaled(g[3] as i32), shrink_order: GlueOrder::Normal }
}
fn hbox(w: i64) -> ds::HBox {
    ds::HBox { width: Scaled(w as i32), ..Default::default() }
}

fn build_list(items: &[It]) -> Vec<ds::Horizontal> {
    let mut v: Vec<ds::Horizontal> = vec![];
    for (k, it) in items.iter().enumerate() {
        v.push(match it {
            // vary the concrete node kind behind "box": hbox, rule, char (width from the font repo)
            It::Box(w) => {
                if *w >= 0 && *w % 1000 == 0 && *w / 1000 < 0xD000 && *w > 0 && k % 3 == 1 {
                    ds::Horizontal::Char(ds::Char { char: char::from_u32((*w / 1000) as u32).unwrap(), font: 0 })
                } else {
                    ds::Horizontal::HBox(hbox(*w))
                }
            }
            It::Inert => ds::Horizontal::Mark(ds::Mark { list: vec![] }),
            It::Glue(w, st, so, sh) => ds::Horizontal::Glue(ds::Glue { kind: ds::GlueKind::Normal, value: glue([*w, *st, *so, *sh]) }),
            It::Kern(e, w) => ds::Horizontal::Kern(ds::Kern {
                width: Scaled(*w as i32),
                kind: if *e { ds::KernKind::Explicit } else { ds::KernKind::Normal },
            }),
            It::Penalty(p) => ds::Horizontal::Penalty(ds::Penalty(*p as i32)),
            It::Disc(pre, post, r) => ds::Horizontal::Discretionary(ds::Discretionary {
                pre_break: pre.iter().map(|w| ds::DiscretionaryElem::HBox(hbox(*w))).collect(),
                post_break: post.iter().map(|w| ds::DiscretionaryElem::HBox(hbox(*w))).collect(),
                replace_count: *r as u32,
            }),
            It::Math(a) => ds::Horizontal::Math(if *a { ds::Math::After } else { ds::Math::Before }),
        });
    }
    v
}

#[derive(Default)]
struct Log {
    /// node index -> (elem index or -1 for the start, line number, fitness class)
    nodes: Vec<(i64, i64, i64)>,
    last_elem: i64,
    /// a L pf b bad pen dem art
    cands: Vec<[i64; 8]>,
    /// every `log_new_active_node`, in order: elem, line, fitness class, total demerits, hyphenated, previous elem
    trace: Vec<[i64; 6]>,
    inconsistent: Option<String>,
}
impl kp::debug::Logger for Log {
    fn log_attempt(&mut self, _a: kp::debug::Attempt) {}
    fn log_feasible_breakpoint(&mut self, _list: &[ds::Horizontal], fb: kp::debug::FeasibleBreakpoint) {
        self.last_elem = fb.elem_index as i64;
        match self.nodes.get(fb.previous_node_index) {
            Some(&(a, l, pf)) => self.cands.push([a, l, pf, fb.elem_index as i64, fb.badness as i64, fb.penalty as i64, fb.demerits as i64, fb.artificial_demerits as i64]),
            None => self.inconsistent = Some(format!("feasible breakpoint refers to unknown node {}", fb.previous_node_index)),
        }
    }
    fn log_new_active_node(&mut self, an: kp::debug::NewActiveNode) {
        if an.node_index != self.nodes.len() {
            self.inconsistent = Some(format!("node index {} out of sequence", an.node_index));
        }
        match self.nodes.get(an.previous_node_index) {
            Some(&(prev_elem, _, _)) => self.trace.push([
                self.last_elem,
                an.line_number as i64,
                an.fitness_class as i64,
                an.total_demerits as i64,
                an.hyphenated as i64,
                prev_elem,
            ]),
            None => self.inconsistent = Some(format!("new active node refers to unknown node {}", an.previous_node_index)),
        }
        self.nodes.push((self.last_elem, an.line_number as i64, an.fitness_class as i64));
    }
}

fn run_real(inst: &Inst, force: bool, q: i64) -> (Option<Vec<usize>>, Log) {
    let params = kp::Params {
        adj_demerits: inst.adj as i32,
        double_hyphen_demerits: inst.dbl as i32,
        final_hyphen_demerits: inst.fin as i32,
        ex_hyphen_penalty: inst.exhyph_pen as i32,
        hyphen_penalty: inst.hyph_pen as i32,
        line_penalty: inst.line_pen as i32,
        looseness: q as i32,
        left_skip: glue(inst.left),
        right_skip: glue(inst.right),
        tolerance: inst.tol as i32,
        emergency_stretch: Scaled(inst.emerg as i32),
        ..kp::Params::plain_tex_defaults()
    };
    let widths: Vec<Scaled> = inst.widths.iter().map(|w| Scaled(*w as i32)).collect();
    let list = build_list(&inst.items);
    let mut log = Log::default();
    log.nodes.push((-1, 0, 2));
    log.last_elem = -1;
    let nohyph = NoHyph;
    let res = {
        let mut lb = kp::LineBreaker { params: &params, line_widths: &widths, line_indents: &[], debug_logger: Some(&mut log), hyphenator: &nohyph };
        lb.break_line_single_attempt(&list, &Repo, inst.tol as i32, Scaled(inst.emerg as i32), force)
    };
    (res, log)
}

struct C04;

fn is_boxlike(it: &It) -> bool {
    // what a discretionary may replace: boxes and kerns (an explicit kern in the replaced
    // range is not a breakpoint, TeX.2021.869)
    matches!(it, It::Box(_) | It::Kern(_, _))
}

/// Keep `replace_count`s valid after items were removed.
fn fix_replace(items: &mut [It]) {
    for i in 0..items.len() {
        if let It::Disc(_, _, r) = &items[i] {
            let mut ok = 0;
            while ok < *r as usize && i + 1 + ok < items.len() && is_boxlike(&items[i + 1 + ok]) {
                ok += 1;
            }
            if let It::Disc(_, _, r) = &mut items[i] {
                *r = ok as i64;
            }
        }
    }
}

impl C04 {
    fn gen_inst(rng: &mut Rng, max_items: usize) -> Inst {
        let unit: i64 = if rng.chance(1, 2) { 65536 } else { 1 };
        let u = |x: i64| x * unit;
        let mut items = vec![];
        let n_words = 1 + rng.below(14) as usize;
        let sp = [u(3), u(5), u(4)];
        for wi in 0..n_words {
            if items.len() + 8 > max_items {
                break;
            }
            if rng.chance(1, 12) {
                items.push(It::Math(false));
            }
            let n_boxes = 1 + rng.below(3) as usize;
            if wi > 0 && rng.chance(1, 8) {
                // a word that starts with a font/accent kern: not discardable, belongs to the line
                items.push(It::Kern(false, u(*rng.pick(&[5, 3, -2]))));
            }
            for bi in 0..n_boxes {
                items.push(It::Box(u(*rng.pick(&[4, 6, 6, 7, 9, 12, 20])) + if unit > 1 && rng.chance(1, 3) { rng.range(-500, 500) } else { 0 }));
                if bi + 1 < n_boxes && rng.chance(1, 3) {
                    // discretionary, possibly replacing the next box
                    let pre = if rng.chance(4, 5) { vec![u(2)] } else { vec![] };
                    let post = if rng.chance(1, 4) { vec![u(*rng.pick(&[1, 3]))] } else { vec![] };
                    let r = if rng.chance(1, 4) { 1 } else { 0 };
                    items.push(It::Disc(pre, post, r));
                    if r == 1 && rng.chance(1, 6) {
                        // replaced explicit kern directly before the inter-word glue
                        items.push(It::Kern(true, u(1)));
                        items.push(It::Glue(sp[0], u(2), 0, u(1)));
                        items.push(It::Box(u(6)));
                    }
                } else if bi + 1 < n_boxes && rng.chance(1, 6) {
                    items.push(It::Kern(false, u(*rng.pick(&[-1, 1]))));
                }
                if rng.chance(1, 25) {
                    items.push(It::Inert);
                }
            }
            if rng.chance(1, 12) {
                items.push(It::Math(true));
            }
            if wi + 1 == n_words {
                break;
            }
            // inter-word material: mostly one glue; sometimes runs of discardable items
            match rng.below(12) {
                0 => {
                    items.push(It::Penalty(*rng.pick(&[0, 50, -50, 200, 9999, 10000, 10001, -9999, -10000, -10001, -20000, 500])));
                    items.push(It::Glue(sp[0], u(2), 0, u(1)));
                }
                1 => {
                    items.push(It::Glue(sp[1], u(3), 0, u(1)));
                    items.push(It::Penalty(*rng.pick(&[0, -100, 300, -10000, -10001, -30000])));
                    items.push(It::Glue(sp[2], u(1), 0, u(1)));
                }
                2 => {
                    items.push(It::Kern(true, u(*rng.pick(&[2, 5, -2]))));
                    items.push(It::Glue(sp[0], u(2), 0, u(1)));
                }
                3 => {
                    items.push(It::Glue(sp[0], u(2), 0, u(1)));
                    items.push(It::Kern(true, u(3)));
                    items.push(It::Glue(sp[0], u(2), 0, u(1)));
                }
                4 => items.push(It::Glue(sp[1], u(*rng.pick(&[0, 1, 10])), *rng.pick(&[0, 0, 1, 2, 3]), u(*rng.pick(&[0, 2])))),
                5 => items.push(It::Penalty(*rng.pick(&[0, 100, -100, -10000, -10001]))),
                _ => items.push(It::Glue(*rng.pick(&sp), u(*rng.pick(&[1, 2, 3, 3])), 0, u(*rng.pick(&[0, 1, 1, 2])))),
            }
        }
        if rng.chance(9, 10) {
            if matches!(items.last(), Some(It::Glue(..))) {
                items.pop();
            }
            items.push(It::Penalty(10000));
            items.push(It::Glue(0, if rng.chance(9, 10) { 65536 } else { 0 }, 1, 0));
        }
        fix_replace(&mut items);
        let base = u(*rng.pick(&[25, 30, 40, 40, 50, 60, 80, 120]));
        let nw = 1 + rng.below(3) as usize;
        let widths = (0..nw).map(|k| base + if k > 0 { u(rng.range(-10, 10)) } else { 0 }).collect();
        let gl = |rng: &mut Rng| -> [i64; 4] {
            if rng.chance(3, 4) {
                [0, 0, 0, 0]
            } else {
                [u(*rng.pick(&[0, 1, 3])), u(*rng.pick(&[0, 2, 5])), *rng.pick(&[0, 0, 0, 1]), u(*rng.pick(&[0, 1]))]
            }
        };
        Inst {
            tol: *rng.pick(&[-1, 0, 50, 100, 200, 200, 200, 1000, 10000, 10000, 20000]),
            emerg: if rng.chance(1, 6) { u(*rng.pick(&[1, 5, 20])) } else { 0 },
            line_pen: *rng.pick(&[10, 10, 10, 0, 50, -10, 200]),
            hyph_pen: *rng.pick(&[50, 50, 0, -50, 500, 10000, -10000]),
            exhyph_pen: *rng.pick(&[50, 50, 0, 300, 10000]),
            adj: *rng.pick(&[10000, 10000, 0, -1000, 50]),
            dbl: *rng.pick(&[10000, 10000, 0, -200]),
            fin: *rng.pick(&[5000, 5000, 0, -200]),
            left: gl(rng),
            right: gl(rng),
            widths,
            items,
        }
    }

    fn small_alphabet() -> Vec<It> {
        vec![
            It::Box(10),
            It::Glue(5, 3, 0, 2),
            It::Penalty(0),
            It::Penalty(-10000),
            It::Kern(true, 2),
            It::Disc(vec![3], vec![], 0),
            It::Disc(vec![2], vec![4], 1),
        ]
    }
}

impl Property for C04 {
    fn id(&self) -> &'static str {
        "C04"
    }
    fn rule(&self) -> String {
        "Instances: (a) every list of length ≤ 4 (quick) / ≤ 5 (thorough) over a 7-item alphabet {box, glue, penalty 0, forced penalty, explicit kern, two discretionaries} \
         followed by the paragraph end, at tolerances {200, 10000}, force ∈ {0,1}; (b) random paragraphs of 1–14 words (boxes, discretionaries with replace counts, \
         font kerns, math on/off, runs of discardable items between words, finite and infinite stretch, 1–3 line widths, left/right skip, emergency stretch) × random \
         parameter settings × looseness ∈ {0,±1,±2} × force ∈ {0,1}; (c) a looseness stream: short paragraphs with finite stretch on the last line \
         (several end states per line count), looseness ∈ {±1,±2,0}. The verdict is computed by Lean with the proved-optimal reference; instances outside the \
         quantifier (overfull not upward closed; totals that may reach 2^30) are skipped and counted. Non-trivial = inside the domain and with at least 2 legal \
         breakpoints; distinct = distinct case string."
            .into()
    }
    fn builtin_corpus(&self) -> Vec<String> {
        let base = Inst {
            tol: 10000, emerg: 0, line_pen: 10, hyph_pen: 50, exhyph_pen: 50, adj: 10000, dbl: 10000, fin: 5000,
            left: [0; 4], right: [0; 4], widths: vec![25], items: vec![],
        };
        let mut v = vec![];
        let mk = |items: Vec<It>| {
            let mut i = base.clone();
            i.items = items;
            format!("kp 0 0 {}", join(&i.encode()))
        };
        let end = || vec![It::Penalty(10000), It::Glue(0, 65536, 1, 0)];
        // C04-a: break at an explicit kern followed by glue (the kern must not count in the next line)
        let mut a = vec![It::Box(10), It::Glue(5, 3, 0, 2), It::Box(10), It::Kern(true, 4), It::Glue(5, 3, 0, 2), It::Box(10), It::Glue(5, 3, 0, 2), It::Box(12)];
        a.extend(end());
        v.push(mk(a));
        // C04-b: discardable items after a break (glue penalty glue) must not count in the next line
        let mut b = vec![It::Box(10), It::Glue(5, 3, 0, 2), It::Box(10), It::Glue(5, 3, 0, 2), It::Penalty(0), It::Glue(5, 3, 0, 2), It::Box(10), It::Glue(5, 3, 0, 2), It::Box(12)];
        b.extend(end());
        v.push(mk(b));
        v
    }
    fn generate(&mut self, ctx: &Ctx, rng: &mut Rng) -> Vec<String> {
        let mut v = vec![];
        // exhaustive small scope
        let alpha = Self::small_alphabet();
        let max_len = if ctx.thorough { 5 } else { 4 };
        let mut lists: Vec<Vec<It>> = vec![vec![]];
        let mut frontier: Vec<Vec<It>> = vec![vec![]];
        for _ in 0..max_len {
            let mut next = vec![];
            for l in &frontier {
                for a in &alpha {
                    let mut m = l.clone();
                    m.push(a.clone());
                    next.push(m);
                }
            }
            lists.extend(next.iter().cloned());
            frontier = next;
        }
        for l in lists {
            if l.is_empty() {
                continue;
            }
            let mut items = l;
            items.push(It::Penalty(10000));
            items.push(It::Glue(0, 65536, 1, 0));
            fix_replace(&mut items);
            for (tol, force) in [(10000, 0), (200, 0), (200, 1)] {
                let inst = Inst {
                    tol, emerg: 0, line_pen: 10, hyph_pen: 50, exhyph_pen: 50, adj: 10000, dbl: 10000, fin: 5000,
                    left: [0; 4], right: [0; 4], widths: vec![25], items: items.clone(),
                };
                v.push(format!("kp {force} 0 {}", join(&inst.encode())));
            }
        }
        // badness arithmetic stream (TeX.2021.108): one-line paragraphs `box glue` whose shortfall t and
        // stretch (or shrink) s sit at and around the case boundaries of the routine
        // (t = 7230584, s = 1663497, r = 1290, s multiples of 297), at tolerances around the result
        let n_bad = if ctx.thorough { 60_000 } else { 6_000 };
        let mut r = rng.fork();
        let ts: [i64; 12] = [1, 297, 7230583, 7230584, 7230585, 7249875, 8388608, 16777216, 100_000_000, 536_870_911, 1_000_000_000, 65536];
        let ss: [i64; 12] = [1, 296, 297, 298, 1663496, 1663497, 1663498, 5742197, 3_000_000, 30_000_000, 900_000_000, 65536];
        for k in 0..n_bad {
            let t = (*r.pick(&ts) + r.range(-3, 3) + if r.chance(1, 3) { r.range(0, 2_000_000) } else { 0 }).clamp(1, 1_000_000_000);
            let sv = (*r.pick(&ss) + r.range(-3, 3) + if r.chance(1, 3) { r.range(0, 2_000_000) } else { 0 }).clamp(0, 1_000_000_000);
            let width: i64 = 1_050_000_000;
            let stretch_side = k % 3 != 0;
            // box narrower (stretch) or wider (shrink) than the line by t
            let (boxw, glue) = if stretch_side { (width - t, It::Glue(0, sv, 0, 0)) } else { (width.min(1_000_000_000) + 0, It::Glue(0, 0, 0, sv)) };
            let (lw, boxw) = if stretch_side { (width, boxw) } else { (boxw - t.min(boxw - 1), boxw) };
            let inst = Inst {
                tol: *r.pick(&[0, 12, 13, 99, 100, 200, 201, 1000, 9999, 10000]),
                emerg: 0, line_pen: 10, hyph_pen: 50, exhyph_pen: 50, adj: 10000, dbl: 10000, fin: 5000,
                left: [0; 4], right: [0; 4], widths: vec![lw],
                // the penalty makes the glue an illegal breakpoint: the paragraph has exactly one line
                items: vec![It::Box(boxw), It::Penalty(10000), glue],
            };
            v.push(format!("kp 0 0 {}", join(&inst.encode())));
        }
        // looseness stream: short paragraphs whose last line has *finite* stretch, so that several
        // end states with the same line count but different fitness classes and demerits coexist
        // (the tie-break of TeX.2021.875), and several line counts are feasible
        let n_loose = if ctx.thorough { 30_000 } else { 3_000 };
        let mut r = rng.fork();
        for _ in 0..n_loose {
            let mut items = vec![];
            let words = 2 + r.below(6) as usize;
            for w in 0..words {
                items.push(It::Box(*r.pick(&[10, 15, 30, 30, 20])));
                if w + 1 < words {
                    if r.chance(1, 4) {
                        items.push(It::Penalty(*r.pick(&[70, 0, -50, 150])));
                    }
                    items.push(It::Glue(5, *r.pick(&[40, 40, 20, 10]), 0, *r.pick(&[0, 0, 2])));
                }
            }
            items.push(It::Penalty(10000));
            items.push(It::Glue(0, *r.pick(&[110, 60, 30, 200]), 0, 0));
            let inst = Inst {
                tol: *r.pick(&[200, 200, 1000, 10000]),
                emerg: 0,
                line_pen: 10,
                hyph_pen: 50,
                exhyph_pen: 50,
                adj: *r.pick(&[10000, 10000, 0]),
                dbl: 10000,
                fin: 5000,
                left: [0; 4],
                right: [0; 4],
                widths: vec![*r.pick(&[100, 100, 80, 120])],
                items,
            };
            let q = *r.pick(&[1, 1, -1, 2, -2, 0]);
            let force = r.chance(1, 5) as i64;
            v.push(format!("kp {force} {q} {}", join(&inst.encode())));
        }
        let n = if ctx.thorough { 40_000 } else { 4_000 };
        let mut r = rng.fork();
        for _ in 0..n {
            let inst = Self::gen_inst(&mut r, 60);
            let q = *r.pick(&[0, 0, 0, 0, 0, 0, 1, -1, 2, -2]);
            let force = r.chance(1, 4) as i64;
            v.push(format!("kp {force} {q} {}", join(&inst.encode())));
        }
        v
    }

    fn run_case(&mut self, case: &str, drv: &mut Driver) -> CaseOutcome {
        let mut out = CaseOutcome::default();
        let rest = case.strip_prefix("kp ").expect("case starts with kp");
        let v = parse_i64s(rest);
        let (force, q) = (v[0] != 0, v[1]);
        let inst = Inst::decode(&v[2..]);
        let real = caught(|| run_real(&inst, force, q));
        let (res, log) = match real {
            Err(p) => {
                // A panic inside the quantifier is a violation; outside (possible i32 overflow of
                // demerits on absurd parameters) the driver's domain check decides.
                let verdict = drv.ask(&format!("judge {} {} {} -1 0", force as i64, q, join(&inst.encode())));
                if verdict.contains("verdict=skip:") {
                    out.tag("skip:panic-outside-domain");
                } else {
                    out.fail(Kind::ImplPanic, "break", format!("panic {}", strip_msg(&p)), format!("break_line_single_attempt panicked: {p}"));
                }
                return out;
            }
            Ok(x) => x,
        };
        if let Some(msg) = &log.inconsistent {
            out.fail(Kind::ImplVsModel, "log", "logger protocol", msg.clone());
        }
        let mut req = format!("judge {} {} {}", force as i64, q, join(&inst.encode()));
        match &res {
            None => req.push_str(" -1"),
            Some(bs) => {
                req.push_str(&format!(" {}", bs.len()));
                for b in bs {
                    req.push_str(&format!(" {b}"));
                }
            }
        }
        req.push_str(&format!(" {}", log.cands.len()));
        for c in &log.cands {
            req.push(' ');
            req.push_str(&join(&c[..]));
        }
        let reply = drv.ask(&req);
        let field = |k: &str| -> String {
            reply.split_whitespace().find_map(|w| w.strip_prefix(&format!("{k}=")).map(|s| s.to_string())).unwrap_or_default()
        };
        let verdict = field("verdict");
        let cand = field("cand");
        if verdict.is_empty() {
            panic!("driver reply malformed: {reply} for {req}");
        }
        out.tag(format!("verdict:{verdict}"));
        out.tag(match &res {
            None => "impl:none".to_string(),
            Some(b) => format!("impl:lines={}", b.len().min(9)),
        });
        out.tag(format!("q={q} force={}", force as i64));
        let legal = field("legal").split(',').filter(|s| !s.is_empty()).count();
        out.nontrivial = !verdict.starts_with("skip") && legal >= 2;
        if let Some(reason) = verdict.strip_prefix("bad:") {
            let kind = if reason == "model-inconsistent" { Kind::ModelVsSpec } else { Kind::ImplVsSpec };
            out.fail(kind, "verdict", format!("line breaking: {reason}"), format!("result: {res:?}\nreply: {reply}"));
        }
        // stream `algo`: the Lean transcription of the active-list algorithm (Model/C04Algo.lean) must
        // return exactly the break list the real code returned. Not compared where the code's i32
        // arithmetic may overflow (the model works in unbounded integers).
        let algo = field("algo");
        if algo.is_empty() {
            panic!("driver reply has no algo field: {reply}");
        }
        if verdict == "skip:demerits-may-overflow" || algo.starts_with("skip:") {
            out.tag("algo:not-compared");
        } else {
            let real = match &res {
                None => "none".to_string(),
                Some(bs) => format!("[{}]", bs.iter().map(|b| b.to_string()).collect::<Vec<_>>().join(",")),
            };
            if real == algo {
                out.tag("algo:equal");
            } else {
                out.fail(
                    Kind::ImplVsModel,
                    "algo",
                    "algo: break list differs",
                    format!("real break_line_single_attempt: {real}\nmodel C04.algo: {algo}\nreply: {reply}"),
                );
            }
        }
        // stream `trace`: the active nodes the real run creates (debug::Logger::log_new_active_node), in
        // order, with line number, fitness class, total demerits, hyphenated flag and predecessor, must
        // be exactly the nodes the transcription creates — a step-by-step tie, not only the final answer.
        let trace = field("trace");
        if verdict == "skip:demerits-may-overflow" || trace.starts_with("skip:") || trace.is_empty() {
            out.tag("trace:not-compared");
        } else {
            let real = if log.trace.is_empty() {
                "-".to_string()
            } else {
                log.trace.iter().map(|t| format!("{}:{}:{}:{}:{}:{}", t[0], t[1], t[2], t[3], t[4], t[5])).collect::<Vec<_>>().join(",")
            };
            if real == trace {
                out.tag(format!("trace:equal nodes={}", match log.trace.len() { 0 => "0", 1..=4 => "1-4", 5..=19 => "5-19", 20..=99 => "20-99", _ => "100+" }));
            } else {
                let k = real.split(',').zip(trace.split(',')).take_while(|(a, b)| a == b).count();
                out.fail(
                    Kind::ImplVsModel,
                    "trace",
                    "algo: created active nodes differ",
                    format!("first difference at node #{k} (elem:line:fitness:total:hyphenated:previous_elem)\nreal : {real}\nmodel: {trace}"),
                );
            }
        }
        // sanity stream `thm`: where the hypotheses of `algo_optimal_dec` / `algo_loose` hold, the model's
        // answer must be what the theorem says (computed by the driver from the reference vector).
        match field("thm").as_str() {
            "ok:optimal" => out.tag("thm:algo_optimal hypotheses hold"),
            "ok:loose" => out.tag("thm:algo_loose hypotheses hold"),
            "n/a" => out.tag("thm:n/a (force, non-monotone or unbounded)"),
            other => out.fail(Kind::ModelVsSpec, "thm", format!("theorem contradicted by the model ({other})"), format!("reply: {reply}")),
        }
        if let Some(what) = cand.strip_prefix("bad:") {
            let mut parts = what.splitn(2, ':');
            let idx: usize = parts.next().unwrap().parse().unwrap_or(0);
            let w = parts.next().unwrap_or("?");
            let c = log.cands.get(idx).copied().unwrap_or([0; 8]);
            let at = match inst.items.get(c[0].max(0) as usize) {
                _ if c[0] < 0 => "start",
                Some(It::Glue(..)) => "glue",
                Some(It::Kern(..)) => "kern",
                Some(It::Penalty(_)) => "penalty",
                Some(It::Disc(..)) => "disc",
                Some(It::Math(_)) => "math",
                _ => "other",
            };
            out.fail(
                Kind::ImplVsModel,
                "candidate",
                format!("candidate line {w} differs (line starts after break at {at})"),
                format!("logged candidate a={} L={} pf={} b={} badness={} penalty={} demerits={} artificial={}\nreply: {reply}", c[0], c[1], c[2], c[3], c[4], c[5], c[6], c[7]),
            );
        }
        out
    }

    fn shrink(&self, case: &str) -> Vec<String> {
        let rest = case.strip_prefix("kp ").unwrap();
        let v = parse_i64s(rest);
        let inst = Inst::decode(&v[2..]);
        let mut c = vec![];
        let n = inst.items.len();
        let mut push = |items: Vec<It>, c: &mut Vec<String>| {
            let mut i = inst.clone();
            i.items = items;
            fix_replace(&mut i.items);
            c.push(format!("kp {} {} {}", v[0], v[1], join(&i.encode())));
        };
        if n > 3 {
            // drop a word-sized chunk from the front or the middle, keeping the paragraph end
            push(inst.items[n / 3..].to_vec(), &mut c);
            let mut m = inst.items[..n / 3].to_vec();
            m.extend_from_slice(&inst.items[2 * n / 3..]);
            push(m, &mut c);
        }
        for i in 0..n {
            let mut m = inst.items.clone();
            m.remove(i);
            push(m, &mut c);
        }
        // simplify parameters
        let mut i2 = inst.clone();
        i2.left = [0; 4];
        i2.right = [0; 4];
        i2.emerg = 0;
        i2.widths.truncate(1);
        if i2.encode() != inst.encode() {
            c.push(format!("kp {} {} {}", v[0], v[1], join(&i2.encode())));
        }
        c
    }
}

fn main() {
    run(C04);
}
