//! C08 — checkpointing a VM is transparent (exploration skeleton; replaced below).
use std::collections::BTreeMap;
use texlang::vm::VM;
use texlang_stdlib::StdLibState;
use vh::*;

#[derive(Clone, Copy, Debug, PartialEq, Eq)]
enum Fmt {
    None,
    Json,
    MsgPack,
    Bincode,
}

impl Fmt {
    fn name(self) -> &'static str {
        match self {
            Fmt::None => "none",
            Fmt::Json => "json",
            Fmt::MsgPack => "msgpack",
            Fmt::Bincode => "bincode",
        }
    }
}

fn err_class(title: &str) -> String {
    let mut s = String::new();
    for c in title.chars() {
        if c == '\\' || c == '`' {
            break;
        }
        if c.is_ascii_alphabetic() {
            s.push(c.to_ascii_lowercase());
        } else if c == ' ' && !s.ends_with('-') && !s.is_empty() {
            s.push('-');
        }
        if s.len() >= 48 {
            break;
        }
    }
    s.trim_end_matches('-').to_string()
}

#[derive(Clone, Debug, PartialEq, Eq)]
enum Run {
    Ok(String),
    Err(String, String), // class, partial output is not available
    Panic(String),
}

impl Run {
    fn class(&self) -> String {
        match self {
            Run::Ok(_) => "ok".into(),
            Run::Err(c, _) => format!("err:{c}"),
            Run::Panic(p) => format!("panic:{}", strip_msg(p)),
        }
    }
}

fn new_vm() -> VM<StdLibState> {
    VM::<StdLibState>::new_with_built_in_commands(texlang_stdlib::built_in_commands::<StdLibState>())
}

fn run_src(vm: &mut VM<StdLibState>, name: &str, src: &str) -> Run {
    let r = caught(|| {
        vm.push_source(name, src).unwrap();
        match texlang_stdlib::script::run_to_string(vm) {
            Ok(s) => Ok(s),
            Err(e) => Err(e.error.title()),
        }
    });
    match r {
        Err(p) => Run::Panic(p),
        Ok(Ok(s)) => Run::Ok(s),
        Ok(Err(t)) => Run::Err(err_class(&t), t),
    }
}

fn checkpoint(vm: VM<StdLibState>, fmt: Fmt) -> Result<VM<StdLibState>, String> {
    let built_ins = texlang_stdlib::built_in_commands::<StdLibState>;
    match fmt {
        Fmt::None => Ok(vm),
        Fmt::Json => caught(|| {
            let s = serde_json::to_string(&vm).unwrap();
            let mut d = serde_json::Deserializer::from_str(&s);
            VM::deserialize_with_built_in_commands(&mut d, built_ins()).unwrap()
        }),
        Fmt::MsgPack => caught(|| {
            let s = rmp_serde::to_vec(&vm).unwrap();
            let mut d = rmp_serde::decode::Deserializer::from_read_ref(&s);
            VM::deserialize_with_built_in_commands(&mut d, built_ins()).unwrap()
        }),
        Fmt::Bincode => caught(|| {
            let s = bincode::serde::encode_to_vec(&vm, bincode::config::standard()).unwrap();
            let d: Box<texlang::vm::serde::DeserializedVM<StdLibState>> =
                bincode::serde::decode_from_slice(&s, bincode::config::standard()).unwrap().0;
            texlang::vm::serde::finish_deserialization(d, built_ins())
        }),
    }
}

fn state_json(vm: &VM<StdLibState>) -> serde_json::Value {
    let mut v = serde_json::to_value(&vm.state).unwrap();
    if let Some(o) = v.as_object_mut() {
        o.remove("time");
    }
    v
}

struct Obs {
    r1: Run,
    ck: Option<String>, // checkpoint panic
    r2: Option<Run>,
    fin: Option<serde_json::Value>,
}

fn run_pair(p1: &str, p2: &str, fmt: Fmt) -> Obs {
    let mut vm = new_vm();
    let r1 = run_src(&mut vm, "p1.tex", p1);
    if !matches!(r1, Run::Ok(_)) {
        return Obs { r1, ck: None, r2: None, fin: None };
    }
    let mut vm = match checkpoint(vm, fmt) {
        Ok(vm) => vm,
        Err(p) => return Obs { r1, ck: Some(p), r2: None, fin: None },
    };
    let r2 = run_src(&mut vm, "p2.tex", p2);
    let fin = caught(|| state_json(&vm)).ok();
    Obs { r1, ck: None, r2: Some(r2), fin }
}

fn diff_components(a: &serde_json::Value, b: &serde_json::Value) -> Vec<String> {
    let mut v = vec![];
    if let (Some(a), Some(b)) = (a.as_object(), b.as_object()) {
        for (k, x) in a {
            if b.get(k) != Some(x) {
                v.push(k.clone());
            }
        }
    }
    v
}

fn decode(s: &str) -> String {
    s.replace("<NL>", "\n")
}

struct C08;

impl Property for C08 {
    fn id(&self) -> &'static str {
        "C08"
    }
    fn rule(&self) -> String {
        "exploration".into()
    }
    fn generate(&mut self, _ctx: &Ctx, _rng: &mut Rng) -> Vec<String> {
        vec![]
    }
    fn run_case(&mut self, case: &str, _drv: &mut Driver) -> CaseOutcome {
        let mut o = CaseOutcome::default();
        if let Some(p1) = case.strip_prefix("dump ") {
            let mut vm = new_vm();
            println!("{:?}", run_src(&mut vm, "p1.tex", &decode(p1)));
            let v = serde_json::to_value(&vm).unwrap();
            println!("commands_map: {}", v["commands_map"]);
            println!("save_stack: {}", v["save_stack"]);
            let mut i = v["internal"].clone();
            i.as_object_mut().unwrap().remove("tracer");
            println!("internal: {}", i);
            for (k, x) in v["state"].as_object().unwrap() {
                let t = x.to_string();
                if t.len() < 300 { println!("state.{k}: {t}"); } else { println!("state.{k}: [{} bytes]", t.len()); }
            }
            return o;
        }
        let body = case.strip_prefix("tex ").unwrap();
        let (p1, p2) = body.split_once("<CP>").unwrap();
        let (p1, p2) = (decode(p1), decode(p2));
        let a = run_pair(&p1, &p2, Fmt::None);
        println!("A: r1={:?} r2={:?}", a.r1, a.r2);
        let mut cat = p1.clone();
        cat.push_str(&p2);
        let mut vm = new_vm();
        println!("C: {:?}", run_src(&mut vm, "c.tex", &cat));
        for f in [Fmt::Json, Fmt::MsgPack, Fmt::Bincode] {
            let t = std::time::Instant::now();
            let b = run_pair(&p1, &p2, f);
            println!("{}: ck={:?} r2={:?} {:?}", f.name(), b.ck, b.r2, t.elapsed());
            if let (Some(x), Some(y)) = (&a.fin, &b.fin) {
                println!("   final-state diff: {:?}", diff_components(x, y));
            }
            if b.r2 != a.r2 {
                o.fail(Kind::ImplVsSpec, f.name(), format!("A={} B={}", a.r2.as_ref().map(|r| r.class()).unwrap_or_default(), b.r2.as_ref().map(|r| r.class()).unwrap_or_default()), "");
            }
        }
        let _ = BTreeMap::<String, String>::new();
        o
    }
}

fn main() {
    run(C08);
}
