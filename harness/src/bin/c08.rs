//! C08 — checkpointing a VM is transparent: serialise, deserialise with the same built-ins,
//! continue: identical behaviour on all further input, in JSON, MessagePack and bincode.
//!
//! Case strings:
//!   `tex <P1><CP><P2>`   raw TeX (`<NL>` = newline). P1 is run on a fresh `VM::<StdLibState>`
//!        through `script::run_to_string`; then the VM is checkpointed; then P2 is pushed and run.
//!        Four runs: no checkpoint (A), and one per format (B): serde_json, rmp-serde, bincode 2 —
//!        driven exactly like `texlang_testing::run_serde_test` drives them. Compared: result
//!        class of P2 (ok / error class / panic place), exact output of P2, and the final state
//!        (every component of `StdLibState` except `time`, and the visible command map with macro
//!        indices resolved). I vs S only (the verdict on the two observations is Lean's `same`).
//!   `ops <ints>`         a program of modelled operations (encoding of `lean/Driver/C08.lean`:
//!        groups, register/parameter assignments with `\global` prefixes, `\def`/`\gdef`/`\chardef`/
//!        `\mathchardef`/`\countdef`/`\toksdef`/`\let` on control sequences and active characters,
//!        reads) with one checkpoint marker `9`. Rendered to TeX; a read of a command is rendered
//!        according to what the model says the command is. A vs B as above (I vs S), B's reads vs
//!        the model's reads after `deserialize (serialize vm)` (I vs M), model with vs without
//!        checkpoint (M vs S; impossible while `checkpoint_transparent` holds).
//!   `names`              start-up check of `NameTableSound` on the real built-in map: every
//!        built-in `\let` to a fresh name, every built-in variable assigned inside a group; the
//!        serialised names are resolved through the serialised interner and must be the built-in's
//!        own name (I vs S).
//!   `dump <P1>`          debugging aid (never generated).

use std::collections::BTreeMap;
use texlang::vm::VM;
use texlang_stdlib::StdLibState;
use vh::*;

// ------------------------------------------------------------------------------------------
// Running the real code
// ------------------------------------------------------------------------------------------

#[derive(Clone, Copy, Debug, PartialEq, Eq)]
enum Fmt {
    None,
    Json,
    MsgPack,
    Bincode,
}

const FORMATS: [Fmt; 3] = [Fmt::Json, Fmt::MsgPack, Fmt::Bincode];

impl Fmt {
    fn name(self) -> &'static str {
        match self {
            Fmt::None => "none",
            Fmt::Json => "json",
            Fmt::MsgPack => "msgpack",
            Fmt::Bincode => "bincode",
        }
    }
}

/// Error titles → small classes (no names, no numbers).
fn err_class(title: &str) -> String {
    let mut s = String::new();
    for c in title.chars() {
        if c == '\\' || c == '`' {
            break;
        }
        if c.is_ascii_alphabetic() {
            s.push(c.to_ascii_lowercase());
        } else if c == ' ' && !s.ends_with('-') && !s.is_empty() {
            s.push('-');
        }
        if s.len() >= 48 {
            break;
        }
    }
    s.trim_end_matches('-').to_string()
}

#[derive(Clone, Debug, PartialEq, Eq)]
enum Run {
    Ok(String),
    Err(String),
    Panic(String),
}

impl Run {
    fn class(&self) -> String {
        match self {
            Run::Ok(_) => "ok".into(),
            Run::Err(c) => format!("err:{c}"),
            Run::Panic(p) => format!("panic:{}", strip_msg(p)),
        }
    }
    fn out(&self) -> &str {
        match self {
            Run::Ok(s) => s,
            _ => "",
        }
    }
}

/// The built-ins of every VM of this harness: the standard library's, plus the two output
/// commands of the script component (`\par`, so that blank lines are legal, and `\newline`).
fn built_ins() -> std::collections::HashMap<&'static str, texlang::command::BuiltIn<StdLibState>> {
    let mut m = texlang_stdlib::built_in_commands::<StdLibState>();
    m.insert("par", texlang_stdlib::script::get_par());
    m.insert("newline", texlang_stdlib::script::get_newline());
    m
}

/// The host re-attaches what a VM cannot serialise: here the terminal (an exhausted mock, so that
/// a `\read` that falls through to the terminal is an error instead of a wait on stdin).
fn attach_host(vm: &mut VM<StdLibState>) {
    vm.state.error_mode.set_default_terminal(std::rc::Rc::new(std::cell::RefCell::new(texlang_common::MockTerminalIn::default())));
}

/// Font selectors `\\fonta` … `\\fontd` (fonts 1..4), defined by the host through the public
/// API of the command map: the standard library has no command that loads a font, and the VM's
/// current font and font save stack are part of what a checkpoint must keep.
const FONTS: &[&str] = &["fonta", "fontb", "fontc", "fontd"];

fn new_vm() -> VM<StdLibState> {
    let mut vm = VM::<StdLibState>::new_with_built_in_commands(built_ins());
    attach_host(&mut vm);
    for (i, n) in FONTS.iter().enumerate() {
        let name = vm.cs_name_interner_mut().get_or_intern(n);
        vm.commands_map.insert(
            texlang::token::CommandRef::ControlSequence(name),
            texlang::command::Command::Font(texlang::types::Font(i as u16 + 1)),
            texcraft_stdext::collections::groupingmap::Scope::Global,
        );
    }
    vm
}

fn run_src(vm: &mut VM<StdLibState>, name: &str, src: &str) -> Run {
    let r = caught(|| {
        vm.push_source(name, src).unwrap();
        match texlang_stdlib::script::run_to_string(vm) {
            Ok(s) => Ok(s),
            Err(e) => Err(e.error.title()),
        }
    });
    match r {
        Err(p) => Run::Panic(p),
        Ok(Ok(s)) => Run::Ok(s),
        Ok(Err(t)) => Run::Err(err_class(&t)),
    }
}

thread_local! {
    /// What the JSON checkpoint saw of the parts of a VM that are "at rest" when a run has
    /// returned (set by `checkpoint(.., Fmt::Json)`, read by `run_pair` on the same thread).
    static AT_REST: std::cell::RefCell<Option<String>> = const { std::cell::RefCell::new(None) };
}

/// From the serialised VM: the input stack (`expansions` length and characters the lexer has not
/// delivered, current source first), the pending `\\global` flag, and for every open `\\openin`
/// stream `position/length` of its current line.
fn at_rest_report(json: &str) -> Option<String> {
    let part = |key: &str| -> Option<serde_json::Value> {
        let i = json.find(&format!("\"{key}\": "))? + key.len() + 4;
        serde_json::Deserializer::from_str(&json[i..]).into_iter::<serde_json::Value>().next()?.ok()
    };
    let left = |root: &serde_json::Value| -> u64 {
        let r = &root["raw_lexer"];
        let src = r["source_code"].as_str().map(|x| x.len() as u64).unwrap_or(0);
        let line = r["current_line"].as_str().map(|x| x.chars().count() as u64).unwrap_or(0);
        src.saturating_sub(r["next_line"].as_u64().unwrap_or(0)) + line.saturating_sub(r["pos"].as_u64().unwrap_or(0))
    };
    let internal = part("internal")?;
    let mut stack = vec![];
    let mut srcs = vec![internal["current_source"].clone()];
    // `sources` is a Vec used as a stack: the last element is popped first
    srcs.extend(internal["sources"].as_array()?.iter().rev().cloned());
    for src in &srcs {
        stack.push(format!("{} {}", src["expansions"].as_array().map(|a| a.len()).unwrap_or(0), left(&src["root"])));
    }
    let prefix = part("prefix")?;
    let input = part("input")?;
    let mut pos = vec![];
    for f in input["files"].as_array()? {
        if !f.is_null() {
            // byte position inside the current line / byte length of the current line
            let r = &f["raw_lexer"];
            pos.push(format!("{}/{}", r["pos"].as_u64().unwrap_or(u64::MAX), r["current_line"].as_str().map(|x| x.len()).unwrap_or(0)));
        }
    }
    Some(format!("{}|{}|{}|{}", stack.len(), stack.join(" "), prefix["scope"].as_str().unwrap_or("?"), pos.join(",")))
}

/// Error texts of the encoders → small classes (no positions, no numbers).
fn enc_err(e: impl std::fmt::Display) -> String {
    let t = e.to_string();
    let t: String = t.chars().take_while(|c| *c != ':' && !c.is_ascii_digit()).collect();
    t.trim().to_string()
}

/// Serialise and deserialise with the same built-ins (as `texlang_testing::run_serde_test`).
/// `Err("refused: …")`: the encoder or decoder returned an error; `Err(place)`: a panic.
fn checkpoint(vm: VM<StdLibState>, fmt: Fmt) -> Result<VM<StdLibState>, String> {
    let flat = |r: Result<Result<VM<StdLibState>, String>, String>| r.and_then(|x| x);
    let vm = match fmt {
        Fmt::None => Ok(vm),
        Fmt::Json => flat(caught(|| {
            let s = serde_json::to_string_pretty(&vm).map_err(|e| format!("refused: cannot serialise ({})", enc_err(e)))?;
            AT_REST.with(|r| *r.borrow_mut() = at_rest_report(&s));
            let mut d = serde_json::Deserializer::from_str(&s);
            VM::deserialize_with_built_in_commands(&mut d, built_ins()).map_err(|e| format!("refused: cannot deserialise ({})", enc_err(e)))
        })),
        Fmt::MsgPack => flat(caught(|| {
            let s = rmp_serde::to_vec(&vm).map_err(|e| format!("refused: cannot serialise ({})", enc_err(e)))?;
            let mut d = rmp_serde::decode::Deserializer::from_read_ref(&s);
            VM::deserialize_with_built_in_commands(&mut d, built_ins()).map_err(|e| format!("refused: cannot deserialise ({})", enc_err(e)))
        })),
        Fmt::Bincode => flat(caught(|| {
            let s = bincode::serde::encode_to_vec(&vm, bincode::config::standard())
                .map_err(|e| format!("refused: cannot serialise ({})", enc_err(e)))?;
            let d: Box<texlang::vm::serde::DeserializedVM<StdLibState>> = bincode::serde::decode_from_slice(&s, bincode::config::standard())
                .map_err(|e| format!("refused: cannot deserialise ({})", enc_err(e)))?
                .0;
            Ok(texlang::vm::serde::finish_deserialization(d, built_ins()))
        })),
    };
    vm.map(|mut vm| {
        attach_host(&mut vm);
        vm
    })
}

fn fxhash_bytes(b: &[u8]) -> u64 {
    let mut h: u64 = 0xcbf29ce484222325;
    for x in b {
        h ^= *x as u64;
        h = h.wrapping_mul(0x100000001b3);
    }
    h
}

fn debug() -> bool {
    std::env::var("C08_DEBUG").is_ok()
}

fn digest(s: String) -> String {
    if debug() && s.len() < 6000 {
        return s;
    }
    format!("{:016x}.{}", fxhash(&s), s.len())
}

/// Digest of a big plain array (registers): bincode bytes (no maps, no names inside).
fn big<T: serde::Serialize>(x: &T) -> String {
    match bincode::serde::encode_to_vec(x, bincode::config::standard()) {
        Ok(v) => format!("{:016x}.{}", fxhash_bytes(&v), v.len()),
        Err(e) => format!("unserialisable:{e}"),
    }
}

/// Interned key → name, from the serialised interner (keys are 1-based positions in `ends`).
struct Names {
    buffer: String,
    ends: Vec<usize>,
}

impl Names {
    fn of(vm: &VM<StdLibState>) -> Names {
        let v = serde_json::to_value(vm.cs_name_interner()).unwrap_or(serde_json::Value::Null);
        Names {
            buffer: v["buffer"].as_str().unwrap_or("").to_string(),
            ends: v["ends"].as_array().map(|a| a.iter().filter_map(|x| x.as_u64()).map(|x| x as usize).collect()).unwrap_or_default(),
        }
    }
    fn resolve(&self, k: u64) -> String {
        let k = k as usize;
        if k == 0 || k > self.ends.len() {
            return format!("<key {k}>");
        }
        let start = if k == 1 { 0 } else { self.ends[k - 2] };
        self.buffer[start..self.ends[k - 1]].to_string()
    }
    fn key_of(&self, name: &str) -> Option<u64> {
        (1..=self.ends.len() as u64).find(|&k| self.resolve(k) == name)
    }
}

/// Canonical JSON: interned keys of control sequences replaced by their names, trace keys
/// dropped (they identify source positions for error messages, not behaviour).
fn canon(v: &serde_json::Value, names: &Names) -> serde_json::Value {
    use serde_json::Value;
    match v {
        Value::Object(m) => {
            let mut out = serde_json::Map::new();
            for (k, x) in m {
                if k == "trace_key" {
                    continue;
                }
                if k == "ControlSequence" || k == "BuiltIn" {
                    if let Some(n) = x.as_u64() {
                        out.insert(k.clone(), Value::String(names.resolve(n)));
                        continue;
                    }
                }
                if k == "VariableArrayStatic" {
                    if let Some(a) = x.as_array() {
                        if let (Some(n), Some(i)) = (a.first().and_then(|n| n.as_u64()), a.get(1)) {
                            out.insert(k.clone(), Value::Array(vec![Value::String(names.resolve(n)), i.clone()]));
                            continue;
                        }
                    }
                }
                out.insert(k.clone(), canon(x, names));
            }
            Value::Object(out)
        }
        Value::Array(a) => Value::Array(a.iter().map(|x| canon(x, names)).collect()),
        x => x.clone(),
    }
}

fn small<T: serde::Serialize>(x: &T, names: &Names) -> String {
    match serde_json::to_value(x) {
        Ok(v) => digest(canon(&v, names).to_string()),
        Err(e) => format!("unserialisable:{e}"),
    }
}

/// The visible command map, canonical: name → command, macro indices replaced by the macro.
fn canon_cmds(vm: &VM<StdLibState>, names: &Names) -> String {
    let v = serde_json::to_value(&vm.commands_map).unwrap_or(serde_json::Value::Null);
    let macros = v.get("macros").and_then(|m| m.as_array()).cloned().unwrap_or_default();
    let mut out: BTreeMap<String, String> = BTreeMap::new();
    let Some(bcont) = v.get("commands").and_then(|c| c.get("backing_container")).and_then(|b| b.as_object()) else {
        return "no commands".into();
    };
    for (k, c) in bcont {
        let s = match c.get("Macro").and_then(|u| u.as_u64()) {
            Some(u) => format!("Macro:{}", macros.get(u as usize).map(|m| canon(m, names).to_string()).unwrap_or_default()),
            None => canon(c, names).to_string(),
        };
        out.insert(names.resolve(k.parse().unwrap_or(0)), s);
    }
    let mut s = String::new();
    for (k, c) in out {
        s.push_str(&format!("{k}={c};"));
    }
    digest(s)
}

/// The active characters (code points 0..=255) through the public API of the command map.
fn canon_active(vm: &VM<StdLibState>, names: &Names) -> String {
    use texlang::command::Command;
    let mut s = String::new();
    for c in (0u32..256).filter_map(char::from_u32) {
        let r = texlang::token::CommandRef::ActiveCharacter(c);
        if let Some(cmd) = vm.commands_map.get_command(&r) {
            let d = match cmd {
                Command::Expansion(..) => "expansion".to_string(),
                Command::Execution(..) => "execution".to_string(),
                Command::Variable(..) => "variable".to_string(),
                Command::Macro(m) => format!("macro:{}", serde_json::to_value(&**m).map(|v| canon(&v, names).to_string()).unwrap_or_default()),
                Command::CharacterTokenAlias(v) => format!("token:{}", serde_json::to_value(v).map(|v| canon(&v, names).to_string()).unwrap_or_default()),
                Command::Character(c) => format!("char:{}", *c as u32),
                Command::MathCharacter(_) => "mathchar".to_string(),
                Command::Font(_) => "font".to_string(),
            };
            s.push_str(&format!("{}={d};", c as u32));
        }
    }
    digest(s)
}

/// The state: one digest per component (everything but `time`, which is the wall clock, and
/// `script`, whose only serialisable content is nothing).
fn state_digests(vm: &VM<StdLibState>) -> BTreeMap<String, String> {
    let names = Names::of(vm);
    let s = &vm.state;
    let mut m = BTreeMap::new();
    // `array_refs` is written in HashMap order: sort it
    m.insert("alloc".into(), {
        let mut v = serde_json::to_value(&s.alloc).map(|v| canon(&v, &names)).unwrap_or(serde_json::Value::Null);
        if let Some(a) = v.get_mut("array_refs").and_then(|a| a.as_array_mut()) {
            a.sort_by_key(|x| x.to_string());
        }
        digest(v.to_string())
    });
    m.insert("catcode".into(), small(&s.codes_cat_code, &names));
    m.insert("mathcode".into(), small(&s.codes_math_code, &names));
    m.insert("conditional".into(), small(&s.conditional, &names));
    m.insert("endlinechar".into(), small(&s.end_line_char, &names));
    m.insert("errormode".into(), small(&s.error_mode, &names));
    m.insert("input".into(), small(&s.input, &names));
    m.insert("job".into(), small(&s.job, &names));
    m.insert("prefix".into(), small(&s.prefix, &names));
    m.insert("count".into(), big(&s.registers_i32));
    m.insert("dimen".into(), big(&s.registers_scaled));
    m.insert("skip".into(), big(&s.registers_glue));
    m.insert("toks".into(), small(&s.registers_token_list, &names));
    m.insert("repl".into(), small(&s.repl, &names));
    m.insert("tracingmacros".into(), small(&s.tracing_macros, &names));
    // the code tables once more, read through the public getters instead of the serialiser
    let mut codes = String::new();
    for c in (0u32..=400).chain([65535, 65536, 70000, 1114111]).filter_map(char::from_u32) {
        let cat = texlang_stdlib::codes::cat_code(s, c) as u8;
        let math = texlang_stdlib::codes::math_code(s, c).0;
        if cat != 12 || math != 0 {
            codes.push_str(&format!("{}:{cat}/{math};", c as u32));
        }
    }
    m.insert("code-tables".into(), digest(codes));
    m.insert("current-font".into(), vm.current_font().0.to_string());
    m.insert("commands".into(), canon_cmds(vm, &names));
    m.insert("active-characters".into(), canon_active(vm, &names));
    m
}

#[derive(Clone, Debug)]
struct Obs {
    r1: Run,
    ck: Option<String>, // the checkpoint panicked
    /// the state right after the checkpoint (for A: right after P1)
    mid: BTreeMap<String, String>,
    /// A only: name → index in the serialised macro table, as `SerializableMap::new` writes it
    share: BTreeMap<String, u64>,
    /// JSON run only: `at_rest_report` of the serialised VM
    at_rest: Option<String>,
    r2: Option<Run>,
    fin: BTreeMap<String, String>,
}

/// Which index of the serialised macro table every macro name gets (control sequences by name,
/// active characters by the character), read from the serialised command map.
fn macro_share(vm: &VM<StdLibState>) -> BTreeMap<String, u64> {
    let names = Names::of(vm);
    let v = serde_json::to_value(&vm.commands_map).unwrap_or(serde_json::Value::Null);
    let mut out = BTreeMap::new();
    for (field, is_cs) in [("commands", true), ("active_char", false)] {
        if let Some(bcont) = v.get(field).and_then(|c| c.get("backing_container")).and_then(|b| b.as_object()) {
            for (k, c) in bcont {
                if let Some(u) = c.get("Macro").and_then(|u| u.as_u64()) {
                    let name = if is_cs { format!("\\{}", names.resolve(k.parse().unwrap_or(0))) } else { k.clone() };
                    out.insert(name, u);
                }
            }
        }
    }
    out
}

fn run_pair(p1: &str, p2: &str, fmt: Fmt) -> Obs {
    let mut vm = new_vm();
    let r1 = run_src(&mut vm, "p1.tex", p1);
    let none = BTreeMap::new;
    if !matches!(r1, Run::Ok(_)) {
        return Obs { r1, ck: None, mid: none(), share: BTreeMap::new(), at_rest: None, r2: None, fin: none() };
    }
    let share = if fmt == Fmt::None { caught(|| macro_share(&vm)).unwrap_or_default() } else { BTreeMap::new() };
    let mut vm = match checkpoint(vm, fmt) {
        Ok(vm) => vm,
        Err(p) => return Obs { r1, ck: Some(p), mid: none(), share, at_rest: None, r2: None, fin: none() },
    };
    let at_rest = if fmt == Fmt::Json { AT_REST.with(|r| r.borrow_mut().take()) } else { None };
    let mid = caught(|| state_digests(&vm)).unwrap_or_default();
    let r2 = run_src(&mut vm, "p2.tex", p2);
    let fin = caught(|| state_digests(&vm)).unwrap_or_default();
    Obs { r1, ck: None, mid, share, at_rest, r2: Some(r2), fin }
}

/// A and the three B runs, each on its own thread (a VM is not `Send`; its observation is).
fn run_all(p1: &str, p2: &str) -> (Obs, Vec<(Fmt, Obs)>) {
    std::thread::scope(|s| {
        let ha = s.spawn(|| run_pair(p1, p2, Fmt::None));
        let hs: Vec<_> = FORMATS.iter().map(|&f| (f, s.spawn(move || run_pair(p1, p2, f)))).collect();
        let a = ha.join().unwrap();
        let bs = hs.into_iter().map(|(f, h)| (f, h.join().unwrap())).collect();
        (a, bs)
    })
}

fn hex(s: &str) -> String {
    if s.is_empty() {
        return "-".into();
    }
    s.bytes().map(|b| format!("{b:02x}")).collect()
}

/// The canonical observation of what happened from the checkpoint on, as driver words.
fn obs_words(o: &Obs) -> String {
    let mut w = vec![];
    match (&o.ck, &o.r2) {
        (Some(p), _) => w.push(format!("ckpanic:{}", strip_msg(p).replace(' ', "_"))),
        (None, Some(r)) => {
            w.push(r.class().replace(' ', "_"));
            w.push(hex(r.out()));
        }
        (None, None) => w.push("none".into()),
    }
    for (k, v) in &o.mid {
        w.push(format!("at-checkpoint.{k}={}", v.replace(' ', "_")));
    }
    for (k, v) in &o.fin {
        w.push(format!("final.{k}={}", v.replace(' ', "_")));
    }
    w.join(" ")
}

fn strip_ws(s: &str) -> String {
    s.chars().filter(|c| !c.is_whitespace()).collect()
}

/// Every difference between A and B, each with the identity of the defect it shows.
fn differences(a: &Obs, b: &Obs) -> Vec<(Kind, String, String)> {
    let mut out = vec![];
    if let Some(p) = &b.ck {
        if let Some(why) = p.strip_prefix("refused: ") {
            out.push((Kind::ImplVsSpec, format!("checkpoint fails: {why}"), p.clone()));
        } else {
            out.push((Kind::ImplPanic, format!("checkpoint panics at {}", strip_msg(p)), p.clone()));
        }
        return out;
    }
    let lost: Vec<&str> = a.mid.iter().filter(|(k, v)| b.mid.get(*k) != Some(v)).map(|(k, _)| k.as_str()).collect();
    if !lost.is_empty() {
        if debug() {
            for c in &lost {
                eprintln!("A.{c} = {}\nB.{c} = {}", a.mid[*c], b.mid[*c]);
            }
        }
        out.push((
            Kind::ImplVsSpec,
            format!("state lost at the checkpoint: {}", lost.join(",")),
            format!(
                "right after deserialisation the components {lost:?} differ from the serialised VM; then without checkpoint: {:?}, with: {:?}",
                a.r2, b.r2
            ),
        ));
        return out; // everything after is a consequence
    }
    let (Some(ra), Some(rb)) = (a.r2.as_ref(), b.r2.as_ref()) else { return out };
    if matches!(ra, Run::Panic(_)) {
        return out; // the uninterrupted VM panics on P2: C09's business, nothing to compare
    }
    if ra.class() != rb.class() {
        let kind = if matches!(rb, Run::Panic(_)) { Kind::ImplPanic } else { Kind::ImplVsSpec };
        out.push((
            kind,
            format!("after the checkpoint: {} without, {} with", ra.class(), rb.class()),
            format!("without checkpoint: {ra:?}; with: {rb:?}"),
        ));
        return out;
    }
    if ra.out() != rb.out() {
        let sig = if strip_ws(ra.out()) == strip_ws(rb.out()) {
            "output differs in white space only"
        } else {
            "output differs"
        };
        out.push((Kind::ImplVsSpec, sig.into(), format!("without checkpoint: {:?}; with: {:?}", ra.out(), rb.out())));
    }
    let comps: Vec<&str> = a.fin.iter().filter(|(k, v)| b.fin.get(*k) != Some(v)).map(|(k, _)| k.as_str()).collect();
    if !comps.is_empty() {
        if debug() {
            for c in &comps {
                eprintln!("A.{c} = {}\nB.{c} = {}", a.fin[*c], b.fin[*c]);
            }
        }
        out.push((
            Kind::ImplVsSpec,
            format!("final state differs: {}", comps.join(",")),
            format!("components {:?} of the final state differ (output {:?})", comps, rb.out()),
        ));
    }
    out
}

fn decode(s: &str) -> String {
    s.replace("<NL>", "\n")
}

// ------------------------------------------------------------------------------------------
// Modelled operations
// ------------------------------------------------------------------------------------------

#[derive(Clone, Debug, PartialEq)]
enum MOp {
    Begin,
    End,
    Assign { pre: i64, kind: i64, idx: i64, val: i64 },
    Define { pre: i64, tk: i64, tn: i64, dk: i64, a: i64, b: i64 },
    ReadVar { kind: i64, idx: i64 },
    ReadCmd { tk: i64, tn: i64 },
    SelectFont { pre: i64, f: i64 },
    Ckpt,
}

fn enc_ops(ops: &[MOp]) -> Vec<i64> {
    let mut v = vec![];
    for o in ops {
        match o {
            MOp::Begin => v.push(0),
            MOp::End => v.push(1),
            MOp::Assign { pre, kind, idx, val } => v.extend([2, *pre, *kind, *idx, *val]),
            MOp::Define { pre, tk, tn, dk, a, b } => v.extend([3, *pre, *tk, *tn, *dk, *a, *b]),
            MOp::ReadVar { kind, idx } => v.extend([5, 0, *kind, *idx]),
            MOp::ReadCmd { tk, tn } => v.extend([5, 1, *tk, *tn]),
            MOp::SelectFont { pre, f } => v.extend([4, *pre, *f]),
            MOp::Ckpt => v.push(9),
        }
    }
    v
}

fn dec_ops(v: &[i64]) -> Option<Vec<MOp>> {
    let mut i = 0;
    let mut ops = vec![];
    while i < v.len() {
        let n = |k: usize| v.get(i + k).copied();
        match v[i] {
            0 => {
                ops.push(MOp::Begin);
                i += 1
            }
            1 => {
                ops.push(MOp::End);
                i += 1
            }
            2 => {
                ops.push(MOp::Assign { pre: n(1)?, kind: n(2)?, idx: n(3)?, val: n(4)? });
                i += 5
            }
            3 => {
                ops.push(MOp::Define { pre: n(1)?, tk: n(2)?, tn: n(3)?, dk: n(4)?, a: n(5)?, b: n(6)? });
                i += 7
            }
            4 => {
                ops.push(MOp::SelectFont { pre: n(1)?, f: n(2)? });
                i += 3
            }
            5 => {
                match n(1)? {
                    0 => ops.push(MOp::ReadVar { kind: n(2)?, idx: n(3)? }),
                    1 => ops.push(MOp::ReadCmd { tk: n(2)?, tn: n(3)? }),
                    _ => return None,
                }
                i += 4
            }
            9 => {
                ops.push(MOp::Ckpt);
                i += 1
            }
            _ => return None,
        }
    }
    Some(ops)
}

/// Active characters used as targets (made active by the preamble of P1).
const ACTIVE: &[char] = &['~', '!', '?', '@'];
/// Primitives of `C08.stdTable` and the built-in names they are registered under.
fn prim_name(p: i64) -> Option<&'static str> {
    Some(match p {
        0 => "relax",
        1 => "count",
        2 => "the",
        3 => "iftrue",
        4 => "catcode",
        20 => "globaldefs",
        21 => "endlinechar",
        22 => "year",
        23 => "month",
        24 => "day",
        25 => "time",
        40 => "def",
        41 => "let",
        42 => "else",
        43 => "fi",
        44 => "global",
        45 => "gdef",
        46 => "expandafter",
        47 => "ifnum",
        48 => "noexpand",
        _ => return None,
    })
}
/// Primitives whose *names* are redefined by generated programs (control-sequence target
/// `100 + p` is the built-in name of primitive `p`).
const NAMED_PRIMS: &[i64] = &[0, 1, 2, 3, 4, 22, 40, 41, 42, 43, 44, 45, 46, 47, 48];
const PARAMS: &[&str] = &["globaldefs", "endlinechar", "year", "month", "day", "time"];

/// Everything the rendered program itself needs is used through an alias made by the preamble
/// of P1, so that every primitive *name* is free to be redefined by the program.
const Z_ALIASES: &[&str] = &[
    "def", "gdef", "chardef", "mathchardef", "countdef", "toksdef", "let", "global", "the", "count", "dimen", "skip",
    "toks", "catcode", "mathcode", "globaldefs", "endlinechar", "year", "month", "day", "time", "fi", "else", "relax",
    "iftrue", "expandafter", "noexpand", "ifnum",
];

fn ops_preamble() -> String {
    let mut s = String::from("\\catcode`\\~=13 \\catcode`\\!=13 \\catcode`\\?=13 \\catcode`\\@=13 ");
    for n in Z_ALIASES {
        s.push_str(&format!("\\let\\z{n}=\\{n} "));
    }
    s
}

fn target(tk: i64, tn: i64) -> String {
    if tk == 1 {
        ACTIVE[(tn as usize) % ACTIVE.len()].to_string()
    } else if tn >= 100 {
        format!("\\{}", prim_name(tn - 100).unwrap_or("relax"))
    } else {
        // \ca, \cb, …
        let mut s = String::from("\\c");
        let mut n = tn as u64;
        loop {
            s.push((b'a' + (n % 26) as u8) as char);
            n /= 26;
            if n == 0 {
                break;
            }
        }
        s
    }
}

/// Code points behind the indices of `\catcode` / `\mathcode` variables: every initial
/// category that the rendered text does not itself rely on, both sides of 128 and of 256.
/// (`%` comment, `&` alignment, `$` math shift, `#` parameter, `_` subscript, `^` superscript,
/// `|` other, DEL invalid, NUL ignored, then code points without an entry in the low table.)
const CODE_CHARS: &[u32] = &[37, 38, 36, 35, 95, 94, 124, 127, 0, 128, 200, 255, 256, 300, 70000];

fn code_char(idx: i64) -> u32 {
    CODE_CHARS[(idx as usize) % CODE_CHARS.len()]
}

fn var_name(kind: i64, idx: i64) -> String {
    match kind {
        0 => format!("\\zcount {idx}"),
        1 => format!("\\zdimen {idx}"),
        2 => format!("\\zskip {idx}"),
        3 => format!("\\ztoks {idx}"),
        4 => format!("\\zcatcode {}", code_char(idx)),
        5 => format!("\\zmathcode {}", code_char(idx)),
        _ => format!("\\z{}", PARAMS[(idx as usize) % PARAMS.len()]),
    }
}

/// The category code a fresh VM gives a character (the model's "initial value").
fn initial_catcode(c: u32) -> u8 {
    thread_local! {
        static FRESH: VM<StdLibState> = new_vm();
    }
    FRESH.with(|vm| texlang_stdlib::codes::cat_code(&vm.state, char::from_u32(c).unwrap_or('x')) as u8)
}

/// How a value of the given kind is written in an assignment and printed by `\the`.
fn val_assign(kind: i64, val: i64) -> String {
    match kind {
        1 | 2 => format!("={val}pt "),
        3 => format!("={{{val}}}"),
        _ => format!("={val} "),
    }
}
fn val_shown(kind: i64, val: i64) -> String {
    match kind {
        1 | 2 => format!("{val}.0pt"),
        _ => format!("{val}"),
    }
}
/// What `\the` prints for a variable that was never assigned (`None`: depends on the clock).
fn default_shown(kind: i64, idx: i64) -> Option<String> {
    Some(match kind {
        0 => "0".into(),
        1 | 2 => "0.0pt".into(),
        3 => "".into(),
        4 => initial_catcode(code_char(idx)).to_string(),
        5 => "0".into(),
        _ => match idx {
            0 => "0".into(),
            1 => "13".into(),
            _ => return None,
        },
    })
}

/// One rendered op: TeX text, and for reads what the model expects between the brackets
/// (`None`: not predicted by the model — compared between the runs only).
struct Rendered {
    tex: String,
    probe: bool,
    expect: Option<String>,
}

fn model_val(word: &str, kind: i64, idx: i64) -> Option<String> {
    if word == "d" {
        default_shown(kind, idx)
    } else {
        word.strip_prefix('i').and_then(|x| x.parse::<i64>().ok()).map(|x| val_shown(kind, x))
    }
}

fn render_op(op: &MOp, model: &str, last: bool) -> Rendered {
    let plain = |tex: String| Rendered { tex, probe: false, expect: None };
    match op {
        MOp::Begin => plain("{".into()),
        MOp::End => plain("}".into()),
        MOp::Ckpt => plain(String::new()),
        MOp::SelectFont { pre, f } => plain(format!("{}\\{} ", "\\zglobal".repeat(*pre as usize), FONTS[((*f as usize).max(1) - 1) % FONTS.len()])),
        MOp::Assign { pre, kind, idx, val } => {
            plain(format!("{}{}{}", "\\zglobal".repeat(*pre as usize), var_name(*kind, *idx), val_assign(*kind, *val)))
        }
        MOp::Define { pre, tk, tn, dk, a, b } => {
            let t = target(*tk, *tn);
            let g = "\\zglobal".repeat(*pre as usize);
            plain(match dk {
                0 => format!("{g}\\zdef{t}{{(m{a})}}"),
                1 => format!("{g}\\zgdef{t}{{(m{a})}}"),
                2 => format!("{g}\\zchardef{t}={a} "),
                3 => format!("{g}\\zmathchardef{t}={a} "),
                4 => format!("{g}\\zcountdef{t}={a} "),
                5 => format!("{g}\\ztoksdef{t}={a} "),
                6 => format!("{g}\\zlet{t}={} ", (*a as u8) as char),
                7 => format!("{g}\\zlet{t}=\\zrelax "),
                9 => format!("{g}\\zlet{t}={} ", target(*a, *b)),
                // the primitive meaning, through the alias saved by the preamble
                _ => format!("{g}\\zlet{t}=\\z{} ", prim_name(*a).unwrap_or("relax")),
            })
        }
        MOp::ReadVar { kind, idx } => Rendered {
            tex: format!("[\\zthe{}]", var_name(*kind, *idx)),
            probe: true,
            expect: model_val(model, *kind, *idx),
        },
        MOp::ReadCmd { tk, tn } => {
            let t = target(*tk, *tn);
            let sp = if *tk == 0 { " " } else { "" };
            let (tex, expect): (String, Option<String>) = if model == "?" {
                // undefined: only observable as a fatal error, so only as the last thing
                if last {
                    (format!("[{t}{sp}]"), None)
                } else {
                    return plain(String::new());
                }
            } else if let Some(n) = model.strip_prefix('m') {
                (format!("[{t}{sp}]"), Some(format!("(m{n})")))
            } else if let Some(c) = model.strip_prefix('c').or_else(|| model.strip_prefix('t')) {
                let ch = c.parse::<u8>().map(|x| (x as char).to_string()).ok();
                (format!("[{t}{sp}]"), ch)
            } else if let Some(n) = model.strip_prefix('M') {
                (format!("[\\zthe{t}{sp}]"), Some(n.to_string()))
            } else if let Some(rest) = model.strip_prefix('v') {
                // v<kind>.<idx>=<d|x>
                let (ki, val) = rest.split_once('=').unwrap_or((rest, "d"));
                let (k, i) = ki.split_once('.').unwrap_or(("0", "0"));
                let (k, i) = (k.parse::<i64>().unwrap_or(0), i.parse::<i64>().unwrap_or(0));
                let w = if val == "d" { "d".to_string() } else { format!("i{val}") };
                (format!("[\\zthe{t}{sp}]"), model_val(&w, k, i))
            } else if let Some(p) = model.strip_prefix('P') {
                match p.parse::<i64>().unwrap_or(-1) {
                    0 => (format!("[{t}{sp}]"), Some(String::new())),
                    1 => (format!("[\\zthe{t}{sp}7 ]"), None),
                    2 => (format!("[{t}{sp}\\zcount 7 ]"), None),
                    3 => (format!("[{t}{sp}y\\zfi]"), Some("y".into())),
                    4 => (format!("[\\zthe{t}{sp}65 ]"), Some("11".into())),
                    40 | 45 => (format!("[{t}{sp}\\zq{{x}}\\zq]"), Some("x".into())),
                    41 => (format!("[{t}{sp}\\zq=A \\zq]"), Some("A".into())),
                    42 => (format!("[\\ziftrue a{t}{sp}b\\zfi]"), Some("a".into())),
                    43 => (format!("[\\ziftrue a{t}{sp}]"), Some("a".into())),
                    44 => (format!("[{t}{sp}\\zdef\\zq{{}}]"), Some(String::new())),
                    46 => (format!("[{t}{sp}\\zrelax\\zrelax]"), Some(String::new())),
                    47 => (format!("[{t}{sp}1<2 y\\zfi]"), Some("y".into())),
                    48 => (format!("[{t}{sp}\\zrelax]"), Some(String::new())),
                    20..=25 => (format!("[\\zthe{t}{sp}]"), None),
                    _ => return plain(String::new()),
                }
            } else {
                return plain(String::new());
            };
            Rendered { tex, probe: true, expect }
        }
    }
}

/// The bracketed probe results in an output, white space removed.
fn brackets(out: &str) -> Vec<String> {
    let s = strip_ws(out);
    let mut v = vec![];
    let mut cur: Option<String> = None;
    for c in s.chars() {
        match (c, &mut cur) {
            ('[', None) => cur = Some(String::new()),
            (']', Some(x)) => {
                v.push(std::mem::take(x));
                cur = None;
            }
            (c, Some(x)) => x.push(c),
            _ => {}
        }
    }
    v
}

// ------------------------------------------------------------------------------------------
// Generators
// ------------------------------------------------------------------------------------------

fn gen_val(kind: i64, rng: &mut Rng) -> i64 {
    match kind {
        0 => *rng.pick(&[0i64, 1, -1, 7, 42, -300, 2147483647, -2147483647]),
        1 | 2 => *rng.pick(&[0i64, 1, -1, 5, 100, -16000, 16000]),
        3 => rng.range(-9, 99),
        // every category, so also the type's default (12) and the character's own initial one
        4 => rng.range(0, 15),
        5 => *rng.pick(&[0i64, 0, 1, 291, 32767]),
        _ => 0,
    }
}

/// Register numbers: small ones (so that programs collide on them) and the boundaries of every
/// width an index could be truncated to (255/256, the last register of each array).
fn gen_idx(kind: i64, rng: &mut Rng) -> i64 {
    match kind {
        4 | 5 => rng.range(0, CODE_CHARS.len() as i64 - 1),
        3 => *rng.pick(&[0i64, 1, 2, 3, 0, 1, 2, 3, 128, 255]),
        _ => *rng.pick(&[0i64, 1, 2, 3, 0, 1, 2, 3, 255, 256, 300, 32767]),
    }
}

fn gen_assign(rng: &mut Rng, depth: usize) -> MOp {
    let kind = *rng.pick(&[0i64, 0, 0, 1, 2, 3, 4, 5, 6]);
    let pre = if depth > 0 && rng.chance(1, 3) { rng.range(1, 2) } else if rng.chance(1, 10) { 1 } else { 0 };
    if kind == 6 {
        let idx = *rng.pick(&[0i64, 0, 0, 1, 2, 3, 4, 5]);
        let val = match idx {
            0 => *rng.pick(&[-1i64, 0, 0, 1, 1]),
            1 => *rng.pick(&[-1i64, 13, 32]),
            _ => rng.range(-5, 3000),
        };
        MOp::Assign { pre, kind, idx, val }
    } else {
        MOp::Assign { pre, kind, idx: gen_idx(kind, rng), val: gen_val(kind, rng) }
    }
}

/// A fresh name, an active character, or the name of a built-in primitive.
fn gen_target(rng: &mut Rng) -> (i64, i64) {
    match rng.below(6) {
        0 | 1 => (1, rng.range(0, ACTIVE.len() as i64 - 1)),
        2 => (0, 100 + *rng.pick(NAMED_PRIMS)),
        _ => (0, rng.range(0, 4)),
    }
}

fn gen_define(rng: &mut Rng, depth: usize) -> MOp {
    let (tk, tn) = gen_target(rng);
    let dk = *rng.pick(&[0i64, 0, 0, 1, 2, 3, 4, 4, 5, 6, 7, 9, 9, 9, 10, 10]);
    // \global\chardef / \global\mathchardef are C01-c's business: never prefixed here
    let pre = if dk == 2 || dk == 3 {
        0
    } else if depth > 0 && rng.chance(1, 3) {
        rng.range(1, 2)
    } else if rng.chance(1, 10) {
        1
    } else {
        0
    };
    let (a, b) = match dk {
        0 | 1 => (rng.range(0, 5), 0),
        2 | 6 => (rng.range(65, 90), 0),
        3 => (*rng.pick(&[0i64, 1, 291, 32767]), 0),
        4 => (gen_idx(0, rng), 0),
        5 => (gen_idx(3, rng), 0),
        9 => gen_target(rng),
        // a primitive meaning; for a built-in name half of the time its own
        10 => (if tk == 0 && tn >= 100 && rng.chance(1, 2) { tn - 100 } else { gen_prim(rng) }, 0),
        _ => (0, 0),
    };
    MOp::Define { pre, tk, tn, dk, a, b }
}

fn gen_prim(rng: &mut Rng) -> i64 {
    if rng.chance(1, 5) {
        *rng.pick(&[20i64, 21, 22, 25])
    } else {
        *rng.pick(NAMED_PRIMS)
    }
}

/// Every `\\def` / `\\gdef` of a program gets its own body number: a body number then stands for
/// one `Rc<Macro>` allocation (aliases made by `\\let` share it), which is what the serialiser's
/// de-duplication is about.
fn renumber_bodies(ops: &mut [MOp]) {
    let mut next = 0;
    for op in ops.iter_mut() {
        if let MOp::Define { dk, a, .. } = op {
            if *dk == 0 || *dk == 1 {
                *a = next;
                next += 1;
            }
        }
    }
}

/// Reads prefer what the program has touched (a read of an undefined name is only observable
/// as the last thing a program does).
fn gen_read(rng: &mut Rng, seen_cmd: &[(i64, i64)], seen_var: &[(i64, i64)]) -> MOp {
    if rng.chance(1, 2) {
        let (tk, tn) = if !seen_cmd.is_empty() && rng.chance(5, 6) { *rng.pick(seen_cmd) } else { gen_target(rng) };
        MOp::ReadCmd { tk, tn }
    } else if !seen_var.is_empty() && rng.chance(3, 4) {
        let (kind, idx) = *rng.pick(seen_var);
        MOp::ReadVar { kind, idx }
    } else {
        let kind = *rng.pick(&[0i64, 0, 1, 2, 3, 4, 5, 6]);
        let idx = if kind == 6 { *rng.pick(&[0i64, 1, 2, 5]) } else { gen_idx(kind, rng) };
        MOp::ReadVar { kind, idx }
    }
}

/// P1: random ops leaving `depth` groups open; P2: reads, then every group closed with reads
/// after each `}` (so that restored values and definitions are observable), sometimes more
/// definitions and assignments in between.
fn gen_ops(rng: &mut Rng, size: usize) -> Vec<MOp> {
    let mut ops = vec![];
    let mut depth = 0usize;
    let mut seen_cmd: Vec<(i64, i64)> = vec![];
    let mut seen_var: Vec<(i64, i64)> = vec![];
    let note = |op: &MOp, seen_cmd: &mut Vec<(i64, i64)>, seen_var: &mut Vec<(i64, i64)>| match op {
        MOp::Define { tk, tn, dk, a, .. } => {
            seen_cmd.push((*tk, *tn));
            if *dk == 4 {
                seen_var.push((0, *a));
            }
            if *dk == 5 {
                seen_var.push((3, *a));
            }
        }
        MOp::Assign { kind, idx, .. } => seen_var.push((*kind, *idx)),
        _ => {}
    };
    let n1 = rng.range(1, size as i64) as usize;
    for _ in 0..n1 {
        let op = match rng.below(12) {
            0 | 1 => {
                depth += 1;
                MOp::Begin
            }
            2 if depth > 0 && rng.chance(1, 2) => {
                depth -= 1;
                MOp::End
            }
            3..=6 => gen_assign(rng, depth),
            7..=10 if rng.chance(1, 6) => MOp::SelectFont { pre: if depth > 0 && rng.chance(1, 4) { 1 } else { 0 }, f: rng.range(1, 4) },
            7..=10 => gen_define(rng, depth),
            _ => gen_read(rng, &seen_cmd, &seen_var),
        };
        note(&op, &mut seen_cmd, &mut seen_var);
        ops.push(op);
    }
    ops.push(MOp::Ckpt);
    let reads = |ops: &mut Vec<MOp>, rng: &mut Rng, seen_cmd: &[(i64, i64)], seen_var: &[(i64, i64)]| {
        for _ in 0..rng.range(2, 6) {
            ops.push(gen_read(rng, seen_cmd, seen_var));
        }
    };
    reads(&mut ops, rng, &seen_cmd, &seen_var);
    loop {
        if rng.chance(1, 3) {
            let op = if rng.chance(1, 2) { gen_assign(rng, depth) } else { gen_define(rng, depth) };
            note(&op, &mut seen_cmd, &mut seen_var);
            ops.push(op);
        }
        if depth == 0 || rng.chance(1, 5) {
            break; // sometimes the program ends inside open groups: the final state is a level's
        }
        ops.push(MOp::End);
        depth -= 1;
        reads(&mut ops, rng, &seen_cmd, &seen_var);
    }
    if depth == 0 && rng.chance(1, 8) {
        ops.push(MOp::End); // one `}` too many: an error after the checkpoint
    }
    reads(&mut ops, rng, &seen_cmd, &seen_var);
    renumber_bodies(&mut ops);
    ops
}

/// Layered meanings: a few names (built-in names, fresh names, active characters) get a
/// meaning chosen independently at every scope level — the primitive meaning (through the alias
/// the preamble saved; for a built-in name often its *own* meaning), a macro, a register alias,
/// a character, another name's current meaning, or nothing (so a fresh name stays undefined) —
/// with `depth` groups open at the checkpoint. P2 reads every name at every level while closing
/// the groups.
fn gen_layers(rng: &mut Rng) -> Vec<MOp> {
    let depth = rng.range(1, 3) as usize;
    let n_names = rng.range(1, 3) as usize;
    let mut names: Vec<(i64, i64)> = vec![];
    while names.len() < n_names {
        let t = match rng.below(5) {
            0 | 1 | 2 => (0, 100 + *rng.pick(NAMED_PRIMS)),
            3 => (0, rng.range(0, 4)),
            _ => (1, rng.range(0, ACTIVE.len() as i64 - 1)),
        };
        if !names.contains(&t) {
            names.push(t);
        }
    }
    let mut ops = vec![];
    for level in 0..=depth {
        if level > 0 {
            ops.push(MOp::Begin);
        }
        if rng.chance(1, 3) {
            ops.push(MOp::SelectFont { pre: if level > 0 && rng.chance(1, 5) { 1 } else { 0 }, f: rng.range(1, 4) });
        }
        for &(tk, tn) in &names {
            let own = if tk == 0 && tn >= 100 { Some(tn - 100) } else { None };
            let pre = if level > 0 && rng.chance(1, 6) { 1 } else { 0 };
            let def = |dk: i64, a: i64, b: i64, pre: i64| MOp::Define { pre, tk, tn, dk, a, b };
            match rng.below(8) {
                0 => {} // unchanged at this level
                1 | 2 => ops.push(def(10, own.unwrap_or_else(|| gen_prim(rng)), 0, pre)),
                3 => ops.push(def(10, gen_prim(rng), 0, pre)),
                4 | 5 => ops.push(def(0, rng.range(0, 5), 0, pre)),
                6 => {
                    let reg = gen_idx(0, rng);
                    ops.push(def(4, reg, 0, pre));
                    if rng.chance(1, 2) {
                        ops.push(MOp::Assign { pre: 0, kind: 0, idx: reg, val: rng.range(1, 9) });
                    }
                }
                _ => {
                    if rng.chance(1, 2) {
                        ops.push(def(2, rng.range(65, 90), 0, 0));
                    } else {
                        let (a, b) = *rng.pick(&names);
                        ops.push(def(9, a, b, pre));
                    }
                }
            }
        }
    }
    ops.push(MOp::Ckpt);
    let read_all = |ops: &mut Vec<MOp>| {
        for &(tk, tn) in &names {
            ops.push(MOp::ReadCmd { tk, tn });
        }
    };
    read_all(&mut ops);
    for _ in 0..depth {
        if rng.chance(1, 6) {
            break; // the final state is that of an inner level
        }
        ops.push(MOp::End);
        read_all(&mut ops);
    }
    renumber_bodies(&mut ops);
    ops
}

/// Macro sharing: 2..5 names (fresh, built-in, active) defined by `\\def`/`\\gdef` (every definition
/// a fresh macro) and aliased to each other by `\\let` in chains, re-defined and re-aliased inside
/// 0..2 groups that stay open at the checkpoint; then every name is read at every level. The
/// sharing partition of the real serialised macro table is compared with the model's.
fn gen_sharing(rng: &mut Rng) -> Vec<MOp> {
    let n_names = rng.range(2, 5) as usize;
    let mut names: Vec<(i64, i64)> = vec![];
    while names.len() < n_names {
        let t = match rng.below(4) {
            0 => (0, 100 + *rng.pick(NAMED_PRIMS)),
            1 => (1, rng.range(0, ACTIVE.len() as i64 - 1)),
            _ => (0, rng.range(0, 4)),
        };
        if !names.contains(&t) {
            names.push(t);
        }
    }
    let mut ops = vec![];
    let mut depth = 0;
    for _ in 0..rng.range(3, 12) {
        let (tk, tn) = *rng.pick(&names);
        let pre = if depth > 0 && rng.chance(1, 5) { 1 } else { 0 };
        match rng.below(10) {
            0 if depth < 2 => {
                ops.push(MOp::Begin);
                depth += 1;
            }
            1..=4 => ops.push(MOp::Define { pre, tk, tn, dk: if rng.chance(1, 6) { 1 } else { 0 }, a: 0, b: 0 }),
            _ => {
                let (a, b) = *rng.pick(&names);
                ops.push(MOp::Define { pre, tk, tn, dk: 9, a, b });
            }
        }
    }
    ops.push(MOp::Ckpt);
    let read_all = |ops: &mut Vec<MOp>| {
        for &(tk, tn) in &names {
            ops.push(MOp::ReadCmd { tk, tn });
        }
    };
    read_all(&mut ops);
    for _ in 0..depth {
        ops.push(MOp::End);
        read_all(&mut ops);
    }
    renumber_bodies(&mut ops);
    ops
}

/// Characters for the code tables: every initial category (escape, braces, math shift,
/// alignment, end of line, parameter, super/subscript, ignored, space, letter, other, active,
/// comment, invalid) and code points on both sides of 128, 256 and 65536.
const CODE_SUBJECTS: &[u32] = &[
    92, 123, 125, 36, 38, 13, 35, 94, 95, 0, 32, 97, 90, 48, 57, 64, 126, 37, 127, 9, 128, 200, 255, 256, 300, 70000,
];

/// How a character is written in P2 so that its category matters (`None`: not writable in an
/// ASCII line without relying on the character itself).
fn code_usage(c: u32) -> Option<String> {
    match c {
        0 => Some("x^^@y".into()),
        9 => Some("x^^Iy".into()),
        13 => Some("x^^My".into()),
        127 => Some("x^^?y".into()),
        128.. => None,
        c => Some(format!("x{}y", char::from_u32(c)?)),
    }
}

/// The code-table ingredient: `\catcode` and `\mathcode` of characters of every initial
/// category set to interesting values — always including the type's default value (12 / 0) and
/// the character's own initial value — inside and outside groups, with and without `\global`.
/// P2 reads every touched code with `\the` at every level while closing the groups, and at the
/// very end uses the characters so that their categories matter.
fn gen_codes(rng: &mut Rng) -> String {
    let depth = rng.range(0, 2) as usize;
    let mut p1: Vec<String> = vec![];
    let mut touched: Vec<(bool, u32)> = vec![]; // (is catcode, code point)
    for level in 0..=depth {
        if level > 0 {
            p1.push("{".into());
        }
        for _ in 0..rng.range(1, 3) {
            let c = *rng.pick(CODE_SUBJECTS);
            let cat = rng.chance(2, 3);
            let g = if rng.chance(1, 4) { "\\global" } else { "" };
            if cat {
                let init = initial_catcode(c) as i64;
                // the escape character, the braces, digits, `a`, space and end of line keep the
                // program readable: they are only ever re-assigned their own initial value
                let fragile = matches!(c, 92 | 123 | 125 | 97 | 48 | 57 | 32 | 13);
                let v = if fragile {
                    init
                } else {
                    match rng.below(6) {
                        0 | 1 => 12,
                        2 => init,
                        _ => rng.range(0, 15),
                    }
                };
                if fragile && !touched.contains(&(true, 36)) {
                    // a non-fragile companion so that the case still changes something
                    p1.push(format!("{g}\\catcode 36={} ", *rng.pick(&[12i64, 3, 11])));
                    touched.push((true, 36));
                }
                p1.push(format!("{g}\\catcode {c}={v} "));
            } else {
                let v = *rng.pick(&[0i64, 0, 1, 29025, 32767]);
                p1.push(format!("{g}\\mathcode {c}={v} "));
            }
            if !touched.contains(&(cat, c)) {
                touched.push((cat, c));
            }
        }
    }
    let reads = |p2: &mut Vec<String>| {
        let mut l = String::from("/");
        for (cat, c) in &touched {
            l.push_str(&format!("\\the\\{} {c} ", if *cat { "catcode" } else { "mathcode" }));
        }
        p2.push(l);
    };
    let mut p2: Vec<String> = vec![];
    reads(&mut p2);
    for _ in 0..depth {
        p2.push("}".into());
        reads(&mut p2);
    }
    for (cat, c) in &touched {
        if *cat {
            if let Some(u) = code_usage(*c) {
                p2.push(u);
            }
        }
    }
    format!("tex {}<NL><CP>{}<NL>", p1.join("<NL>"), p2.join("<NL>"))
}

/// `\openin` streams: 1..3 files of 0..6 lines (blank lines, comment-only lines, brace groups
/// spanning lines, with or without a final newline, a missing file), 1..3 streams opened on them
/// (two streams may share a file), k guarded reads per stream before the checkpoint for a random
/// k in 0..=lines+1 (interleaved, sometimes inside a group or after a `\closein`), and after the
/// checkpoint interleaved guarded reads until every stream is exhausted, then `\ifeof` of each.
fn gen_files(rng: &mut Rng) -> String {
    const LINES: &[&str] = &["one", "two words", "", "a{b}c", "% only a comment", "x\\relax y", "  indented", "tail %c", "7"];
    let n_files = rng.range(1, 3) as usize;
    let mut files: Vec<(String, Vec<String>, bool)> = vec![];
    for i in 0..n_files {
        let n = rng.range(0, 6) as usize;
        let mut lines: Vec<String> = (0..n).map(|_| rng.pick(LINES).to_string()).collect();
        if n >= 2 && rng.chance(1, 3) {
            // a brace group spanning lines
            let a = rng.below(n as u64 - 1) as usize;
            let b = rng.range(a as i64 + 1, n as i64 - 1) as usize;
            lines[a] = format!("{}{{open", lines[a]);
            lines[b] = format!("shut}}{}", lines[b]);
        }
        files.push((format!("f{}", (b'a' + i as u8) as char), lines, rng.chance(3, 4)));
    }
    let streams: Vec<(i64, usize)> = {
        let mut v = vec![];
        for &n in &[3i64, 0, 15] {
            if v.is_empty() || rng.chance(1, 2) {
                v.push((n, rng.below(n_files as u64) as usize));
            }
        }
        v
    };
    let mut case = String::from("tex ");
    for (name, lines, final_nl) in &files {
        let mut c = lines.join("<NL>");
        if *final_nl && !lines.is_empty() {
            c.push_str("<NL>");
        }
        case.push_str(&format!("<FILE {name}>{c}<ENDFILE>"));
    }
    let mut p1: Vec<String> = vec!["\\def\\rd#1{\\ifeof#1 (closed#1)\\else\\read#1 to \\x [#1:\\x]\\fi}".into()];
    let mut budget: Vec<usize> = vec![];
    for (n, f) in &streams {
        p1.push(format!("\\openin {n}=<DIR>/{} ", files[*f].0));
        budget.push(rng.range(0, files[*f].1.len() as i64 + 1) as usize);
    }
    if rng.chance(1, 5) {
        p1.push("\\openin 7=<DIR>/missing ".into());
    }
    let mut closers = vec![];
    let mut closed: Vec<bool> = vec![false; streams.len()];
    while budget.iter().any(|b| *b > 0) {
        let i = rng.below(streams.len() as u64) as usize;
        if budget[i] == 0 {
            continue;
        }
        budget[i] -= 1;
        if rng.chance(1, 8) {
            p1.push("{".into());
            closers.push("}");
        }
        p1.push(format!("\\rd{{{}}}", streams[i].0));
        if rng.chance(1, 12) {
            p1.push(format!("\\closein {} ", streams[i].0));
            closed[i] = true;
            budget[i] = 0;
        }
    }
    let mut p2: Vec<String> = vec![];
    let mut left: Vec<usize> = streams.iter().map(|(_, f)| files[*f].1.len() + 2).collect();
    while left.iter().any(|b| *b > 0) {
        let i = rng.below(streams.len() as u64) as usize;
        if left[i] == 0 {
            continue;
        }
        left[i] -= 1;
        p2.push(format!("\\rd{{{}}}", streams[i].0));
    }
    for c in closers.iter().rev() {
        p2.push(c.to_string());
    }
    let mut status = String::new();
    for (n, _) in &streams {
        status.push_str(&format!("\\ifeof {n} E\\else O\\fi"));
    }
    status.push_str("\\ifeof 7 E\\else O\\fi");
    p2.push(status);
    format!("{case}{}<NL><CP>{}<NL>", p1.join("<NL>"), p2.join("<NL>"))
}

/// The allocator: sequences of `\newInt` / `\newIntArray` (lengths 0..4) over four names,
/// including re-allocations of a name (same or other kind), local and `\global` element
/// assignments at group depths 0..3 before the checkpoint; after it every element of every
/// live array is read, one more allocation and assignment is made, and the groups are closed one
/// by one with all elements read again after each `}`.
fn gen_alloc(rng: &mut Rng) -> String {
    // name → Some(len) array / None singleton; one map per open scope (definitions are local)
    let names = ["\\nA", "\\nB", "\\nC", "\\nD"];
    let mut scopes: Vec<BTreeMap<&str, Option<usize>>> = vec![BTreeMap::new()];
    let mut p1: Vec<String> = vec![];
    let n = rng.range(3, 14);
    let assign = |scopes: &Vec<BTreeMap<&str, Option<usize>>>, rng: &mut Rng| -> Option<String> {
        let cur = scopes.last().unwrap();
        if cur.is_empty() {
            return None;
        }
        let keys: Vec<&&str> = cur.keys().collect();
        let name = **rng.pick(&keys);
        let g = if rng.chance(1, 4) { "\\global" } else { "" };
        let v = rng.range(-9, 99);
        match cur[name] {
            None => Some(format!("{g}{name}={v} ")),
            Some(0) => None,
            Some(len) => Some(format!("{g}{name} {}={v} ", rng.below(len as u64))),
        }
    };
    for _ in 0..n {
        match rng.below(10) {
            0 | 1 if scopes.len() < 4 => {
                p1.push("{".into());
                let top = scopes.last().unwrap().clone();
                scopes.push(top);
            }
            2 if scopes.len() > 1 && rng.chance(1, 3) => {
                p1.push("}".into());
                scopes.pop();
            }
            3 | 4 | 5 => {
                let name = *rng.pick(&names);
                if rng.chance(1, 3) {
                    p1.push(format!("\\newInt{name} "));
                    scopes.last_mut().unwrap().insert(name, None);
                } else {
                    let len = *rng.pick(&[0usize, 1, 2, 3, 4]);
                    p1.push(format!("\\newIntArray{name} {len} "));
                    scopes.last_mut().unwrap().insert(name, Some(len));
                }
            }
            _ => {
                if let Some(a) = assign(&scopes, rng) {
                    p1.push(a);
                }
            }
        }
    }
    let read_all = |scope: &BTreeMap<&str, Option<usize>>| -> String {
        let mut l = String::from("/");
        for (name, k) in scope {
            match k {
                None => l.push_str(&format!("\\the{name},")),
                Some(len) => {
                    for i in 0..*len {
                        l.push_str(&format!("\\the{name} {i},"));
                    }
                }
            }
        }
        l
    };
    let mut p2: Vec<String> = vec![read_all(scopes.last().unwrap())];
    // the allocator keeps working after the checkpoint
    p2.push("\\newIntArray\\nE 2 \\nE 1=41 \\newInt\\nF \\nF=42 /\\the\\nE 0,\\the\\nE 1,\\the\\nF".into());
    if let Some(a) = assign(&scopes, rng) {
        p2.push(a);
        p2.push(read_all(scopes.last().unwrap()));
    }
    while scopes.len() > 1 {
        scopes.pop();
        p2.push("}".into());
        p2.push(read_all(scopes.last().unwrap()));
    }
    format!("tex {}<NL><CP>{}<NL>", p1.join("<NL>"), p2.join("<NL>"))
}

/// The script writer: every way P1 can leave the output (nothing written yet; text, so a space
/// is pending; a control word or a comment, so nothing is pending; `\par`; one or several
/// `\newline`s; a paragraph break then a newline) × every way P2 can start (text, a blank line,
/// `\newline`, a macro producing a space, `\par\par`, a control word, nothing on the first line).
/// Exhaustive; the exact output is compared.
fn writer_cases() -> Vec<String> {
    let defs = "\\def\\s{ }\\def\\w{w}";
    let p1s = [
        "",
        "Hello",
        "Hello\\relax",
        "Hello% comment",
        "Hello<NL>",
        "Hello\\newline",
        "Hello\\newline\\newline\\newline",
        "Hello\\par\\newline",
        "Hello \\s\\s",
        "\\endlinechar=-1 Hello",
        "{Hello\\relax",
    ];
    let p2s = ["World", "<NL>World", "\\newline World", "\\s World", "\\par\\par World", "\\w orld", "\\relax<NL>World", "<NL><NL>\\s\\newline World", "}World"];
    let mut v = vec![];
    for a in p1s {
        for b in p2s {
            // a `}` start only makes sense after a `{` ending and vice versa
            if a.starts_with('{') != b.starts_with('}') {
                continue;
            }
            v.push(format!("tex {defs}{a}<NL><CP>{b} more<NL>"));
        }
    }
    v
}

/// Conditionals: 1..5 conditionals left open by P1, nested in any order, each in one of its
/// distinguishable states (true branch, else branch of an `\if`, a case branch, the default
/// branch of an `\ifcase`); P2 closes them from the inside out, each closer passing over the
/// branches that must be skipped; sometimes a closer that is illegal in that state
/// (`\else` in an else branch, `\or` outside a switch).
fn gen_conds(rng: &mut Rng) -> String {
    const KINDS: &[(&str, &str, &str)] = &[
        ("\\iftrue t", "T\\else F\\fi", "T\\or x\\fi"),
        ("\\iffalse f\\else e", "E\\fi", "E\\else x\\fi"),
        ("\\ifcase 1 a\\or b", "B\\or c\\else d\\fi", "B\\fi\\fi"),
        ("\\ifcase 0 z", "Z\\or c\\fi", "Z\\else\\else\\fi"),
        ("\\ifcase 7 a\\or b\\else d", "D\\fi", "D\\or x\\fi"),
        ("\\ifnum 1<2 n", "N\\else M\\fi", "N\\else M\\else\\fi"),
        ("\\ifodd 2 o\\else p", "P\\fi", "P\\else\\fi"),
    ];
    let n = rng.range(1, 5) as usize;
    let mut p1: Vec<String> = vec![];
    let mut closers: Vec<String> = vec![];
    for _ in 0..n {
        let (open, close, bad) = *rng.pick(KINDS);
        if rng.chance(1, 5) {
            p1.push("{".into());
            closers.push("}".into());
        }
        p1.push(open.into());
        closers.push(if rng.chance(1, 10) { bad.into() } else { close.into() });
    }
    let p2: Vec<String> = closers.into_iter().rev().collect();
    format!("tex {}<NL><CP>{}<NL>end<NL>", p1.join("<NL>"), p2.join("<NL>"))
}

/// Macro shapes: 1..3 macros, each with an optional prefix (tokens that must follow the name),
/// 0..3 parameters that are undelimited or delimited by 1..2 tokens, optionally a final `#{`,
/// optionally `\long` / `\global`, a replacement text that uses every parameter, defined
/// at group depth 0..2; P2 calls every macro with matching arguments at every level while closing
/// the groups (the call and its expected shape are built together with the definition).
fn gen_macros(rng: &mut Rng) -> String {
    let depth = rng.range(0, 2) as usize;
    let mut p1: Vec<String> = vec![];
    let mut calls: Vec<(usize, String)> = vec![]; // (level defined at, call text)
    let n = rng.range(1, 3) as usize;
    for i in 0..n {
        let level = rng.range(0, depth as i64) as usize;
        let name = format!("\\q{}", (b'A' + i as u8) as char);
        let prefix = *rng.pick(&["", "", "ab", "=", "x y", "\\relax", "ab"]);
        let n_par = rng.range(0, 3) as usize;
        // a control word is followed by a space (skipped by the lexer) so that it never merges
        // with the letters after it
        let sp = |x: &str| if x.ends_with("relax") { format!("{x} ") } else { x.to_string() };
        let prefix = sp(prefix);
        let mut def = format!("{name}{prefix}");
        let mut call = format!("{name}{prefix}");
        let mut body = String::from("<");
        for k in 1..=n_par {
            let delim = sp(*rng.pick(&["", "", ".", "..", ",;", "\\relax", "!"]));
            def.push_str(&format!("#{k}{delim}"));
            let arg = *rng.pick(&["X", "{Y Z}", "pq", "{}", "7"]);
            // an undelimited argument of several tokens must be braced; a delimited one ends at its delimiter
            let arg = if delim.is_empty() && arg.len() > 1 && !arg.starts_with('{') { "{pq}" } else { arg };
            call.push_str(&format!("{arg}{delim}"));
            body.push_str(&format!("#{k}|"));
        }
        if n_par > 0 && rng.chance(1, 5) {
            def.push('#');
            call.push_str("{tail}");
        }
        body.push('>');
        let pre = format!("{}{}", if rng.chance(1, 4) { "\\long" } else { "" }, if level > 0 && rng.chance(1, 4) { "\\global" } else { "" });
        p1.push(format!("L{level}:{pre}\\def{def}{{{body}}}"));
        calls.push((if pre.contains("\\global") { 0 } else { level }, call));
    }
    // order the definitions by level and open the groups in between
    let mut lines: Vec<String> = vec![];
    for level in 0..=depth {
        if level > 0 {
            lines.push("{".into());
        }
        for l in &p1 {
            if let Some(d) = l.strip_prefix(&format!("L{level}:")) {
                lines.push(d.to_string());
            }
        }
    }
    let mut p2: Vec<String> = vec![];
    for level in (0..=depth).rev() {
        for (lv, call) in &calls {
            if *lv <= level {
                p2.push(format!("/{call}"));
            }
        }
        if level > 0 {
            p2.push("}".into());
        }
    }
    format!("tex {}<NL><CP>{}<NL>", lines.join("<NL>"), p2.join("<NL>"))
}

/// Register values in their full syntax: counts at the extremes, dimensions with fractions and
/// signs, glue with every order (pt, fil, fill, filll) on the stretch and on the shrink, token
/// lists with every kind of token (letters, others, spaces, braces, parameter characters, control
/// words and symbols, active characters), at small and at boundary register numbers, at group
/// depth 0..3 with and without `\global`; P2 reads every touched register with `\the` at every
/// level while closing the groups.
fn gen_values(rng: &mut Rng) -> String {
    let depth = rng.range(0, 3) as usize;
    let mut p1: Vec<String> = vec![];
    let mut touched: Vec<String> = vec![];
    let mut unreadable: Vec<String> = vec![];
    let mut params: Vec<String> = vec![];
    let unit = |rng: &mut Rng| *rng.pick(&["pt", "fil", "fill", "filll"]);
    let num = |rng: &mut Rng| *rng.pick(&["0", "1", "-1", "2.5", "-0.33333", "16383.99998", "100"]);
    for level in 0..=depth {
        if level > 0 {
            p1.push("{".into());
        }
        for _ in 0..rng.range(1, 3) {
            let g = if rng.chance(1, 4) { "\\global" } else { "" };
            let (reg, val) = match rng.below(5) {
                4 => {
                    // singleton parameters over the whole i32 range: also the values whose *effect*
                    // coincides with another value's (\\endlinechar < 0 or >= 128 all append nothing)
                    let p = *rng.pick(&["endlinechar", "endlinechar", "globaldefs", "year", "month", "day", "time", "dumpFormat", "dumpValidate", "tracingmacros"]);
                    let v = if p == "tracingmacros" {
                        // positive values write a trace of every macro call to the terminal
                        *rng.pick(&[-2147483647i64, -150, -1, 0])
                    } else {
                        *rng.pick(&[-2147483647i64, -150, -7, -2, -1, 0, 1, 13, 32, 65, 127, 128, 200, 255, 256, 65536, 2147483647])
                    };
                    let reg = format!("\\{p}");
                    if !params.contains(&reg) {
                        params.push(reg.clone());
                    }
                    (reg, v.to_string())
                }
                0 => (
                    format!("\\count {}", gen_idx(0, rng)),
                    rng.pick(&["0", "-2147483647", "2147483647", "'777", "\"7FFF", "`\\a", "-\\count 1"]).to_string(),
                ),
                1 => (format!("\\dimen {}", gen_idx(1, rng)), format!("{}pt", num(rng))),
                2 => {
                    let mut v = format!("{}pt", num(rng));
                    if rng.chance(2, 3) {
                        v.push_str(&format!(" plus {}{}", num(rng), unit(rng)));
                    }
                    if rng.chance(2, 3) {
                        v.push_str(&format!(" minus {}{}", num(rng), unit(rng)));
                    }
                    (format!("\\skip {}", gen_idx(2, rng)), v)
                }
                _ => {
                    // `\the\toks` hands the tokens back to the main loop, which executes them: lists
                    // with commands other than \relax are stored (and compared through the state
                    // digest) but not read back
                    let (v, readable) = *rng.pick(&[
                        ("{}", true),
                        ("{a b}", true),
                        ("{\\relax x\\relax}", true),
                        ("{{nested}{}}", true),
                        ("{#1##}", false),
                        ("{~\\~ \\ \\undefinedname}", false),
                        ("{12 pt\\def\\let\\count}", false),
                    ]);
                    let reg = format!("\\toks {}", gen_idx(3, rng));
                    if !readable {
                        unreadable.push(reg.clone());
                    }
                    (reg, v.to_string())
                }
            };
            p1.push(format!("{g}{reg}={val} "));
            if !touched.contains(&reg) {
                touched.push(reg);
            }
        }
    }
    let reads = |p2: &mut Vec<String>| {
        let mut l = String::from("/");
        for r in &touched {
            if !unreadable.contains(r) {
                l.push_str(&format!("\\the{r},"));
            }
        }
        p2.push(l);
    };
    let mut p2: Vec<String> = vec![];
    reads(&mut p2);
    for _ in 0..depth {
        p2.push("}".into());
        reads(&mut p2);
    }
    // the parameters are not only read but computed with after the checkpoint
    for p in &params {
        let by = *rng.pick(&[-150i64, -1, 1, 7, 150]);
        p2.push(format!("\\advance{p} by {by} /\\the{p},"));
    }
    format!("tex {}<NL><CP>{}<NL>", p1.join("<NL>"), p2.join("<NL>"))
}

/// Control-sequence names: 2..6 names out of the empty name (a backslash at the end of a line
/// while `\\endlinechar` is -1), one-character names (letter, other character, space), names that
/// are prefixes of each other, names differing in case, a 64-letter name, and duplicates; defined
/// (sometimes only mentioned inside a macro body, so interned but undefined) before the
/// checkpoint, at group depth 0..1; after it every name is used, some are redefined and used
/// again, and new names are introduced.
fn gen_names(rng: &mut Rng) -> String {
    let long = "n".repeat(64);
    let pool: Vec<String> = vec![
        String::new(), String::new(), "a".into(), "A".into(), "+".into(), ";".into(), "ab".into(), "abc".into(), "abcd".into(), "b".into(), "ba".into(), long,
    ];
    let n = rng.range(2, 6) as usize;
    let names: Vec<String> = (0..n).map(|_| rng.pick(&pool).clone()).collect(); // duplicates allowed
    let has_empty = names.iter().any(|x| x.is_empty());
    // with \endlinechar=-1 a line break is nothing at all: a control word at the end of a line
    // must be followed by something that ends it
    let def = |name: &str, body: &str| -> Vec<String> {
        if name.is_empty() {
            vec!["\\def\\".into(), format!("{{({body})}}")]
        } else {
            vec![format!("\\def\\{name}{{({body})}}")]
        }
    };
    let usage = |name: &str| -> Vec<String> {
        if name.is_empty() {
            vec!["[\\".into(), "]".into()]
        } else if name.chars().all(|c| c.is_ascii_alphabetic()) {
            vec![format!("[\\{name} ]")]
        } else {
            vec![format!("[\\{name}]")]
        }
    };
    let mut p1: Vec<String> = vec![];
    if has_empty {
        p1.push("\\endlinechar=-1 ".into());
    }
    let in_group = rng.chance(1, 3);
    let mut only_mentioned: Vec<usize> = vec![];
    for (i, name) in names.iter().enumerate() {
        if in_group && i == n / 2 {
            p1.push("{".into());
        }
        if rng.chance(1, 5) && !name.is_empty() && names.iter().filter(|x| *x == name).count() == 1 {
            // only mentioned: interned, not defined here
            p1.push(format!("\\def\\holder{}{{\\{name} }}", (b'a' + i as u8) as char));
            only_mentioned.push(i);
        } else {
            p1.extend(def(name, &format!("d{i}")));
        }
    }
    let mut p2: Vec<String> = vec![];
    for (i, name) in names.iter().enumerate() {
        if only_mentioned.contains(&i) || rng.chance(1, 4) {
            p2.extend(def(name, &format!("r{i}")));
        }
        p2.extend(usage(name));
    }
    // names never seen before the checkpoint (the rebuilt interner keeps interning)
    p2.extend(def("fresh", "f"));
    p2.extend(usage("fresh"));
    p2.extend(def("abcde", "g"));
    p2.extend(usage("abcde"));
    if in_group {
        p2.push("}".into());
        for (i, name) in names.iter().enumerate() {
            // defined at the outer level before the group was opened
            if i < n / 2 && !only_mentioned.contains(&i) {
                p2.extend(usage(name));
            }
        }
    }
    format!("tex {}<NL><CP>{}<NL>", p1.join("<NL>"), p2.join("<NL>"))
}

/// Unmodelled state: (line for P1, lines for P2 that make it observable). P2 lines are repeated
/// after every `}` that closes a group left open by P1.
const FEATURES: &[(&str, &str)] = &[
    (r"\def\mA#1#2{<#2#1>}", r"\mA xy"),
    (r"\def\mB#1.{(#1)}", r"\mB abc."),
    (r"\long\def\mC#1{[#1]}", r"\mC{pq}"),
    (r"\catcode`\@=11 \def\a@b{AT}", r"\a@b \the\catcode`\@"),
    (r"\catcode`\Q=13 \defQ{q!}", r"Q \the\catcode`\Q"),
    (r"\catcode`\~=13 \def~{tilde}", r"~"),
    (r"\catcode`\!=13 \def\mT{T}\let!=\mT", r"!"),
    (r"\catcode`\?=13 \chardef?=66 ", r"?"),
    (r"\catcode`\_=13 \gdef_{gunder}", r"_"),
    (r"\catcode`\&=13 \countdef&=5 &=77 ", r"\the&"),
    (r"\endlinechar=-1 ", r"\the\endlinechar"),
    (r"\endlinechar=32 ", r"\the\endlinechar"),
    (r"\toks3={a\relax b#}", r"\the\toks3"),
    (r"\toks2={x}\toksdef\tA=2 ", r"\the\tA \tA={y}\the\toks2"),
    (r"\newInt\nA \nA=5 ", r"\the\nA"),
    (r"\newIntArray\nB 4 \nB 2=9 ", r"\the\nB 2 \nB 3=1 \the\nB 3"),
    (r"\globaldefs=1 ", r"{\count9=3 }\the\count9 \the\globaldefs"),
    (r"\globaldefs=-1 ", r"{\global\count8=3 }\the\count8 \the\globaldefs"),
    (r"\batchmode", r""),
    (r"\scrollmode", r""),
    (r"\nonstopmode", r""),
    (r"\skip3=1pt plus 2fil minus 3pt ", r"\the\skip3"),
    (r"\dimen2=1.5pt ", r"\the\dimen2"),
    (r"\mathcode`\a=29025 ", r"\the\mathcode`\a"),
    (r"\catcode 300=11 \mathcode 301=5 ", r"\the\catcode 300 \the\mathcode 301"),
    (r"\mathchardef\mM=29025 ", r"\the\mM"),
    (r"\chardef\mK=75 ", r"\mK \the\mK"),
    (r"\def\mD{\mE}", r"\def\mE{late}\mD"),
    (r"\let\lr=\relax \let\lc=\count \let\lt=\the \let\ld=\def \let\ll=\let ", r"\lr \lc1=3 \lt\lc1 \ld\zz{Z}\zz \ll\zy=\zz \zy"),
    (r"\let\lg=\global \let\lx=\expandafter \let\ln=\noexpand \let\la=\advance ", r"\lg\count2=4 \la\count2 by 2 \the\count2 \def\zq{Q}\lx\ln\zq"),
    (r"\let\lf=\fi \let\le=\else \let\li=\iftrue \let\lo=\or ", r"\li a\le b\lf \ifcase 1 x\lo y\lf"),
    (r"\let\lm=\multiply \let\lv=\divide \let\ly=\year \let\lj=\jobname ", r"\count4=6 \lm\count4 by 7 \lv\count4 by 2 \the\count4 \ly=5 \the\year \lj"),
    (r"\count1=5 \advance\count1 by 3 \multiply\count1 by 2 ", r"\the\count1"),
    (r"\year=1999 \month=2 \day=30 \time=77 ", r"\the\year \the\month \the\day \the\time"),
    (r"\dumpFormat=1 \dumpValidate=1 ", r"\the\dumpFormat \the\dumpValidate"),
    (r"\countdef\cA=6 \cA=11 \let\cB=\cA ", r"\the\cA \the\cB \cB=12 \the\count6"),
    (r"\def\mX{X}\let\mY=\mX \def\mX{X2}", r"\mX\mY"),
    (r"\gdef\mG{G}\global\let\mH=\mG \global\count7=70 \global\toks4={g}", r"\mG\mH\the\count7 \the\toks4"),
    (r"\count5=1 \global\count5=2 \count5=3 ", r"\the\count5"),
    (r"\catcode`\^=7 \catcode`\|=12 ", r"\the\catcode`\^ |"),
    (r"\let\sA= A\let\sB=\sA ", r"\sA\sB"),
    (r"\tracingmacros=0 ", r"\the\tracingmacros"),
    (r"\catcode`\^=7 ", r"^^41^^5a"),
    (r"\catcode 70000=11 \mathcode 70001=5 ", r"\the\catcode 70000 \the\mathcode 70001"),
    (r"\count3=-2147483647 \skip2=-16383.5pt plus -1filll minus 16383.5pt ", r"\the\count3 \the\skip2"),
    (r"\catcode`\^^@=11 \def\a^^@b{nul}\catcode 127=11 \def\c^^?{del}", r"\a^^@b \c^^?"),
    (r"\def\mP#1{\def\mQ##1{#1##1}}\mP a", r"\mQ b\mP c\mQ d"),
    (r"\def\mR{r}\def\mS{\mR s}\expandafter\def\expandafter\mU\expandafter{\mS}\def\mR{R}", r"\mU\mS"),
    (r"\count6=4 \def\mI{\ifnum\count6<5 lt\else ge\fi}", r"\mI \count6=9 \mI"),
    (r"\def\mV{v}\let\mW=\mV {\def\mV{w}\global\let\mW=\mV}", r"\mV\mW"),
    (r"text with spaces % and a comment", r"more"),
    (r"\relax", r"\relax z"),
    (r"\endlinechar=65 ", r"x"),
    (r"\tracingmacros=2 ", r"\the\tracingmacros"),
    (r"\dumpFormat=2 \dumpValidate=0 ", r"\the\dumpFormat \the\dumpValidate"),
    (r"\batchmode \fi", r"\fi z"),
    (r"\scrollmode \else", r"\or z"),
    (r"\nonstopmode \fi\fi", r"\fi z"),
    (r"\errorstopmode", r""),
    (r"\newline", r"n"),
    (r"", r"blank"),
    (r"word ", r"next"),
    (r"word", r"next"),
];

/// Conditionals left open by P1: (opener at the end of a P1 line, closer text for P2).
const CONDS: &[(&str, &str)] = &[
    (r"\iftrue t", r"T\else F\fi"),
    (r"\iffalse\else e", r"E\fi"),
    (r"\ifcase 2 a\or b\or c", r"C\or d\else z\fi"),
    (r"\ifcase 9 a\or b\else c", r"C\fi"),
    (r"\ifnum 1<2 l", r"L\else G\fi"),
    (r"\ifodd 3 o", r"O\fi"),
    (r"\iftrue\iffalse\else\ifcase 0 n", r"N\or m\fi i\fi o\else q\fi"),
];

fn gen_tex(rng: &mut Rng, size: usize) -> String {
    let mut p1: Vec<String> = vec![];
    let mut probes: Vec<&str> = vec![];
    let mut closers: Vec<String> = vec![]; // in opening order
    let n = rng.range(1, size as i64);
    for _ in 0..n {
        match rng.below(10) {
            0 | 1 => {
                p1.push("{".into());
                closers.push("}".into());
            }
            2 => {
                let (o, c) = *rng.pick(CONDS);
                p1.push(o.into());
                closers.push(c.into());
            }
            _ => {
                let (a, b) = *rng.pick(FEATURES);
                let g = if rng.chance(1, 6) && a.starts_with("\\def") { "\\global" } else { "" };
                p1.push(format!("{g}{a}"));
                if !b.is_empty() {
                    probes.push(b);
                }
            }
        }
    }
    let mut p2: Vec<String> = vec![];
    let all_probes = |p2: &mut Vec<String>| {
        for b in &probes {
            p2.push(format!("/{b}"));
        }
    };
    all_probes(&mut p2);
    // conditionals and groups nest independently in TeX, but a conditional's closer must not
    // be skipped by another conditional: close in reverse order
    for c in closers.iter().rev() {
        p2.push(c.clone());
        if c == "}" {
            all_probes(&mut p2);
        }
    }
    format!("tex {}<NL><CP>{}<NL>", p1.join("<NL>"), p2.join("<NL>"))
}

// ------------------------------------------------------------------------------------------
// The property
// ------------------------------------------------------------------------------------------

struct C08 {
    /// Which of C01's repairs the tree under test has (bit 0 = C01-a, 1 = C01-b, 2 = C01-c):
    /// probed once, so that the model run by the driver describes this tree's group scoping.
    variant: Option<u8>,
}

fn probe_variant() -> u8 {
    let out = |src: &str| {
        let mut vm = new_vm();
        run_src(&mut vm, "probe.tex", src)
    };
    let mut v = 0u8;
    // C01-a: \global inside the inner of two groups must purge the inner group's saved value
    if out("\\count1=1 {{\\count1=2 \\global\\count1=3 }\\the\\count1}\n") == Run::Ok("3".into()) {
        v |= 1;
    }
    // C01-b: a local definition of an active character ends with its group
    if out("\\catcode`\\~=13 \\def~{A}{\\def~{B}}~\n") == Run::Ok("A".into()) {
        v |= 2;
    }
    // C01-c: \global\chardef is allowed
    if out("\\global\\chardef\\x=65 \\x\n") == Run::Ok("A".into()) {
        v |= 4;
    }
    v
}

impl C08 {
    /// A vs B for the three formats: tags, I vs S failures. Returns A and whether all agree.
    fn compare_runs(&self, p1: &str, p2: &str, drv: &mut Driver, o: &mut CaseOutcome) -> (Obs, bool) {
        let (a, bs) = run_all(p1, p2);
        if debug() {
            eprintln!("P1: {p1:?}\nP2: {p2:?}\nA: {:?} / {:?}", a.r1, a.r2);
            for (f, b) in &bs {
                eprintln!("{}: ck={:?} {:?}", f.name(), b.ck, b.r2);
            }
        }
        if !matches!(a.r1, Run::Ok(_)) {
            o.tag(format!("p1-fails:{}", a.r1.class()));
            return (a, false);
        }
        o.nontrivial = true;
        o.tag(format!("p2:{}", a.r2.as_ref().map(|r| r.class()).unwrap_or_default()));
        // The state every checkpoint is taken in (`Props/C08.lean`: `run_returns_at_rest`,
        // `reachable_scope_local`): the run returned, so the model's `next_unexpanded` on the real
        // serialised input stack must say end of input; the pending \\global flag is Local; every
        // open \\openin stream stands between two lines (position = length of its current line).
        for (f, b) in &bs {
            if let (Fmt::Json, Some(rep)) = (f, &b.at_rest) {
                let parts: Vec<&str> = rep.split('|').collect();
                if parts.len() == 4 {
                    let verdict = drv.ask(&format!("instack {} {}", parts[0], parts[1]));
                    o.tag(format!("at-rest-sources:{}", parts[0]));
                    if verdict != "endOfInput" {
                        o.fail(Kind::ImplVsModel, "at-rest", "the run returned but the model's next_unexpanded on the serialised input stack does not say end of input", format!("stack {} -> {verdict}", parts[1]));
                    }
                    if parts[2] != "Local" {
                        o.fail(Kind::ImplVsModel, "at-rest", "pending \\global flag is not Local at a checkpoint", parts[2]);
                    }
                    if !parts[3].is_empty() {
                        o.tag("at-rest-open-streams");
                        // `\\read` always consumes whole lines (it drains the line after an unmatched
                        // brace): between two reads a stream has read nothing of a line or all of it
                        // (since C19-d the lexer reports an end of line without starting the next one)
                        let between_lines = |p: &str| p.split_once('/').map(|(a, b)| a == b).unwrap_or(false);
                        if !parts[3].split(',').all(between_lines) {
                            o.fail(Kind::ImplVsModel, "at-rest", "an open \\openin stream is inside a line at a checkpoint", parts[3]);
                        }
                        if parts[3].split(',').any(|p| !p.starts_with("0/")) {
                            o.tag("at-rest-stream-at-end-of-consumed-line");
                        }
                    }
                }
            }
        }
        let wa = obs_words(&a);
        let mut diffs: Vec<(Fmt, Kind, String, String)> = vec![];
        for (f, b) in &bs {
            // the three A-side runs of P1 must agree (determinism of the harness itself)
            if b.r1 != a.r1 {
                o.fail(Kind::ImplVsSpec, f.name(), "P1 is not deterministic", format!("{:?} vs {:?}", a.r1, b.r1));
                continue;
            }
            let verdict = drv.ask(&format!("same {} | {}", wa, obs_words(b)));
            let d = differences(&a, b);
            match (verdict.as_str(), d.is_empty()) {
                ("1", true) => {}
                ("0", false) => diffs.extend(d.into_iter().map(|(k, sig, det)| (*f, k, sig, det))),
                (v, _) => o.fail(
                    Kind::ModelVsSpec,
                    f.name(),
                    "spec verdict and harness diff disagree",
                    format!("driver said {v}, harness differences {:?}", d.iter().map(|x| &x.1).collect::<Vec<_>>()),
                ),
            }
        }
        let mut sigs: Vec<String> = diffs.iter().map(|d| d.2.clone()).collect();
        sigs.sort();
        sigs.dedup();
        for sig in sigs {
            let with: Vec<&(Fmt, Kind, String, String)> = diffs.iter().filter(|d| d.2 == sig).collect();
            if with.len() == FORMATS.len() {
                let (f, k, _, det) = with[0];
                o.fail(*k, "all-formats", sig.clone(), format!("{} (same with the other formats): {det}", f.name()));
            } else {
                for (f, k, _, det) in with {
                    o.fail(*k, f.name(), format!("{sig} [{} only]", f.name()), format!("{}: {det}", f.name()));
                }
            }
        }
        (a, diffs.is_empty())
    }

    fn run_tex(&self, body: &str, drv: &mut Driver) -> CaseOutcome {
        let mut o = CaseOutcome::default();
        // leading `<FILE name>content<ENDFILE>` blocks: files for \openin / \input, written to a
        // scratch directory that `<DIR>` stands for in P1 and P2
        let mut rest = body;
        let mut files: Vec<(String, String)> = vec![];
        while let Some(r) = rest.strip_prefix("<FILE ") {
            let (Some(e), Some(f)) = (r.find('>'), r.find("<ENDFILE>")) else {
                o.fail(Kind::ImplVsModel, "case", "malformed case", body);
                return o;
            };
            files.push((r[..e].to_string(), decode(&r[e + 1..f])));
            rest = &r[f + "<ENDFILE>".len()..];
        }
        let Some((p1, p2)) = rest.split_once("<CP>") else {
            o.fail(Kind::ImplVsModel, "case", "malformed case", body);
            return o;
        };
        let dir = format!("/tmp/c08io/{}-{:016x}", std::process::id(), fxhash(body));
        if !files.is_empty() {
            std::fs::create_dir_all(&dir).expect("scratch directory");
            for (name, content) in &files {
                std::fs::write(format!("{dir}/{name}.tex"), content).expect("scratch file");
            }
            o.tag(format!("tex-files:{}", files.len().min(3)));
        }
        let (p1, p2) = (decode(p1).replace("<DIR>", &dir), decode(p2).replace("<DIR>", &dir));
        o.tag("kind:tex");
        let depth = p1.matches('{').count() as i64 - p1.matches('}').count() as i64;
        o.tag(format!("tex-open-braces:{}", depth.clamp(0, 4)));
        if p1.contains("\\if") {
            o.tag("tex-conditional-in-p1");
        }
        self.compare_runs(&p1, &p2, drv, &mut o);
        if !files.is_empty() {
            let _ = std::fs::remove_dir_all(&dir);
        }
        o
    }

    fn run_ops(&mut self, body: &str, drv: &mut Driver) -> CaseOutcome {
        let mut o = CaseOutcome::default();
        o.tag("kind:ops");
        let ints = parse_i64s(body);
        let Some(ops) = dec_ops(&ints) else {
            o.fail(Kind::ImplVsModel, "case", "malformed case", body);
            return o;
        };
        let variant = *self.variant.get_or_insert_with(probe_variant);
        o.tag(format!("tree-has-C01-fixes:{}{}{}", if variant & 1 != 0 { "a" } else { "-" }, if variant & 2 != 0 { "b" } else { "-" }, if variant & 4 != 0 { "c" } else { "-" }));
        // The model's VM starts empty; the real one starts with the built-ins. For every
        // built-in *name* the program mentions, the model first gets that built-in (not rendered).
        let mut named: Vec<i64> = vec![];
        for op in &ops {
            let mut see = |tk: i64, tn: i64| {
                if tk == 0 && tn >= 100 && !named.contains(&tn) {
                    named.push(tn);
                }
            };
            match op {
                MOp::Define { tk, tn, dk, a, b, .. } => {
                    see(*tk, *tn);
                    if *dk == 9 {
                        see(*a, *b);
                    }
                }
                MOp::ReadCmd { tk, tn } => see(*tk, *tn),
                _ => {}
            }
        }
        let prelude: Vec<MOp> = named.iter().map(|tn| MOp::Define { pre: 0, tk: 0, tn: *tn, dk: 10, a: tn - 100, b: 0 }).collect();
        if !named.is_empty() {
            o.tag("ops-redefines-primitive-names");
        }
        let mut sent = enc_ops(&prelude);
        sent.extend(&ints);
        sent.extend([5, 2, 0, 0]); // the model's final current font (compared with `VM::current_font`)
        let reply = drv.ask(&format!("p {variant} {}", join(&sent)));
        let parts: Vec<&str> = reply.split(" | ").collect();
        if parts.len() != 3 {
            o.fail(Kind::ImplVsModel, "driver", "driver rejected the case", reply);
            return o;
        }
        let (m_plain, m_ck) = (parts[0], parts[1]);
        // M vs S: the theorem
        if m_plain != m_ck {
            o.fail(Kind::ModelVsSpec, "model", "model: checkpoint changes the run", format!("without: {m_plain}; with: {m_ck}"));
        }
        // the model's outputs, one per op that ran (the marker has none)
        let words: Vec<&str> = m_ck.split(' ').skip(prelude.len()).collect();
        let mut wi = 0usize;
        let (mut p1, mut p2) = (ops_preamble(), String::new());
        let mut expect1: Vec<Option<String>> = vec![];
        let mut expect2: Vec<Option<String>> = vec![];
        let mut after = false;
        let mut depth = 0i64;
        let mut model_err: Option<&str> = None;
        let n_ops = ops.len();
        for (i, op) in ops.iter().enumerate() {
            if *op == MOp::Ckpt {
                after = true;
                o.tag(format!("ckpt-depth:{}", depth.min(4)));
                continue;
            }
            let w = if model_err.is_some() { "u" } else { words.get(wi).copied().unwrap_or("u") };
            wi += 1;
            if matches!(w, "EG" | "EP" | "PANIC") && model_err.is_none() {
                model_err = Some(w);
            }
            match op {
                MOp::Begin => depth += 1,
                MOp::End => depth -= 1,
                MOp::Define { tk, dk, pre, .. } => {
                    if !after {
                        o.tag(format!("p1-def:{}{}", if *tk == 1 { "active-" } else { "" }, dk));
                        if *pre > 0 && depth > 0 {
                            o.tag("p1-global-def-in-group");
                        }
                    }
                }
                MOp::Assign { kind, pre, .. } => {
                    if !after {
                        o.tag(format!("p1-assign:{kind}"));
                        if *pre > 0 && depth > 0 {
                            o.tag("p1-global-assign-in-group");
                        }
                    }
                }
                MOp::ReadCmd { .. } if after => o.tag(format!("p2-read-cmd:{}", &w[..1.min(w.len())])),
                _ => {}
            }
            let r = render_op(op, w, i + 1 == n_ops);
            let (p, e) = if after { (&mut p2, &mut expect2) } else { (&mut p1, &mut expect1) };
            p.push_str(&r.tex);
            if r.probe {
                e.push(r.expect);
            }
        }
        p1.push('\n');
        p2.push('\n');
        let (a, same) = self.compare_runs(&p1, &p2, drv, &mut o);
        if debug() {
            eprintln!("P1: {p1}P2: {p2}model: {m_ck}\nA: {:?} / {:?}", a.r1, a.r2);
        }
        if !matches!(a.r1, Run::Ok(_)) {
            // the model must agree that P1 does not get to the checkpoint
            return o;
        }
        if !same {
            return o; // I vs S already reported; M describes the repaired code
        }
        // I vs M: every probe of P1 and P2
        let check = |o: &mut CaseOutcome, what: &str, out: &str, expect: &[Option<String>], complete: bool| {
            let got = brackets(out);
            if complete && got.len() != expect.len() {
                o.fail(Kind::ImplVsModel, "reads", format!("{what}: number of reads"), format!("model expects {} probes, output has {}: {out:?}", expect.len(), got.len()));
                return;
            }
            for (g, e) in got.iter().zip(expect.iter()) {
                if let Some(e) = e {
                    if g != e {
                        o.fail(Kind::ImplVsModel, "reads", format!("{what}: a read differs from the model"), format!("model {e:?}, real {g:?} in {out:?}"));
                        return;
                    }
                }
            }
        };
        check(&mut o, "before the checkpoint", a.r1.out(), &expect1, true);
        // I vs M: macro sharing in the serialised map (the serialiser's macro table as coded):
        // two names get the same table index in the real serialised map iff they do in the model
        let bodies: Vec<i64> = ops.iter().filter_map(|o| if let MOp::Define { dk: 0 | 1, a, .. } = o { Some(*a) } else { None }).collect();
        let unique_bodies = (1..bodies.len()).all(|i| !bodies[..i].contains(&bodies[i]));
        if unique_bodies {
            let mut sent2 = enc_ops(&prelude);
            sent2.extend(&ints);
            let reply = drv.ask(&format!("share {variant} {}", join(&sent2)));
            if let Some(list) = reply.strip_prefix("ok") {
                let mut pairs: Vec<(String, u64, Option<u64>)> = vec![]; // name, model index, real index
                for w in list.split_ascii_whitespace() {
                    let p: Vec<i64> = w.split('.').filter_map(|x| x.parse().ok()).collect();
                    if p.len() == 3 {
                        let name = target(p[0], p[1]);
                        let real = a.share.get(&name).copied();
                        pairs.push((name, p[2] as u64, real));
                    }
                }
                if pairs.len() >= 2 {
                    o.tag("share-compared");
                }
                let mut bad = None;
                for (n, _, r) in &pairs {
                    if r.is_none() {
                        bad = Some(format!("{n} is a macro in the model's serialised map but not in the real one"));
                    }
                }
                for i in 0..pairs.len() {
                    for j in i + 1..pairs.len() {
                        let (m_same, r_same) = (pairs[i].1 == pairs[j].1, pairs[i].2 == pairs[j].2);
                        if m_same {
                            o.tag("share-aliased-pair");
                        }
                        if m_same != r_same && bad.is_none() {
                            bad = Some(format!("{} and {}: model {} one table entry, real code {}", pairs[i].0, pairs[j].0, if m_same { "share" } else { "do not share" }, if r_same { "shares" } else { "does not share" }));
                        }
                    }
                }
                if let Some(b) = bad {
                    o.fail(Kind::ImplVsModel, "share", "macro sharing in the serialised map differs from the model", b);
                }
            } else if reply != "none" {
                o.fail(Kind::ImplVsModel, "share", "model: serialiser as coded does not answer", reply);
            }
        }
        if let Some(r2) = &a.r2 {
            match (r2, model_err) {
                (Run::Ok(out), None) => {
                    check(&mut o, "after the checkpoint", out, &expect2, true);
                    let model_font = words.get(wi).and_then(|w| w.strip_prefix('f')).unwrap_or("?");
                    let real_font = a.fin.get("current-font").map(|x| x.as_str()).unwrap_or("?");
                    if model_font != real_font {
                        o.fail(Kind::ImplVsModel, "reads", "final current font differs from the model", format!("model {model_font}, real {real_font}"));
                    }
                }
                (Run::Err(c), Some("EG")) if c.contains("end") => o.tag("p2-no-group-to-end"),
                (Run::Err(c), None) if c.contains("undefined") && ops.last().map(|l| matches!(l, MOp::ReadCmd { .. })).unwrap_or(false) && wi > 0 && words.get(wi - 1) == Some(&"?") => {
                    o.tag("p2-undefined-last")
                }
                (r, m) => o.fail(Kind::ImplVsModel, "reads", "after the checkpoint: result class differs from the model", format!("real {}, model {:?}", r.class(), m)),
            }
        }
        o
    }

    /// `NameTableSound` on the real built-ins.
    fn run_names(&self, _drv: &mut Driver) -> CaseOutcome {
        let mut o = CaseOutcome::default();
        o.tag("kind:names");
        o.nontrivial = true;
        let built_ins = built_ins();
        let mut names: Vec<&str> = built_ins.keys().copied().filter(|n| n.chars().all(|c| c.is_ascii_alphabetic())).collect();
        names.sort();
        let alias = |i: usize| format!("\\q{}{}", (b'a' + (i / 26) as u8) as char, (b'a' + (i % 26) as u8) as char);
        let mut src = String::new();
        for (i, n) in names.iter().enumerate() {
            src.push_str(&format!("\\let{}=\\{} ", alias(i), n));
        }
        // every variable built-in assigned inside a group: (name, assignment, save-stack field)
        let vars: &[(&str, &str, &str)] = &[
            ("count", "\\count 3=1 ", "i32"),
            ("dimen", "\\dimen 3=1pt ", "dimen"),
            ("skip", "\\skip 3=1pt ", "glue"),
            ("toks", "\\toks 3={a}", "token_list"),
            ("catcode", "\\catcode 200=11 ", "catcode"),
            ("mathcode", "\\mathcode 200=1 ", "math_code"),
            ("globaldefs", "\\globaldefs=0 ", "i32"),
            ("endlinechar", "\\endlinechar=13 ", "i32"),
            ("year", "\\year=1 ", "i32"),
            ("month", "\\month=1 ", "i32"),
            ("day", "\\day=1 ", "i32"),
            ("time", "\\time=1 ", "i32"),
            ("tracingmacros", "\\tracingmacros=0 ", "i32"),
            ("dumpFormat", "\\dumpFormat=0 ", "i32"),
            ("dumpValidate", "\\dumpValidate=0 ", "i32"),
        ];
        src.push('{');
        for (_, a, _) in vars {
            src.push_str(a);
        }
        src.push('\n');
        let r = caught(|| {
            let mut vm = new_vm();
            let r1 = run_src(&mut vm, "names.tex", &src);
            (r1, serde_json::to_value(&vm).unwrap())
        });
        let (r1, v) = match r {
            Ok(x) => x,
            Err(p) => {
                o.fail(Kind::ImplPanic, "names", format!("serialising every built-in alias panics at {}", strip_msg(&p)), p);
                return o;
            }
        };
        if !matches!(r1, Run::Ok(_)) {
            o.fail(Kind::ImplVsModel, "names", "the name-table program does not run", format!("{r1:?}"));
            return o;
        }
        // the serialised interner: key k ↦ name
        let interner = &v["internal"]["cs_name_interner"];
        let nm = Names {
            buffer: interner["buffer"].as_str().unwrap_or("").to_string(),
            ends: interner["ends"].as_array().map(|a| a.iter().filter_map(|x| x.as_u64()).map(|x| x as usize).collect()).unwrap_or_default(),
        };
        let resolve = |k: u64| nm.resolve(k);
        let key_of = |name: &str| nm.key_of(name);
        let cmds = &v["commands_map"]["commands"]["backing_container"];
        let mut checked = 0;
        for (i, n) in names.iter().enumerate() {
            let a = alias(i);
            let Some(k) = key_of(&a[1..]) else {
                o.fail(Kind::ImplVsModel, "names", "alias not interned", a);
                continue;
            };
            let entry = &cmds[k.to_string()];
            match entry.get("BuiltIn").and_then(|x| x.as_u64()) {
                Some(b) if resolve(b) == *n => checked += 1,
                Some(b) => o.fail(
                    Kind::ImplVsSpec,
                    "names",
                    "name table: a built-in is serialised under another built-in's name",
                    format!("\\let{a}=\\{n} is serialised as BuiltIn({:?})", resolve(b)),
                ),
                None => o.fail(Kind::ImplVsSpec, "names", "name table: a built-in alias is not serialised as BuiltIn", format!("\\{n}: {entry}")),
            }
        }
        o.tag(format!("names-builtins-checked:{checked}"));
        let save = &v["save_stack"][0];
        for (n, _, field) in vars {
            let want = key_of(n);
            let found = save[*field].as_array().map(|es| es.iter().any(|e| e[0].as_u64() == want)).unwrap_or(false);
            if found {
                o.tag("names-variable-checked");
            } else {
                o.fail(
                    Kind::ImplVsSpec,
                    "names",
                    "name table: a saved variable is serialised under another name",
                    format!("\\{n}: save stack field {field} = {}", save[*field]),
                );
            }
        }
        o
    }
}

impl Property for C08 {
    fn id(&self) -> &'static str {
        "C08"
    }
    fn rule(&self) -> String {
        "names: NameTableSound on the real built-in map (every alphabetic built-in name aliased by \\let, every variable built-in saved in a group; serialised names resolved through the serialised interner). \
         ops: hand-written boundary programs, then random programs of modelled operations: P1 = 1..size ops over {, }, assignments to \\count/\\dimen/\\skip/\\toks 0..3, \\catcode/\\mathcode 200..203, \\globaldefs (-1,0,1), \\endlinechar (-1,13,32), \\year \\month \\day \\time, \
         definitions of 5 control sequences and 4 active characters by \\def \\gdef \\chardef \\mathchardef \\countdef \\toksdef \\let (to a character, to another target, to a built-in primitive), 0..2 \\global prefixes; the checkpoint; P2 = reads, then every open group closed with reads after each } (sometimes one } too many, sometimes more definitions). \
         layers: 1..3 names (built-in primitive names such as \\relax \\count \\def \\let \\else \\fi \\global, fresh names, active characters) get an independently chosen meaning at every scope level 0..3 (own primitive meaning through an alias saved by the preamble, another primitive, macro, \\countdef alias, \\chardef, another name's meaning, unchanged), checkpoint inside the open groups, every name read at every level while closing them; the rendered program uses only \\z-aliases of the primitives it needs, so any primitive name can be redefined. \
         codes: \\catcode and \\mathcode of characters of every initial category and on both sides of 128/256/65536 set to every category incl. the default 12/0 and the character's own initial value, in and out of groups, with and without \\global; read with \\the at every level after the checkpoint, then the characters are used. \
         writer: exhaustive 11 ways P1 can leave the script output (nothing written, text, control word, comment, \\par, 1 or 3 \\newline, \\par\\newline, spaces from a macro, \\endlinechar=-1, inside a group) x 9 ways P2 can start (text, blank line, \\newline, macro producing a space, \\par\\par, control word, ...), exact output compared. \
         files: 1..3 files of 0..6 lines (blank, comment-only, brace groups spanning lines, with/without final newline, a missing file), 1..3 \\openin streams (sharing files), k guarded \\read per stream before the checkpoint for random k in 0..lines+1, interleaved, sometimes in a group or after \\closein; after it interleaved guarded reads to exhaustion and \\ifeof of every stream. \
         alloc: 3..14 steps over \\newInt/\\newIntArray (length 0..4) on four names incl. re-allocation with the same or the other kind, local/\\global element assignments at depth 0..3; after the checkpoint all elements read, one more allocation, groups closed one by one with all elements read after each. \
         conds: 1..5 open conditionals nested in any order, each in one of 7 states (true / else branch, case branch, first case, default branch, \\ifnum, \\ifodd-else), closed inside-out, 1 in 10 closers illegal for the state. \
         macros: 1..3 macros with optional prefix tokens, 0..3 undelimited/delimited parameters, optional final #{, \\long/\\global, at group depth 0..2, called with matching arguments at every level after the checkpoint. \
         values: count/dimen/skip/toks in their full value syntax (extremes, fractions, signs, every glue order on stretch and shrink, token lists with every kind of token) at register numbers 0..3, 255, 256, 300, 32767, depth 0..3, with/without \\global, read with \\the at every level. \
         names: 2..6 control-sequence names out of the empty name (backslash at a line end with \\endlinechar=-1), one-character names (letter/other), prefixes of each other, case variants, a 64-letter name, duplicates, some only mentioned in a macro body; defined before the checkpoint (depth 0..1), used / redefined after it, plus names first seen after it. \
         values also assigns the singleton parameters (\\endlinechar, \\globaldefs, \\year, \\month, \\day, \\time, \\dumpFormat, \\dumpValidate, \\tracingmacros) values from the whole i32 range (negatives other than -1, 127/128, 255/256, 65536, extremes) and after the checkpoint reads them with \\the and \\advance-s them. \
         Fonts: the host defines selectors \\fonta..\\fontd (fonts 1..4) through Map::insert; ops/layers select them locally and globally; VM::current_font is part of the state digests and of the model comparison; programs sometimes end inside open groups. \
         All VMs have the stdlib built-ins plus the script component's \\par and \\newline, and an exhausted mock terminal. \
         tex: random selections from a table of unmodelled state (parameterised and delimited macros, \\long, catcode changes incl. active letters and code points > 127, \\endlinechar, token lists with control sequences, \\newInt/\\newIntArray, interaction modes, glue, \\let to 20 primitives incl. conditionals, interned-but-undefined names, pending output white space) inside open groups and open conditionals (\\iftrue, \\iffalse\\else, \\ifcase, \\ifnum, \\ifodd, nested) that P2 closes; every probe is repeated after every closing brace. \
         Each case runs 4 VMs (no checkpoint, JSON, MessagePack, bincode). Non-trivial = P1 runs to its end without error (a checkpoint is taken); distinct = distinct case string."
            .into()
    }
    fn builtin_corpus(&self) -> Vec<String> {
        let mut v: Vec<String> = vec!["names".into()];
        for s in [
            // C08-a witness (DESIGN 5.9)
            r"tex \catcode`\~=13 \def~{A}<NL><CP>~<NL>",
            // C08-b witness: pending white space of the script writer
            r"tex a <NL><CP>b<NL>",
            r"tex a<NL><CP>b<NL>",
            // the repository's own serde tests, as pairs
            r"tex \def\HW{Hello World} <NL><CP>\HW<NL>",
            r"tex \iftrue true <NL><CP>branch \else false branch \fi<NL>",
            r"tex \ifcase 2 a\or b\or c <NL><CP>d \or e \fi<NL>",
            r"tex \count 100 200 <NL><CP>\the \count 100<NL>",
            r"tex \countdef \A 100 \A = 200 <NL><CP>\the \A<NL>",
            r"tex \count 1 1 {\count 1 2 {\count 1 3 <NL><CP>\the\count 1}\the\count 1}\the\count 1<NL>",
            r"tex \catcode 48 11 <NL><CP>\the\catcode 48<NL>",
            r"tex \catcode 480 11 <NL><CP>\the\catcode 480<NL>",
            r"tex {\catcode 48 11 <NL><CP>\the\catcode 48}\the\catcode 48<NL>",
            r"tex \mathcode 480 11 <NL><CP>\the\mathcode 480<NL>",
            r"tex \def\A{Hello World}\let\B=\A <NL><CP>\A \B<NL>",
            r"tex \let\A=B <NL><CP>\A<NL>",
            r"tex \chardef\Hello = `\+ <NL><CP>\Hello<NL>",
            r"tex \mathchardef\Hello = `\+ <NL><CP>\Hello<NL>",
            r"tex \newInt\a \a=-1 <NL><CP>\the\a<NL>",
            r"tex \newIntArray\a 20 \a 3=-1 <NL><CP>\the\a 3<NL>",
            r"tex \def\A#1#2{#2#1}<NL><CP>\A xy<NL>",
            // every kind of saved value in nested groups, global in between
            r"tex \count1=3 {\count1=5 {\global\count1=7 \count1=8<NL><CP>\the\count1}\the\count1}\the\count1<NL>",
            r"tex {\dimen1=2pt \skip1=3pt plus 1fil \toks1={ab}\catcode 200=11 \mathcode 200=7 {\dimen1=4pt \toks1={cd}<NL><CP>\the\dimen1 \the\skip1 \the\toks1 \the\catcode 200 \the\mathcode 200}\the\dimen1 \the\toks1}\the\dimen1 \the\skip1 \the\toks1 \the\catcode 200 \the\mathcode 200<NL>",
            r"tex \globaldefs=1 <NL><CP>{\count1=5 }\the\count1 \the\globaldefs<NL>",
            r"tex \endlinechar=-1 <NL><CP>a<NL>b<NL>\the\endlinechar<NL>",
            // one } too many after the checkpoint
            r"tex {<NL><CP>}}<NL>",
            // active characters inside groups
            r"tex \catcode`\~=13 \def~{A}{\def~{B}<NL><CP>~}~<NL>",
            r"tex \catcode`\~=13 {\gdef~{G}<NL><CP>~}~<NL>",
            r"tex {<NL><CP>}x<NL>",
        ] {
            v.push(s.to_string());
        }
        let op = |ops: &[MOp]| format!("ops {}", join(&enc_ops(ops)));
        // modelled boundary programs
        v.push(op(&[MOp::Define { pre: 0, tk: 1, tn: 0, dk: 0, a: 5, b: 0 }, MOp::Ckpt, MOp::ReadCmd { tk: 1, tn: 0 }]));
        v.push(op(&[MOp::Define { pre: 0, tk: 0, tn: 0, dk: 0, a: 5, b: 0 }, MOp::Ckpt, MOp::ReadCmd { tk: 0, tn: 0 }]));
        v.push(op(&[
            MOp::Begin,
            MOp::Assign { pre: 0, kind: 0, idx: 1, val: 7 },
            MOp::Define { pre: 0, tk: 0, tn: 2, dk: 4, a: 1, b: 0 },
            MOp::Ckpt,
            MOp::ReadCmd { tk: 0, tn: 2 },
            MOp::End,
            MOp::ReadVar { kind: 0, idx: 1 },
            MOp::ReadCmd { tk: 0, tn: 2 },
        ]));
        for kind in 0..=5 {
            let val = [5, 3, 4, 17, 11, 291][kind as usize];
            v.push(op(&[
                MOp::Assign { pre: 0, kind, idx: 1, val },
                MOp::Begin,
                MOp::Assign { pre: 0, kind, idx: 1, val: val + 1 },
                MOp::Begin,
                MOp::Assign { pre: 0, kind, idx: 2, val },
                MOp::Ckpt,
                MOp::ReadVar { kind, idx: 1 },
                MOp::End,
                MOp::ReadVar { kind, idx: 1 },
                MOp::ReadVar { kind, idx: 2 },
                MOp::End,
                MOp::ReadVar { kind, idx: 1 },
            ]));
        }
        for p in [0, 1, 2, 3, 4, 20, 21, 22, 25] {
            for tk in [0, 1] {
                v.push(op(&[MOp::Define { pre: 0, tk, tn: 1, dk: 10, a: p, b: 0 }, MOp::Ckpt, MOp::ReadCmd { tk, tn: 1 }]));
            }
        }
        // the pending \global flag cannot be open at a line boundary; \globaldefs can
        v.push(op(&[
            MOp::Assign { pre: 0, kind: 6, idx: 0, val: 1 },
            MOp::Begin,
            MOp::Ckpt,
            MOp::Assign { pre: 0, kind: 0, idx: 0, val: 9 },
            MOp::Define { pre: 0, tk: 1, tn: 1, dk: 0, a: 1, b: 0 },
            MOp::End,
            MOp::ReadVar { kind: 0, idx: 0 },
            MOp::ReadCmd { tk: 1, tn: 1 },
        ]));
        v
    }
    fn generate(&mut self, ctx: &Ctx, rng: &mut Rng) -> Vec<String> {
        let mut v = vec![];
        let (n_ops, n_layers, n_tex, n_codes, n_files, n_alloc, n_conds, n_macros, n_values) =
            if ctx.thorough { (2500, 1200, 2000, 1200, 900, 900, 500, 700, 700) } else { (180, 120, 150, 100, 90, 90, 50, 70, 70) };
        let mut r = rng.fork();
        for _ in 0..(if ctx.thorough { 700 } else { 70 }) {
            v.push(format!("ops {}", join(&enc_ops(&gen_sharing(&mut r)))));
        }
        let mut r = rng.fork();
        for _ in 0..(if ctx.thorough { 600 } else { 60 }) {
            v.push(gen_names(&mut r));
        }
        let mut r = rng.fork();
        for _ in 0..n_macros {
            v.push(gen_macros(&mut r));
        }
        let mut r = rng.fork();
        for _ in 0..n_values {
            v.push(gen_values(&mut r));
        }
        let mut r = rng.fork();
        for i in 0..n_ops {
            let size = [3, 6, 10, 16, 24][i % 5];
            v.push(format!("ops {}", join(&enc_ops(&gen_ops(&mut r, size)))));
        }
        let mut r = rng.fork();
        for _ in 0..n_layers {
            v.push(format!("ops {}", join(&enc_ops(&gen_layers(&mut r)))));
        }
        let mut r = rng.fork();
        for i in 0..n_tex {
            let size = [2, 4, 7, 10][i % 4];
            v.push(gen_tex(&mut r, size));
        }
        let mut r = rng.fork();
        for _ in 0..n_codes {
            v.push(gen_codes(&mut r));
        }
        v.extend(writer_cases());
        let mut r = rng.fork();
        for _ in 0..n_files {
            v.push(gen_files(&mut r));
        }
        let mut r = rng.fork();
        for _ in 0..n_alloc {
            v.push(gen_alloc(&mut r));
        }
        let mut r = rng.fork();
        for _ in 0..n_conds {
            v.push(gen_conds(&mut r));
        }
        v
    }
    fn run_case(&mut self, case: &str, drv: &mut Driver) -> CaseOutcome {
        if case == "names" {
            return self.run_names(drv);
        }
        if let Some(b) = case.strip_prefix("tex ") {
            return self.run_tex(b, drv);
        }
        if let Some(b) = case.strip_prefix("ops ") {
            return self.run_ops(b, drv);
        }
        if let Some(p1) = case.strip_prefix("dump ") {
            let mut vm = new_vm();
            println!("{:?}", run_src(&mut vm, "p1.tex", &decode(p1)));
            let v = serde_json::to_value(&vm).unwrap();
            println!("commands_map: {}", v["commands_map"]);
            println!("save_stack: {}", v["save_stack"]);
            let mut i = v["internal"].clone();
            i.as_object_mut().unwrap().remove("tracer");
            println!("internal: {i}");
            for (k, x) in v["state"].as_object().unwrap() {
                let t = x.to_string();
                if t.len() < 300 {
                    println!("state.{k}: {t}");
                } else {
                    println!("state.{k}: [{} bytes]", t.len());
                }
            }
            return CaseOutcome::default();
        }
        let mut o = CaseOutcome::default();
        o.fail(Kind::ImplVsModel, "case", "unknown case kind", case);
        o
    }
    fn shrink(&self, case: &str) -> Vec<String> {
        let mut out = vec![];
        if let Some(b) = case.strip_prefix("ops ") {
            let Some(ops) = dec_ops(&parse_i64s(b)) else { return out };
            let n = ops.len();
            let emit = |keep: &dyn Fn(usize) -> bool, out: &mut Vec<String>| {
                let v: Vec<MOp> = ops.iter().enumerate().filter(|(i, o)| **o == MOp::Ckpt || keep(*i)).map(|(_, o)| o.clone()).collect();
                // keep something to run after the checkpoint, so that the replay shows behaviour
                let post = v.iter().skip_while(|o| **o != MOp::Ckpt).count();
                if v.len() < n && post >= 2 {
                    out.push(format!("ops {}", join(&enc_ops(&v))));
                }
            };
            emit(&|i| i >= n / 2, &mut out);
            emit(&|i| i < n / 2, &mut out);
            for chunk in [4usize, 2] {
                let mut s = 0;
                while s < n {
                    emit(&|i| i < s || i >= s + chunk, &mut out);
                    s += chunk;
                }
            }
            for k in 0..n {
                emit(&|i| i != k, &mut out);
            }
            // drop a `{` together with a later `}`
            for i in 0..n {
                if ops[i] != MOp::Begin {
                    continue;
                }
                for j in i + 1..n {
                    if ops[j] == MOp::End {
                        emit(&|x| x != i && x != j, &mut out);
                    }
                }
            }
            // no \global
            let v: Vec<MOp> = ops
                .iter()
                .map(|o| match o {
                    MOp::Assign { kind, idx, val, .. } => MOp::Assign { pre: 0, kind: *kind, idx: *idx, val: *val },
                    MOp::Define { tk, tn, dk, a, b, .. } => MOp::Define { pre: 0, tk: *tk, tn: *tn, dk: *dk, a: *a, b: *b },
                    o => o.clone(),
                })
                .collect();
            if v != ops {
                out.push(format!("ops {}", join(&enc_ops(&v))));
            }
        } else if let Some(b) = case.strip_prefix("tex ") {
            // file blocks stay as they are
            let (files, b) = match b.rfind("<ENDFILE>") {
                Some(i) => b.split_at(i + "<ENDFILE>".len()),
                None => ("", b),
            };
            let Some((p1, p2)) = b.split_once("<CP>") else { return out };
            // lines (blank lines are lines: they are paragraph breaks); the text ends with <NL>
            let lines = |p: &str| -> Vec<String> {
                let mut l: Vec<String> = p.split("<NL>").map(|x| x.to_string()).collect();
                if l.last().map(|x| x.is_empty()).unwrap_or(false) {
                    l.pop();
                }
                l
            };
            let (o1, o2) = (lines(p1), lines(p2));
            let l1: Vec<&str> = o1.iter().map(|x| x.as_str()).collect();
            let l2: Vec<&str> = o2.iter().map(|x| x.as_str()).collect();
            let build = |a: &[&str], b: &[&str]| format!("tex {files}{}<NL><CP>{}<NL>", a.join("<NL>"), b.join("<NL>"));
            if l2.len() > 1 {
                out.push(build(&l1, &l2[..l2.len() / 2]));
                out.push(build(&l1, &l2[l2.len() / 2..]));
            }
            if l1.len() > 1 {
                out.push(build(&l1[..l1.len() / 2], &l2));
                out.push(build(&l1[l1.len() / 2..], &l2));
            }
            for k in 0..l2.len() {
                if l2.len() == 1 {
                    break; // keep something to run after the checkpoint
                }
                let mut x = l2.clone();
                x.remove(k);
                out.push(build(&l1, &x));
            }
            for k in 0..l1.len() {
                let mut x = l1.clone();
                x.remove(k);
                out.push(build(&x, &l2));
            }
            // a `{` line of P1 together with a `}` line of P2
            for i in 0..l1.len() {
                if l1[i] != "{" {
                    continue;
                }
                for j in 0..l2.len() {
                    if l2[j] == "}" {
                        let (mut x, mut y) = (l1.clone(), l2.clone());
                        x.remove(i);
                        y.remove(j);
                        out.push(build(&x, &y));
                    }
                }
            }
            // a conditional opener of P1 together with its closer in P2
            for (oc, cc) in CONDS {
                if let (Some(i), Some(j)) = (l1.iter().position(|l| l == oc), l2.iter().position(|l| l == cc)) {
                    let (mut x, mut y) = (l1.clone(), l2.clone());
                    x.remove(i);
                    y.remove(j);
                    out.push(build(&x, &y));
                }
            }
        }
        out
    }
}

fn main() {
    run(C08 { variant: None });
}
