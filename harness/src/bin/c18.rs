//! C18 — the Box language round-trips every expressible list; formatting is idempotent and
//! meaning-preserving; its parser is total.
//!
//! Case strings (one ASCII line each):
//!   `rt <H|V> <style> <nodes>`  a list (integer-encoded, see c18/nodes.rs) is printed by the
//!        real code (style 1 = `Vec<_>::to_box_lang` + `cst::pretty_print`, style 0 = one
//!        `Display` per element as boxworks-testing does), the text is parsed back by the real
//!        parser; I vs S: parsed == original whenever Lean says the list is expressible, and
//!        Lean's own lexer+parser run on the *real text* must give the original list too;
//!        I vs M: the real text lexes to exactly the model's token rendering. A panic anywhere
//!        is an `impl-panic`.
//!   `src <hex of UTF-8>`        a source text through the real `parse_horizontal_list`, the
//!        vertical parser and `format`, all under `caught`. S: no panic; if `format` succeeds
//!        then `format(format(s)) == format(s)`, and parsing `format(s)` gives what parsing
//!        `s` gives (both lists, or both errors). I vs M: Lean's `parseText` result (when the
//!        text is inside the modelled fragment) equals the real one, and the real formatted
//!        text lexes to the model's `formatToks`.
//!   `big <kind> <n>`            a long repetitive input parsed in a child process (a stack
//!        overflow aborts the process and cannot be caught in-process).

#[path = "c18/nodes.rs"]
mod nodes;
#[path = "c18/srcgen.rs"]
mod srcgen;

use boxworks::ds;
use boxworks::lang as bwl;
use boxworks::lang::convert::{ToBoxLang, ToBoxworks};
use nodes::*;
use srcgen::*;
use vh::*;

/// Error variants by name. "Located errors": every error must render (message, labels,
/// notes — a panic here is caught by the caller) and every label must point at a valid
/// range of the source; a label that does not is reported as the pseudo-variant
/// `BadSpan:<variant>`.
fn err_variants_in(src: &str, errs: &[bwl::Error]) -> Vec<String> {
    errs.iter()
        .map(|e| {
            let d = format!("{e:?}");
            let name = d.split(|c: char| !c.is_alphanumeric()).next().unwrap_or("").to_string();
            let _ = e.message();
            let _ = e.notes();
            for l in e.labels() {
                if l.span.start > l.span.end || src.get(l.span.clone()).is_none() {
                    return format!("BadSpan:{name}");
                }
            }
            name
        })
        .collect()
}

/// `file:line: message` -> `file: message class`. Line numbers move when unrelated fixes
/// land in the same file, and messages can quote the input, so a panic is identified by its
/// file and the kind of failure.
fn panic_class(m: &str) -> String {
    let mut parts = m.splitn(3, ':');
    let file = parts.next().unwrap_or("?");
    let _line = parts.next();
    let msg = parts.next().unwrap_or("").trim();
    let class = if msg.contains("not a char boundary") {
        "slice not on a char boundary".to_string()
    } else if msg.starts_with("begin > end") || msg.starts_with("slice index starts at") || msg.contains("out of range for") {
        "slice out of order or out of range".to_string()
    } else if let Some(i) = msg.find("attempt to ") {
        msg[i..].chars().take_while(|c| c.is_ascii_alphabetic() || *c == ' ').collect::<String>().trim().to_string()
    } else if msg.contains("on a `None` value") {
        "unwrap on None".to_string()
    } else if msg.contains("on an `Err` value") {
        "unwrap on Err".to_string()
    } else {
        msg.chars().take(40).map(|c| if c.is_ascii_digit() { '#' } else { c }).collect()
    };
    format!("{file}: {class}")
}

/// The real lexer's token stream (comments dropped), encoded like `encTok` in the driver, and
/// the first error it records other than the two bracket-matching errors (those come from the
/// pre-pass `Lexer::build`, which the token-level model does not have).
fn real_lex(src: &str) -> (Vec<i64>, Option<String>, Vec<i64>) {
    use bwl::lexer::TokenValue as T;
    let errs: bwl::ErrorAccumulator = Default::default();
    let lexer = bwl::lexer::Lexer::new(src, errs.clone());
    let mut out: Vec<i64> = vec![];
    // byte offset of the closer the pre-pass matched each opening bracket with (from the Debug
    // form of the opaque `ClosingParen`), -1 = unmatched
    let mut closers: Vec<i64> = vec![];
    let closer_of = |c: &Option<bwl::lexer::ClosingParen>| -> i64 {
        match c {
            None => -1,
            Some(c) => {
                let d = format!("{c:?}");
                d.split("source_idx: ")
                    .nth(1)
                    .and_then(|t| t.split(|ch: char| !ch.is_ascii_digit()).next())
                    .and_then(|t| t.parse().ok())
                    .unwrap_or(-2)
            }
        }
    };
    let enc_str = |out: &mut Vec<i64>, s: &str| {
        out.push(s.chars().count() as i64);
        out.extend(s.chars().map(|c| c as i64));
    };
    for t in lexer {
        match &t.value {
            T::Comment => {}
            T::Keyword => {
                out.push(0);
                enc_str(&mut out, &format!("{}", t.source));
            }
            T::RoundOpen { closing } => {
                out.push(1);
                closers.push(closer_of(closing));
            }
            T::RoundClose => out.push(2),
            T::SquareOpen { closing } => {
                out.push(3);
                closers.push(closer_of(closing));
            }
            T::SquareClose => out.push(4),
            T::Comma => out.push(5),
            T::Equal => out.push(6),
            T::String(s) => {
                out.push(7);
                enc_str(&mut out, s);
            }
            T::Integer(n) => out.extend([8, *n as i64]),
            T::Scaled(s) => out.extend([9, s.0 as i64]),
            T::InfiniteGlue(s, o) => out.extend([
                10,
                s.0 as i64,
                match o {
                    common::GlueOrder::Normal => 0,
                    common::GlueOrder::Fil => 1,
                    common::GlueOrder::Fill => 2,
                    common::GlueOrder::Filll => 3,
                },
            ]),
        }
    }
    let first = match errs.check() {
        Ok(()) => None,
        Err(v) => {
            let names = err_variants_in(src, &v);
            names
                .iter()
                .position(|n| n != "UnmatchedOpeningBracket" && n != "MismatchedBraces")
                .map(|i| {
                    // class and the byte range of the (only) label
                    let sp = v[i].labels().first().map(|l| l.span.clone()).unwrap_or(0..0);
                    format!("{} {} {}", names[i], sp.start, sp.end)
                })
        }
    };
    (out, first, closers)
}

/// Which characters `char::escape_debug` (std) leaves unescaped, among printable ASCII and the
/// characters of the list. The model takes this as its parameter `raw`.
fn raw_set(l: &[N]) -> Vec<i64> {
    fn chars_of(l: &[N], out: &mut Vec<u32>) {
        for n in l {
            match n {
                N::Char(c, _) => out.push(*c),
                N::Lig { c, orig, .. } => {
                    out.push(*c);
                    out.extend(orig.iter().copied());
                }
                _ => {}
            }
            for ch in n.children() {
                chars_of(ch, out);
            }
        }
    }
    let mut cands: Vec<u32> = (0x20..0x7f).collect();
    chars_of(l, &mut cands);
    cands.sort();
    cands.dedup();
    cands
        .into_iter()
        .filter(|c| char::from_u32(*c).map(|ch| ch.escape_debug().count() == 1).unwrap_or(false))
        .map(|c| c as i64)
        .collect()
}

/// Does the list hold an hbox whose glue ratio prints as 16384 or more (finding C18-e: written
/// by `Display for GlueRatio`, rejected by the pre-fix `from_float_str`)?
fn has_big_ratio(l: &[N]) -> bool {
    l.iter().any(|n| {
        let here = match n {
            N::HBox { num, den, .. } => ratio_text(*num, *den)
                .split('.')
                .next()
                .and_then(|i| i.parse::<i64>().ok())
                .map(|i| i >= 16384)
                .unwrap_or(false),
            _ => false,
        };
        here || n.children().iter().any(|c| has_big_ratio(c))
    })
}

/// A quoted number of 16384..=32767 in a source text (same finding, on the `src` streams).
fn has_big_ratio_string(text: &str) -> bool {
    let cs: Vec<char> = text.chars().collect();
    (0..cs.len()).any(|i| {
        if cs[i] != '"' {
            return false;
        }
        let mut j = i + 1;
        if cs.get(j) == Some(&'-') {
            j += 1;
        }
        let st = j;
        while cs.get(j).map(|c| c.is_ascii_digit()).unwrap_or(false) {
            j += 1;
        }
        let digits: String = cs[st..j].iter().collect();
        digits.parse::<i64>().map(|v| (16384..=32767).contains(&v)).unwrap_or(false)
    })
}

fn print_h(list: &[ds::Horizontal], style: u32) -> String {
    let mut s = String::new();
    if style == 1 {
        let ast = list.to_vec().to_box_lang();
        bwl::cst::pretty_print(&mut s, bwl::ast::lower_hbox(&ast)).unwrap();
    } else {
        use std::fmt::Write;
        for e in list {
            write!(&mut s, "{e}").unwrap();
        }
    }
    s
}

fn print_v(list: &[ds::Vertical], style: u32) -> String {
    let mut s = String::new();
    if style == 1 {
        let ast = list.to_vec().to_box_lang();
        bwl::cst::pretty_print(&mut s, bwl::ast::lower_vbox(&ast)).unwrap();
    } else {
        use std::fmt::Write;
        for e in list {
            write!(&mut s, "{}", e.to_box_lang()).unwrap();
        }
    }
    s
}

fn parse_h(src: &str) -> Result<Vec<ds::Horizontal>, Vec<String>> {
    bwl::parse_horizontal_list(src).map_err(|e| err_variants_in(src, &e))
}

fn parse_v(src: &str) -> Result<Vec<ds::Vertical>, Vec<String>> {
    let errs: bwl::ErrorAccumulator = Default::default();
    let v = bwl::ast::parse_vbox_using_cst(bwl::cst::parse(src, errs.clone()), &errs);
    match errs.check() {
        Ok(()) => Ok(v.to_boxworks()),
        Err(e) => Err(err_variants_in(src, &e)),
    }
}

fn real_format(src: &str) -> Result<String, Vec<String>> {
    bwl::format(src).map_err(|e| err_variants_in(src, &e))
}

fn cps(s: &str) -> String {
    let v: Vec<String> = s.chars().map(|c| (c as u32).to_string()).collect();
    v.join(" ")
}

fn field<'a>(reply: &'a str, key: &str) -> &'a str {
    for w in reply.split_ascii_whitespace() {
        if let Some(v) = w.strip_prefix(key) {
            if let Some(v) = v.strip_prefix('=') {
                return v;
            }
        }
    }
    ""
}

fn first_diff_kind(a: &[i64], b: &[i64]) -> String {
    // both are list encodings; report the position class only (stable across inputs)
    if a.first() != b.first() {
        return "length".into();
    }
    "content".into()
}

fn collect_tags(l: &[N], depth: usize, out: &mut CaseOutcome) {
    let mut prev_font: Option<u32> = None;
    for n in l {
        out.tag(format!("node:{}", n.kind_name()));
        match n {
            N::Char(c, f) => {
                if prev_font == Some(*f) {
                    out.tag("chars:merged-run");
                }
                prev_font = Some(*f);
                tag_char(*c, out);
                if *f >= 1 << 31 {
                    out.tag("font>=2^31");
                }
                continue;
            }
            N::Lig { c, orig, .. } => {
                tag_char(*c, out);
                for c in orig {
                    tag_char(*c, out);
                }
            }
            N::Glue { sto, sho, .. } | N::Ins { sto, sho, .. } => {
                out.tag(format!("order:{sto}"));
                out.tag(format!("order:{sho}"));
            }
            N::Rule(h, w, d) => {
                if [*h, *w, *d].contains(&i32::MIN) {
                    out.tag("rule:running");
                }
            }
            N::Kern { w, .. } => {
                if w.unsigned_abs() == MAXD as u32 {
                    out.tag("dim:at-limit");
                }
            }
            _ => {}
        }
        prev_font = None;
        for c in n.children() {
            if !c.is_empty() {
                out.tag(format!("nest-depth:{}", (depth + 1).min(4)));
            }
            collect_tags(c, depth + 1, out);
        }
    }
}

fn tag_char(c: u32, out: &mut CaseOutcome) {
    for (name, members) in CHAR_CLASSES {
        if members.contains(&c) {
            out.tag(format!("char:{name}"));
            return;
        }
    }
    out.tag("char:other");
}

struct C18 {
    repo: String,
}

impl C18 {
    fn run_rt(&mut self, mode: Mode, style: u32, l: &[N], drv: &mut Driver, out: &mut CaseOutcome) {
        let stream = "round_trip";
        out.tag(format!("rt:{mode:?}:style{style}"));
        collect_tags(l, 0, out);
        let mut req = vec![];
        enc_req_list(l, &mut req);
        let mname = if mode == Mode::H { "H" } else { "V" };

        // I: print with the real code, parse the text back with the real code.
        enum Parsed {
            Same,
            Differs(String),
            Err(Vec<String>),
        }
        let printed: Result<String, String>;
        let mut parsed: Option<Result<Parsed, String>> = None;
        if mode == Mode::H {
            let list = to_h_list(l);
            printed = caught(|| print_h(&list, style));
            if let Ok(t) = &printed {
                parsed = Some(caught(|| match parse_h(t) {
                    Ok(back) if back == list => Parsed::Same,
                    Ok(back) => {
                        let (mut a, mut b) = (vec![], vec![]);
                        r_h_list(&list, &mut a);
                        r_h_list(&back, &mut b);
                        Parsed::Differs(first_diff_kind(&a, &b))
                    }
                    Err(e) => Parsed::Err(e),
                }));
            }
        } else {
            let list = to_v_list(l);
            printed = caught(|| print_v(&list, style));
            if let Ok(t) = &printed {
                parsed = Some(caught(|| match parse_v(t) {
                    Ok(back) if back == list => Parsed::Same,
                    Ok(back) => {
                        let (mut a, mut b) = (vec![], vec![]);
                        r_v_list(&list, &mut a);
                        r_v_list(&back, &mut b);
                        Parsed::Differs(first_diff_kind(&a, &b))
                    }
                    Err(e) => Parsed::Err(e),
                }));
            }
        }
        // `Display for ds::VBox` (an observation point of the property) must write what
        // `Display for ds::Horizontal::VBox` writes; the latter is compared with the model and
        // round-tripped above.
        if mode == Mode::H {
            for n in l.iter().filter(|n| matches!(n, N::VBox { .. })) {
                let vb = mk_vbox(n);
                match caught(|| (format!("{vb}"), format!("{}", ds::Horizontal::VBox(vb.clone())))) {
                    Err(p) => out.fail(Kind::ImplPanic, stream, format!("print panic {}", panic_class(&p)), p),
                    Ok((a, b)) => {
                        out.tag("display:ds::VBox");
                        // and the model: the text is renderCalls raw 0 [lowerNode vbox], and Lean's
                        // parser reads it back as that box (display_vbox_round_trip)
                        let one = std::slice::from_ref(n);
                        let mut rq = vec![];
                        enc_req_list(one, &mut rq);
                        let rp = drv.ask(&format!("rt H 0 | {} | {} | {}", join(&rq), cps(&a), join(&raw_set(one))));
                        let rp = rp.split(" | ").next().unwrap_or("").to_string();
                        if field(&rp, "txt") != "1" {
                            out.fail(
                                Kind::ImplVsModel,
                                stream,
                                "Display for ds::VBox differs from the model's rendering",
                                format!("{rp}\ntext: {a}"),
                            );
                        } else if field(&rp, "lex") == "ok" && field(&rp, "repr") == "1" && field(&rp, "nspec") != "1" {
                            out.fail(
                                Kind::ImplVsSpec,
                                stream,
                                "Display for ds::VBox: Lean's parser does not read the box back",
                                format!("{rp}\ntext: {a}"),
                            );
                        }
                        if a != b {
                            out.fail(
                                Kind::ImplVsSpec,
                                stream,
                                "Display for ds::VBox differs from the list printer's text for the same box",
                                format!("Display for ds::VBox:\n{a}\nDisplay for ds::Horizontal::VBox:\n{b}"),
                            );
                        }
                    }
                }
            }
        }
        let text_sec = match &printed {
            Ok(t) => cps(t),
            Err(_) => "-".into(),
        };
        let raw = raw_set(l);
        let reply_full = drv.ask(&format!("rt {mname} {style} | {} | {} | {}", join(&req), text_sec, join(&raw)));
        let (reply, model_text) = match reply_full.split_once(" | ") {
            Some((a, b)) => (a.to_string(), Some(b.to_string())),
            None => (reply_full.clone(), None),
        };
        if reply.starts_with("bad-request") {
            panic!("driver rejected the request: {reply}");
        }
        let expr = field(&reply, "expr") == "1";
        out.tag(if expr { "expressible" } else { "inexpressible" });
        out.nontrivial = expr && !l.is_empty();

        if field(&reply, "model") != "1" && expr {
            out.fail(Kind::ModelVsSpec, stream, "model round trip fails on an expressible list", reply.clone());
        }
        let text = match printed {
            Err(p) => {
                out.fail(Kind::ImplPanic, stream, format!("print panic {}", panic_class(&p)), p);
                return;
            }
            Ok(t) => t,
        };
        match parsed.unwrap() {
            Err(p) => {
                out.tag("parse-of-printed:panic");
                out.fail(
                    Kind::ImplPanic,
                    stream,
                    format!("parse panic {}", panic_class(&p)),
                    format!("{p}\nprinted text: {text}"),
                );
            }
            Ok(Parsed::Same) => {
                out.tag("parse-of-printed:same");
            }
            Ok(Parsed::Differs(what)) => {
                out.tag("parse-of-printed:differs");
                if expr {
                    out.fail(
                        Kind::ImplVsSpec,
                        stream,
                        format!("round trip: list differs ({what})"),
                        format!("printed text: {text}"),
                    );
                }
            }
            Ok(Parsed::Err(e)) => {
                out.tag("parse-of-printed:error");
                if expr {
                    let first = e.first().cloned().unwrap_or_default();
                    let sig = if first == "IncorrectType" && e.iter().all(|x| x == "IncorrectType") && has_big_ratio(l) {
                        "round trip: an hbox glue ratio >= 16384 is printed but not read back (C18-e)".to_string()
                    } else {
                        format!("round trip: parse error {first}")
                    };
                    out.fail(
                        Kind::ImplVsSpec,
                        stream,
                        sig,
                        format!("errors {e:?}\nprinted text: {text}"),
                    );
                }
            }
        }
        if field(&reply, "mlex") != "1" && expr {
            out.fail(Kind::ModelVsSpec, stream, "model lexer does not invert the model printer", reply.clone());
        }
        if field(&reply, "txt") != "1" {
            let mt: String = model_text
                .as_deref()
                .unwrap_or("")
                .split_ascii_whitespace()
                .filter_map(|w| w.parse::<u32>().ok().and_then(char::from_u32))
                .collect();
            out.fail(
                Kind::ImplVsModel,
                stream,
                "printed text differs from the model's rendering (layout or escapes)",
                format!("real text:\n{text}\nmodel text:\n{mt}"),
            );
        } else {
            out.tag("text:identical-to-model");
        }
        // Lean on the real text.
        match field(&reply, "lex") {
            "ok" => {
                if field(&reply, "tok") != "1" {
                    out.fail(
                        Kind::ImplVsModel,
                        stream,
                        "printed tokens differ from the model's rendering",
                        format!("{reply}\nprinted text: {text}"),
                    );
                }
                if field(&reply, "repr") == "1" && field(&reply, "nspec") != "1" {
                    out.fail(
                        Kind::ImplVsSpec,
                        stream,
                        "round trip (Lean parser on the real text): result is not the normalised list",
                        format!("{reply}\nprinted text: {text}"),
                    );
                }
                if expr && field(&reply, "spec") != "1" {
                    out.fail(
                        Kind::ImplVsSpec,
                        stream,
                        "round trip (Lean parser on the real text): list differs",
                        format!("{reply}\nprinted text: {text}"),
                    );
                }
            }
            other => {
                // the model lexer says the real printer's text is an error: only fine when
                // the list is inexpressible (then the real parser must not have accepted it)
                if expr || other == "uns" {
                    out.fail(
                        Kind::ImplVsModel,
                        stream,
                        format!("model lexer rejects the printed text ({other})"),
                        format!("{reply}\nprinted text: {text}"),
                    );
                }
            }
        }
    }

    fn run_src(&mut self, text: &str, drv: &mut Driver, out: &mut CaseOutcome) {
        let stream_t = "totality";
        let stream_f = "format_laws";
        let stream_m = "parse_model";
        let h = caught(|| parse_h(text));
        let v = caught(|| parse_v(text));
        let f = caught(|| real_format(text));
        // Before fix C18-a a malformed `\u` escape (anything but `\u{hex*}`) is silently
        // accepted, and the lexer and its bracket pre-pass can disagree about where the string
        // ends (a `\u` not followed by `{` even loses track of the byte position). The model
        // describes the repaired lexer (an UnknownEscapeSequence error), so panics and
        // model differences on such texts are attributed.
        let malformed_u = {
            let cs: Vec<char> = text.chars().collect();
            (0..cs.len()).any(|i| {
                if !(cs[i] == '\\' && cs.get(i + 1) == Some(&'u')) {
                    return false;
                }
                if cs.get(i + 2) != Some(&'{') {
                    return true;
                }
                let mut j = i + 3;
                while cs.get(j).map(|c| c.is_ascii_hexdigit()).unwrap_or(false) {
                    j += 1;
                }
                if cs.get(j) != Some(&'}') {
                    return true;
                }
                // well-formed syntax, but not a scalar value (silently dropped before the fix)
                let hex: String = cs[i + 3..j].iter().collect();
                let v = if hex.is_empty() { Some(0) } else { u32::from_str_radix(&hex, 16).ok() };
                v.and_then(char::from_u32).is_none()
            })
        };
        let attr = if malformed_u { " [text has a malformed \\u escape, C18-a]" } else { "" };
        for (what, r) in [("parse_h", h.as_ref().err()), ("parse_v", v.as_ref().err()), ("format", f.as_ref().err())] {
            if let Some(p) = r {
                out.tag(format!("{what}:panic"));
                out.fail(Kind::ImplPanic, stream_t, format!("panic {}{attr}", panic_class(p)), format!("{what}: {p}"));
            }
        }
        match &h {
            Ok(Ok(l)) => {
                out.tag("parse_h:ok");
                if !l.is_empty() {
                    out.nontrivial = true;
                }
            }
            Ok(Err(e)) => {
                out.tag("parse_h:err");
                for v in e {
                    out.tag(format!("error:{v}"));
                    if let Some(name) = v.strip_prefix("BadSpan:") {
                        out.fail(
                            Kind::ImplVsSpec,
                            stream_t,
                            format!("error {name} is not located: a label's span is not a valid range of the source{attr}"),
                            format!("errors {e:?}"),
                        );
                    }
                }
                out.nontrivial = true;
            }
            Err(_) => {}
        }
        match &v {
            Ok(Ok(_)) => out.tag("parse_v:ok"),
            Ok(Err(_)) => out.tag("parse_v:err"),
            Err(_) => {}
        }
        // format laws
        let mut fmt_text: Option<String> = None;
        match &f {
            Ok(Ok(ft)) => {
                out.tag("format:ok");
                fmt_text = Some(ft.clone());
                match caught(|| real_format(ft)) {
                    Err(p) => out.fail(Kind::ImplPanic, stream_f, format!("panic {}", panic_class(&p)), format!("format(format(s)): {p}")),
                    Ok(Ok(ff)) => {
                        if &ff != ft {
                            out.fail(
                                Kind::ImplVsSpec,
                                stream_f,
                                "format is not idempotent",
                                format!("format(s) = {ft:?}\nformat(format(s)) = {ff:?}"),
                            );
                        } else {
                            out.tag("format:idempotent");
                        }
                    }
                    Ok(Err(e)) => out.fail(
                        Kind::ImplVsSpec,
                        stream_f,
                        "format rejects its own output",
                        format!("format(s) = {ft:?}\nerrors {e:?}"),
                    ),
                }
                // meaning preservation, horizontal and vertical reading
                if let Ok(hs) = &h {
                    match caught(|| parse_h(ft)) {
                        Err(p) => out.fail(Kind::ImplPanic, stream_f, format!("panic {}", panic_class(&p)), format!("parse(format(s)): {p}")),
                        Ok(hf) => {
                            let sig = match (hs, &hf) {
                                (Ok(a), Ok(b)) if a == b => None,
                                (Ok(_), Ok(_)) => Some("ok->different list"),
                                (Ok(_), Err(_)) => Some("ok->err"),
                                (Err(_), Ok(_)) => Some("err->ok"),
                                (Err(_), Err(_)) => None,
                            };
                            if let Some(sig) = sig {
                                out.fail(
                                    Kind::ImplVsSpec,
                                    stream_f,
                                    format!("format changes what the text parses to: {sig}"),
                                    format!("parse(s) = {hs:?}\nformat(s) = {ft:?}\nparse(format(s)) = {hf:?}"),
                                );
                            } else {
                                out.tag("format:meaning-preserved");
                            }
                        }
                    }
                }
                if let Ok(vs) = &v {
                    if let Ok(vf) = caught(|| parse_v(ft)) {
                        let bad = match (vs, &vf) {
                            (Ok(a), Ok(b)) => a != b,
                            (Ok(_), Err(_)) | (Err(_), Ok(_)) => true,
                            (Err(_), Err(_)) => false,
                        };
                        if bad {
                            out.fail(
                                Kind::ImplVsSpec,
                                stream_f,
                                "format changes what the text parses to (vertical)",
                                format!("parse_v(s) = {vs:?}\nformat(s) = {ft:?}\nparse_v(format(s)) = {vf:?}"),
                            );
                        }
                    }
                }
            }
            Ok(Err(_)) => out.tag("format:err"),
            Err(_) => {}
        }
        // the model
        // raw set for the exact comparison of the formatter's text: a character that Rust prints
        // unescaped occurs literally in the real output, so the candidates are printable ASCII,
        // the characters of the source and those of the real output
        let mut raw: Vec<i64> = vec![];
        {
            let mut cands: Vec<char> = (0x20u8..0x7f).map(|b| b as char).collect();
            cands.extend(text.chars());
            if let Some(t) = &fmt_text {
                cands.extend(t.chars());
            }
            cands.sort();
            cands.dedup();
            for ch in cands {
                if ch.escape_debug().count() == 1 {
                    raw.push(ch as i64);
                }
            }
        }
        let fe = match &f {
            Ok(Ok(_)) => "O",
            Ok(Err(_)) => "E",
            Err(_) => "P",
        };
        let reply = drv.ask(&format!(
            "src {fe} | {} | {} | {}",
            cps(text),
            match &fmt_text {
                Some(t) => cps(t),
                None => "-".into(),
            },
            join(&raw)
        ));
        let secs: Vec<&str> = reply.split(" | ").collect();
        if secs.len() != 6 {
            panic!("driver reply malformed: {reply}");
        }
        match secs[4].trim() {
            "ftxt=0" => out.fail(
                Kind::ImplVsModel,
                stream_m,
                format!("formatted text differs from the model's formatText (comment-free source){attr}"),
                format!("format(s) = {fmt_text:?}"),
            ),
            "ftxt=1" => out.tag("model_format_text:identical"),
            _ => {}
        }
        // token streams and lexer error classes
        match caught(|| real_lex(text)) {
            Err(p) => out.fail(Kind::ImplPanic, stream_t, format!("panic {}{attr}", panic_class(&p)), format!("lexer: {p}")),
            Ok((toks, first_err, closers)) => {
                // the pre-pass: model list (up to the model's first error) is a prefix of the real one
                let bm: Vec<i64> = parse_i64s(secs[5].strip_prefix("B=").unwrap_or(""));
                let agree = if secs[3].starts_with("L=ok") { bm == closers } else { closers.len() >= bm.len() && closers[..bm.len()] == bm[..] };
                if !agree {
                    out.fail(
                        Kind::ImplVsModel,
                        "lex_model",
                        format!("bracket pre-pass: matching closers differ from the model's closeScan{attr}"),
                        format!("model: {}\nreal:  {}", join(&bm), join(&closers)),
                    );
                } else if !bm.is_empty() {
                    out.tag("model_prepass:identical");
                }
                let l = secs[3].strip_prefix("L=").unwrap_or("");
                if let Some(ints) = l.strip_prefix("ok") {
                    out.tag("model_lex:ok");
                    if let Some(e) = &first_err {
                        out.fail(
                            Kind::ImplVsModel,
                            "lex_model",
                            format!("model lexes the text, the real lexer reports {}{attr}", e.split(' ').next().unwrap_or("")),
                            format!("model tokens: {ints}"),
                        );
                    } else if join(&toks) != ints.trim() {
                        out.fail(
                            Kind::ImplVsModel,
                            "lex_model",
                            format!("token streams differ{attr}"),
                            format!("model: {}\nreal:  {}", ints.trim(), join(&toks)),
                        );
                    }
                } else if let Some(cls) = l.strip_prefix("err ") {
                    let mcls = cls.trim().split(' ').next().unwrap_or("").to_string();
                    out.tag(format!("model_lex:err:{mcls}"));
                    let rcls = first_err.as_deref().map(|e| e.split(' ').next().unwrap_or("").to_string());
                    if rcls.as_deref() != Some(mcls.as_str()) {
                        out.fail(
                            Kind::ImplVsModel,
                            "lex_model",
                            format!("first lexer error: model {mcls}, real {}{attr}", rcls.unwrap_or("none".into())),
                            format!("real tokens: {}", join(&toks)),
                        );
                    } else if first_err.as_deref() != Some(cls.trim()) {
                        out.fail(
                            Kind::ImplVsModel,
                            "lex_model",
                            format!("label span of {mcls}: model and real lexer differ{attr}"),
                            format!("model: {}\nreal:  {}", cls.trim(), first_err.clone().unwrap_or_default()),
                        );
                    } else {
                        out.tag("model_lex:span-identical");
                    }
                } else {
                    out.fail(Kind::ModelVsSpec, "lex_model", "model lexer ran out of fuel", l.to_string());
                }
            }
        }
        let big_ratio_str = has_big_ratio_string(text);
        let check = |name: &str, m: &str, real: Option<Result<Vec<i64>, Vec<String>>>, out: &mut CaseOutcome| {
            let m = m.split_once('=').map(|x| x.1).unwrap_or("");
            let Some(real) = real else { return };
            if m == "uns" {
                out.tag(format!("model_{name}:unsupported"));
            } else if m == "err" {
                out.tag(format!("model_{name}:err"));
                if let Ok(l) = real {
                    out.fail(
                        Kind::ImplVsModel,
                        stream_m,
                        format!("{name}: model says error, the real parser accepts{attr}"),
                        format!("real: {}", join(&l)),
                    );
                }
            } else if let Some(ints) = m.strip_prefix("ok ") {
                out.tag(format!("model_{name}:ok"));
                match real {
                    Ok(l) => {
                        if join(&l) != ints.trim() {
                            out.fail(
                                Kind::ImplVsModel,
                                stream_m,
                                format!("{name}: parsed lists differ{attr}"),
                                format!("model: {ints}\nreal:  {}", join(&l)),
                            );
                        }
                    }
                    Err(e) => out.fail(
                        Kind::ImplVsModel,
                        stream_m,
                        format!(
                            "{name}: model accepts, the real parser reports {}{attr}{}",
                            e.first().cloned().unwrap_or_default(),
                            if big_ratio_str && e.iter().all(|x| x == "IncorrectType") { " [glue ratio >= 16384 in a string, C18-e]" } else { "" }
                        ),
                        format!("model: {ints}\nreal errors: {e:?}"),
                    ),
                }
            } else if m == "ok" {
                // empty encoding cannot happen (a list always has its length)
                panic!("driver reply malformed: {reply}");
            }
        };
        let hr = h.ok().map(|r| {
            r.map(|l| {
                let mut o = vec![];
                r_h_list(&l, &mut o);
                o
            })
        });
        let vr = v.ok().map(|r| {
            r.map(|l| {
                let mut o = vec![];
                r_v_list(&l, &mut o);
                o
            })
        });
        check("H", secs[0], hr, out);
        check("V", secs[1], vr, out);
        match secs[2].trim() {
            "fmt=0" => out.fail(
                Kind::ImplVsModel,
                stream_m,
                format!("formatted text's tokens differ from the model's formatToks{attr}"),
                format!("format(s) = {fmt_text:?}"),
            ),
            "fmt=1" => out.tag("model_format:agrees"),
            _ => {}
        }
    }

    fn run_big(&mut self, kind: &str, n: usize, out: &mut CaseOutcome) {
        out.tag(format!("big:{kind}"));
        out.nontrivial = true;
        // /proc/self/exe still works when the binary has been rebuilt (unlinked) meanwhile
        let exe = if std::path::Path::new("/proc/self/exe").exists() {
            std::path::PathBuf::from("/proc/self/exe")
        } else {
            std::env::current_exe().expect("current exe")
        };
        let mut cmd = std::process::Command::new(exe);
        cmd.env("C18_BIG", format!("{kind} {n}")).stdout(std::process::Stdio::null()).stderr(std::process::Stdio::null());
        // the usual 8 MiB main-thread stack, whatever `ulimit -s` says here
        vh::pin_child_stack(&mut cmd);
        let st = cmd.status().expect("spawn child");
        if !st.success() {
            out.fail(
                Kind::ImplPanic,
                "totality",
                format!("process aborts on a long input ({kind})"),
                format!("child parsing {n} repetitions of the '{kind}' pattern ended with {st:?} (stack overflow)"),
            );
        }
    }
}

fn big_text(kind: &str, n: usize) -> String {
    match kind {
        "inv" => "$".repeat(n),
        "close" => ")".repeat(n),
        "kw" => "a ".repeat(n),
        "cm" => "#\n".repeat(n),
        "str" => format!("chars(\"{}\")", "\\n".repeat(n)),
        "args" => format!("chars({})", "1,".repeat(n)),
        "calls" => "kern(1pt)".repeat(n),
        k => panic!("unknown big kind {k}"),
    }
}

impl Property for C18 {
    fn id(&self) -> &'static str {
        "C18"
    }
    fn rule(&self) -> String {
        "rt: boundary lists per node kind and value class, exhaustive small scope (every node kind x both \
         printers x every escape class x every glue-order pair), then random nested lists (depth<=3; 1 case in 8 \
         may hold values the language cannot express); non-trivial = non-empty and expressible (Lean exprList). \
         src: repository corpus (all_errors.box, raw strings of the boxworks crates, sampled golden chunks), \
         grammar-generated sources with free layout/comments/keyword order/units and a small error rate, \
         mutations of those, token soup; non-trivial = parses to a non-empty list or to errors. big: long \
         repetitive inputs in a child process."
            .into()
    }

    fn builtin_corpus(&self) -> Vec<String> {
        let mut v: Vec<String> = vec![];
        let src = |s: &str| format!("src {}", hex(s));
        for s in [
            "", "kern(16383.99998pt)", "kern(16384pt)", "kern(-32768.0pt)", "penalty(2147483647)", "penalty(2147483648)",
            "penalty(-2147483648)", "penalty(99999999999)", "glue(1pt, 32767.5fil, 40000fill)", "glue(0pt, 32767.99999fil)",
            "chars(\"\\u{fffffffff}\")", "chars(\"\\u\u{e4}\")", "chars(\"\\ux\")", "chars(\"\\u{41}\\u{}\\u{zz}\\u{110000}x\")",
            "\"abc", "chars(\"abc", "hbox(glue_ratio=\"1.-\")", "hbox(glue_ratio=\"-5.5\")", "hbox(glue_ratio=\"16384.0\")",
            "hbox(glue_ratio=\"\u{e4}\")", "hbox(glue_ratio=\"\")", "hbox(glue_ratio=\"1\")", "hbox(glue_ratio=\"+1.5\")",
            "kern(1sp)", "kern(1073741823sp)", "kern(1073741824sp)", "kern(1.5in)", "kern(-)", "-", "kern(5.)", "kern(.5pt)",
            "1pt", "kern(1truept)", "kern(7200bp)", "kern(1PT)", "chars(\"a\" \"b\")", "chars(\"a\" 3)", "mark()",
            "mark(dummy=3)", "math(\"x\")", "rule(\"running\", -32768.0pt)", "insertion(300)", "lig(\"ab\")", "lig(\"\")",
            "kern(1pt)#c", "#c\n#d\nkern(1pt)", "kern(1pt\u{a0})", "kern(1e5pt)", "kern(1_pt)", "k_(", "_k()",
            "kern(226.0in)", "kern(227in)", "kern(1.99999999999999999999pt)", "kern(0.000007629394531pt)",
            "chars(font=3, \"Hello\")", "chars(\"Hello\", 3, \"Mundo\")", "chars(content=\"a\", content=\"b\")",
            "hbox(content=[chars(\"a\")] width=1pt)", "hbox(content=[))", "chars(]", "disc([chars(\"-\")],[kern(1pt)],2)",
            "disc(pre_break=[glue()])", "vbox(content=[chars(\"a\")])", "adjust([kern(1pt)])", "glue(1pt 2pt 3pt)",
            "glue(1pt,,2pt)", "glue(,)", "chars(\"\\\"\\'\\\\\\n\\t\\0\\r\")", "# only a comment", "kern ( 1pt ) ",
            "kern(1pt,)", "kern(width=1pt,)", "kern(-0pt)", "kern(-0.0pt)", "penalty(-0)", "penalty(007)",
        ] {
            v.push(src(s));
        }
        // boundary lists
        let rt = |m: &str, style: u32, l: &[N]| {
            let mut o = vec![];
            enc_case_list(l, &mut o);
            format!("rt {m} {style} {}", join(&o))
        };
        let dims = [0, 1, -1, 65535, 65536, MAXD, -MAXD, MAXD + 1, -MAXD - 1, i32::MAX, i32::MIN + 1, i32::MIN];
        for d in dims {
            v.push(rt("H", 1, &[N::Kern { kind: 0, w: d }]));
            v.push(rt("V", 1, &[N::Rule(d, i32::MIN, 0)]));
            v.push(rt("H", 0, &[N::Glue { kind: 0, w: 0, st: d, sto: 1, sh: d, sho: 0 }]));
        }
        for p in [0, 1, -1, 10000, -10000, i32::MAX, -i32::MAX, i32::MIN] {
            v.push(rt("V", 1, &[N::Penalty(p)]));
        }
        for f in [0u32, 1, 255, 256, (1 << 31) - 1, 1 << 31, (1 << 31) + 1, u32::MAX] {
            v.push(rt("H", 0, &[N::Char(0x61, f)]));
            v.push(rt("H", 1, &[N::Char(0x61, f), N::Char(0x62, f)]));
            v.push(rt("H", 1, &[N::HBox { h: 0, w: 0, d: 0, s: 0, order: 0, num: 0, den: 1, list: vec![N::Char(0x61, f)] }]));
            v.push(rt("H", 1, &[N::Lig { c: 0x66, font: f, l: false, r: true, orig: vec![0x66, 0x69] }]));
            v.push(rt("H", 1, &[N::Disc { rc: f, pre: vec![N::Char(0x2d, f)], post: vec![] }]));
            v.push(rt("V", 1, &[N::Ins { bx: 255, h: 0, md: 0, w: 0, st: 0, sto: 0, sh: 0, sho: 0, fp: f, list: vec![] }]));
        }
        for (num, den) in [(0, 1), (1, 1), (-3, 7), (3, 0), (0, 0), (16383, 1), (16384, 1), (20000, 1), (1, 3), (i32::MIN, 1), (43017, 65536)] {
            v.push(rt("H", 1, &[N::HBox { h: 1, w: 2, d: 3, s: 4, order: 1, num, den, list: vec![] }]));
        }
        v.push(rt("H", 1, &[N::VBox { h: 1, w: 2, d: 3, s: 4, num: 1, den: 2, order: 2, list: vec![] }]));
        v.push(rt("H", 1, &[N::Mark(0)]));
        v.push(rt("H", 1, &[N::Mark(2)]));
        v.push(rt("H", 1, &[N::Kern { kind: 1, w: 5 }]));
        v.push(rt("H", 1, &[N::Glue { kind: 3, w: 5, st: 0, sto: 0, sh: 0, sho: 0 }]));
        v.push(rt("H", 1, &[]));
        v.push(rt("V", 0, &[]));
        for n in [1usize, 20000, 200000] {
            for k in ["inv", "close", "kw", "cm", "str", "args", "calls"] {
                if n == 200000 || k == "inv" {
                    v.push(format!("big {k} {n}"));
                }
            }
        }
        v
    }

    fn generate(&mut self, ctx: &Ctx, rng: &mut Rng) -> Vec<String> {
        self.repo = ctx.repo.clone();
        let mut v = vec![];
        let rt = |m: Mode, style: u32, l: &[N]| {
            let mut o = vec![];
            enc_case_list(l, &mut o);
            format!("rt {} {style} {}", if m == Mode::H { "H" } else { "V" }, join(&o))
        };
        // exhaustive small scope: every escape class, alone and in a run, in chars and lig
        for (_, members) in CHAR_CLASSES {
            for c in *members {
                v.push(rt(Mode::H, 1, &[N::Char(*c, 0)]));
                v.push(rt(Mode::H, 0, &[N::Char(0x61, 7), N::Char(*c, 7), N::Char(0x62, 7)]));
                v.push(rt(Mode::H, 1, &[N::Lig { c: *c, font: 1, l: true, r: false, orig: vec![*c, 0x61, *c] }]));
                v.push(rt(Mode::H, 1, &[N::Disc { rc: 1, pre: vec![N::Char(*c, 0), N::Char(*c, 0)], post: vec![N::Char(*c, 1)] }]));
            }
        }
        for sto in 0..4u8 {
            for sho in 0..4u8 {
                v.push(rt(Mode::H, 1, &[N::Glue { kind: 0, w: 655360, st: 98304, sto, sh: -21845, sho }]));
                v.push(rt(
                    Mode::V,
                    1,
                    &[N::Ins { bx: 1, h: 1, md: 2, w: 3, st: i32::MAX, sto, sh: -i32::MAX, sho, fp: 9, list: vec![N::Penalty(1)] }],
                ));
            }
            v.push(rt(Mode::H, 1, &[N::HBox { h: 0, w: 0, d: 0, s: 0, order: sto, num: 1, den: 2, list: vec![] }]));
        }
        for h in [i32::MIN, 0, 65536] {
            for w in [i32::MIN, 1] {
                for d in [i32::MIN, -1] {
                    v.push(rt(Mode::H, 0, &[N::Rule(h, w, d)]));
                }
            }
        }
        // every node kind in every list kind, one level of nesting
        {
            let mut g = Gen { rng, wild: false };
            for _ in 0..3 {
                for m in [Mode::H, Mode::V] {
                    for style in [0, 1] {
                        let l: Vec<N> = (0..13).map(|_| g.node(m, 1)).collect();
                        v.push(rt(m, style, &l));
                    }
                }
            }
        }
        // random lists
        let n_rt = if ctx.thorough { 150000 } else { 6000 };
        for i in 0..n_rt {
            let wild = i % 8 == 7;
            let mut g = Gen { rng, wild };
            let m = if g.rng.chance(2, 3) { Mode::H } else { Mode::V };
            let style = g.rng.below(2) as u32;
            let depth = g.rng.below(4) as u32;
            let l = g.list(m, depth, 6);
            v.push(rt(m, style, &l));
        }
        // sources
        let mut pool: Vec<String> = repo_corpus(&ctx.repo, rng, if ctx.thorough { 150 } else { 6 });
        for s in &pool {
            v.push(format!("src {}", hex(s)));
        }
        let n_src = if ctx.thorough { 200000 } else { 8000 };
        for i in 0..n_src {
            let mut g = SrcGen { rng, err_pct: if i % 3 == 0 { 20 } else { 0 } };
            let mode = if g.rng.chance(3, 4) { 'H' } else { 'V' };
            let s = g.source(mode);
            v.push(format!("src {}", hex(&s)));
            if pool.len() < 400 {
                pool.push(s);
            }
        }
        let n_mut = if ctx.thorough { 200000 } else { 8000 };
        for _ in 0..n_mut {
            let base = rng.pick(&pool).clone();
            if base.len() > 3000 {
                continue;
            }
            v.push(format!("src {}", hex(&mutate(rng, &base))));
        }
        let n_soup = if ctx.thorough { 150000 } else { 6000 };
        for _ in 0..n_soup {
            v.push(format!("src {}", hex(&soup(rng))));
        }
        v
    }

    fn run_case(&mut self, case: &str, drv: &mut Driver) -> CaseOutcome {
        let mut out = CaseOutcome::default();
        let mut it = case.splitn(2, ' ');
        let kind = it.next().unwrap_or("");
        let rest = it.next().unwrap_or("");
        match kind {
            "rt" => {
                let mut w = rest.splitn(3, ' ');
                let mode = if w.next() == Some("V") { Mode::V } else { Mode::H };
                let style: u32 = w.next().unwrap_or("1").parse().expect("style");
                let ints = parse_i64s(w.next().unwrap_or(""));
                let mut c = Cur(&ints);
                let l = dec_case_list(&mut c);
                self.run_rt(mode, style, &l, drv, &mut out);
            }
            "src" => {
                let text = unhex(rest.trim());
                out.tag("src");
                self.run_src(&text, drv, &mut out);
            }
            "big" => {
                let mut w = rest.split(' ');
                let k = w.next().unwrap_or("");
                let n: usize = w.next().unwrap_or("0").parse().expect("n");
                self.run_big(k, n, &mut out);
            }
            other => panic!("bad case kind {other:?}"),
        }
        out
    }

    fn shrink(&self, case: &str) -> Vec<String> {
        let mut it = case.splitn(2, ' ');
        let kind = it.next().unwrap_or("");
        let rest = it.next().unwrap_or("");
        let mut v = vec![];
        match kind {
            "src" => {
                let text: Vec<char> = unhex(rest.trim()).chars().collect();
                let n = text.len();
                let mk = |cs: &[char]| format!("src {}", hex(&cs.iter().collect::<String>()));
                let mut w = n / 2;
                while w >= 1 {
                    let mut i = 0;
                    while i < n {
                        let j = (i + w).min(n);
                        let mut cs = text[..i].to_vec();
                        cs.extend_from_slice(&text[j..]);
                        v.push(mk(&cs));
                        i += w;
                    }
                    if v.len() > 300 {
                        break;
                    }
                    w /= 2;
                }
            }
            "rt" => {
                let mut w = rest.splitn(3, ' ');
                let (m, style) = (w.next().unwrap_or("H").to_string(), w.next().unwrap_or("1").to_string());
                let ints = parse_i64s(w.next().unwrap_or(""));
                let mut c = Cur(&ints);
                let l = dec_case_list(&mut c);
                let mk = |l: &[N]| {
                    let mut o = vec![];
                    enc_case_list(l, &mut o);
                    format!("rt {m} {style} {}", join(&o))
                };
                // halves, single elements, then emptied / hoisted children
                if l.len() > 1 {
                    v.push(mk(&l[..l.len() / 2]));
                    v.push(mk(&l[l.len() / 2..]));
                }
                for i in 0..l.len() {
                    let mut x = l.clone();
                    x.remove(i);
                    v.push(mk(&x));
                }
                for i in 0..l.len() {
                    let nch = l[i].children().len();
                    for k in 0..nch {
                        if l[i].children()[k].is_empty() {
                            continue;
                        }
                        let mut x = l.clone();
                        let child = x[i].children_mut().remove(k);
                        let len = child.len();
                        if len > 1 {
                            let mut y = l.clone();
                            y[i].children_mut()[k].truncate(len / 2);
                            v.push(mk(&y));
                            let mut y = l.clone();
                            y[i].children_mut()[k].drain(..len / 2);
                            v.push(mk(&y));
                        }
                        for j in 0..len {
                            let mut y = l.clone();
                            y[i].children_mut()[k].remove(j);
                            v.push(mk(&y));
                        }
                        let _ = child;
                    }
                }
            }
            _ => {}
        }
        v
    }
}

fn main() {
    if let Ok(spec) = std::env::var("C18_BIG") {
        // child mode: parse a long input; a stack overflow aborts this process
        let mut w = spec.split(' ');
        let k = w.next().unwrap().to_string();
        let n: usize = w.next().unwrap().parse().unwrap();
        let s = big_text(&k, n);
        let _ = bwl::parse_horizontal_list(&s).map(|l| l.len());
        let _ = bwl::format(&s).map(|l| l.len());
        std::process::exit(0);
    }
    vh::run(C18 { repo: "/repo".into() });
}
