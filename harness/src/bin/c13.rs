//! C13 — hyphenation positions are exactly Liang's; exceptions always win; case-insensitive.
//!
//! Case strings (one ASCII line; `^HHHH` inside an item = the char with that hex code point,
//! lists are comma-separated, `_` = empty list):
//!   `h <lc> <patterns> <exceptions> <words>`   a fresh `Hyphenator`, `load_patterns` of the
//!        patterns joined by whitespace, `insert_exceptions` of the exceptions one per line,
//!        then every word through `calculate_indices`, `calculate_explanation` (aggregate
//!        scores) and `hypthenate`.
//!   `plain <lc> <words>`   the same with `Hyphenator::plain_tex_en_us()` (the model gets the
//!        two text files of the crate, read from the repository under test).
//! `<lc>`: `a` = `hyphenate::AsciiLowerCaser`, `t` = a table-driven `LowerCaser` (`TableLc`).
//!
//! I = the real crate; M = `C13.aggregateScores`/`calculateIndices`; S = `C13.specIndices`
//! (Liang's definition + exceptions verbatim), evaluated by Lean on the real output.

use hyphenate::{AsciiLowerCaser, Hyphenator, LowerCaser};
use vh::*;

struct TableLc;
impl LowerCaser for TableLc {
    fn to_lower_case(&self, c: char) -> Option<char> {
        match c {
            '!' => Some('a'),
            '?' => Some('b'),
            '+' => Some('c'),
            'É' | 'é' => Some('é'),
            c if c.is_ascii_alphabetic() => Some(c.to_ascii_lowercase()),
            _ => None,
        }
    }
}

fn unesc(s: &str) -> String {
    let cs: Vec<char> = s.chars().collect();
    let mut o = String::new();
    let mut i = 0;
    while i < cs.len() {
        if cs[i] == '^' && i + 4 < cs.len() && cs[i + 1..i + 5].iter().all(|c| c.is_ascii_hexdigit()) {
            let h: String = cs[i + 1..i + 5].iter().collect();
            if let Some(c) = char::from_u32(u32::from_str_radix(&h, 16).unwrap()) {
                o.push(c);
                i += 5;
                continue;
            }
        }
        o.push(cs[i]);
        i += 1;
    }
    o
}

fn esc(s: &str) -> String {
    let mut o = String::new();
    for c in s.chars() {
        if c.is_ascii_graphic() && c != ',' && c != '^' && c != '_' && c != '~' {
            o.push(c);
        } else {
            o.push_str(&format!("^{:04X}", c as u32));
        }
    }
    o
}

fn items(s: &str) -> Vec<String> {
    if s == "_" {
        vec![]
    } else {
        s.split(',').map(|x| if x == "~" { String::new() } else { unesc(x) }).collect()
    }
}
fn unitems(v: &[String]) -> String {
    if v.is_empty() {
        "_".into()
    } else {
        v.iter().map(|s| if s.is_empty() { "~".to_string() } else { esc(s) }).collect::<Vec<_>>().join(",")
    }
}
fn dots<T: std::fmt::Display>(v: &[T]) -> String {
    if v.is_empty() {
        "_".into()
    } else {
        v.iter().map(|x| x.to_string()).collect::<Vec<_>>().join(".")
    }
}

struct Parsed {
    plain: bool,
    lc: String,
    pats: Vec<String>,
    excs: Vec<String>,
    words: Vec<String>,
}

fn parse_case(case: &str) -> Parsed {
    let f: Vec<&str> = case.split(' ').collect();
    match f.as_slice() {
        ["h", lc, p, e, w] => Parsed { plain: false, lc: lc.to_string(), pats: items(p), excs: items(e), words: items(w) },
        ["plain", lc, w] => Parsed { plain: true, lc: lc.to_string(), pats: vec![], excs: vec![], words: items(w) },
        _ => panic!("bad case {case}"),
    }
}
fn show_case(p: &Parsed) -> String {
    if p.plain {
        format!("plain {} {}", p.lc, unitems(&p.words))
    } else {
        format!("h {} {} {} {}", p.lc, unitems(&p.pats), unitems(&p.excs), unitems(&p.words))
    }
}

struct WordRun {
    indices: Result<Vec<usize>, String>,
    scores: Result<Vec<u8>, String>,
    matched: usize,
    hyphenated: Result<String, String>,
}

fn run_word<L: LowerCaser>(h: &Hyphenator, lc: &L, w: &str) -> WordRun {
    let indices = caught(|| h.calculate_indices(lc, w).collect::<Vec<usize>>());
    let ex = caught(|| {
        let e = h.calculate_explanation(lc, w);
        (e.aggregate_scores, e.patterns.len())
    });
    let hyphenated = caught(|| {
        let mut s = String::new();
        h.hypthenate(lc, w, &mut s);
        s
    });
    let (scores, matched) = match ex {
        Ok((s, n)) => (Ok(s), n),
        Err(e) => (Err(e), 0),
    };
    WordRun { indices, scores, matched, hyphenated }
}

/// Compare one query three ways. `m` = the driver's per-word record.
#[allow(clippy::too_many_arguments)]
fn check_word(out: &mut CaseOutcome, w: &str, run: &WordRun, m: &str, in_quantifier: bool, hi_digit: bool, desc: &str, pfx: &str, b_flag: bool) {
        let f: Vec<&str> = m.split(':').collect();
        assert!(f.len() >= 5, "per-word reply malformed: {m}");
        let (m_scores, m_idx, s_idx, verdict, is_exc) = (f[0], f[1], f[2], f[3], f[4] == "x");
        if run.matched > 0 {
            out.nontrivial = true;
        }
        out.tag(match run.matched {
            0 => "matched:0",
            1 => "matched:1",
            2..=4 => "matched:2-4",
            _ => "matched:5+",
        });
        let n = w.chars().count();
        out.tag(match n {
            0..=1 => "word:len<=1",
            2..=5 => "word:len2-5",
            6..=16 => "word:len6-16",
            17..=32 => "word:len17-32",
            _ => "word:len33+",
        });
        if w.chars().any(|c| c.is_uppercase()) && w.chars().any(|c| c.is_lowercase()) {
            out.tag("word:mixed-case");
        } else if w.chars().any(|c| c.is_uppercase()) {
            out.tag("word:upper-case");
        }
        if !w.is_ascii() {
            out.tag("word:multi-byte");
        }
        if verdict == "-" {
            out.tag("word:non-letter(outside-quantifier)");
        }
        if is_exc {
            out.tag(if hi_digit { "word:listed-exception+pattern-digit-7..9" } else { "word:listed-exception" });
        }
        let sig_exc = if b_flag { "C13-b: a pattern .w. loaded after the exception for w replaces it" } else { "listed exception not returned as listed" };
        let ctx = |what: &str| format!("{what}
word: {w}
{desc}");
        // panics
        let idx = match &run.indices {
            Ok(v) => v,
            Err(e) => {
                out.fail(Kind::ImplPanic, &format!("{pfx}indices"), format!("panic {}", strip_msg(e)), ctx(&format!("calculate_indices panicked: {e}")));
                if m_idx != "P" {
                    out.fail(Kind::ImplVsModel, &format!("{pfx}indices"), "impl panics, model does not", ctx(&format!("model indices: {m_idx}")));
                }
                return;
            }
        };
        if m_idx == "P" {
            out.fail(Kind::ImplVsModel, &format!("{pfx}indices"), "model panics, impl does not", ctx(&format!("impl indices: {}", dots(idx))));
            return;
        }
        if !idx.is_empty() {
            out.tag("result:some-hyphen");
        } else {
            out.tag("result:no-hyphen");
        }
        // I vs M: indices and the full aggregate score vector
        let i_idx = dots(idx);
        if i_idx != m_idx {
            let sig = if is_exc { sig_exc.to_string() } else { "indices differ".to_string() };
            out.fail(Kind::ImplVsModel, &format!("{pfx}indices"), sig, ctx(&format!("impl indices: {i_idx}\nmodel indices: {m_idx}\nmodel scores: {m_scores}")));
        }
        match &run.scores {
            Ok(s) => {
                if let Some(mx) = s.iter().max() {
                    out.tag(format!("score-max:{}", mx));
                }
                if dots(s) != m_scores {
                    out.fail(Kind::ImplVsModel, &format!("{pfx}scores"), "aggregate scores differ", ctx(&format!("impl scores: {}\nmodel scores: {m_scores}", dots(s))));
                }
                let odd: Vec<usize> = s.iter().enumerate().filter(|(_, x)| *x % 2 != 0).map(|(i, _)| i).collect();
                if &odd != idx {
                    out.fail(Kind::ImplVsModel, &format!("{pfx}scores"), "calculate_explanation and calculate_indices disagree", ctx(&format!("scores: {}\nindices: {i_idx}", dots(s))));
                }
            }
            Err(e) => out.fail(Kind::ImplPanic, &format!("{pfx}scores"), format!("panic {}", strip_msg(e)), ctx(&format!("calculate_explanation panicked: {e}"))),
        }
        // glue: hypthenate inserts `-` exactly at the indices
        match &run.hyphenated {
            Ok(hs) => {
                let mut want = String::new();
                for (i, c) in w.chars().enumerate() {
                    if idx.contains(&i) {
                        want.push('-');
                    }
                    want.push(c);
                }
                if *hs != want {
                    out.fail(Kind::ImplVsModel, &format!("{pfx}hypthenate"), "hypthenate string disagrees with calculate_indices", ctx(&format!("hypthenate: {hs}\nfrom indices: {want}")));
                }
            }
            Err(e) => out.fail(Kind::ImplPanic, &format!("{pfx}hypthenate"), format!("panic {}", strip_msg(e)), ctx(&format!("hypthenate panicked: {e}"))),
        }
        // I vs S and M vs S (inside the quantifier)
        if in_quantifier && verdict != "-" {
            // the two other public views of the same positions: the string `hypthenate` builds
            // (a word of letters contains no `-` of its own) and the odd entries of
            // `calculate_explanation().aggregate_scores`
            if let Ok(hs) = &run.hyphenated {
                let mut pos = vec![];
                let mut i = 0usize;
                for c in hs.chars() {
                    if c == '-' {
                        pos.push(i);
                    } else {
                        i += 1;
                    }
                }
                let letters: String = hs.chars().filter(|c| *c != '-').collect();
                if dots(&pos) != s_idx || letters != *w {
                    out.fail(Kind::ImplVsSpec, &format!("{pfx}hypthenate"), "hypthenate: hyphens not exactly at the specified positions", ctx(&format!("hypthenate: {hs}\nspec indices: {s_idx}")));
                }
            }
            if let Ok(sc) = &run.scores {
                let odd: Vec<usize> = sc.iter().enumerate().filter(|(_, x)| *x % 2 != 0).map(|(i, _)| i).collect();
                if dots(&odd) != s_idx {
                    out.fail(Kind::ImplVsSpec, &format!("{pfx}explanation"), "calculate_explanation: odd aggregate scores not exactly at the specified positions", ctx(&format!("scores: {}\nspec indices: {s_idx}", dots(sc))));
                }
            }
            if verdict != "1" {
                let sig = if is_exc { sig_exc.to_string() } else { "positions differ from Liang's definition".to_string() };
                out.fail(Kind::ImplVsSpec, &format!("{pfx}spec"), sig, ctx(&format!("impl indices: {i_idx}\nspec indices: {s_idx}")));
            }
            if m_idx != s_idx {
                out.fail(Kind::ModelVsSpec, &format!("{pfx}spec"), "model indices differ from spec", ctx(&format!("model indices: {m_idx}\nspec indices: {s_idx}")));
            }
        }
}

struct C13 {
    repo: String,
    plain_files: Option<(Vec<String>, Vec<String>)>,
    verif: String,
    plain_data_diff: Vec<String>,
    plain_text: Option<(String, String)>,
    text_words: Vec<String>,
}

const TEST_WORDS: &[&str] = &[
    "record", "hyphenation", "concatenation", "supercalifragilisticexpialidocious", "bachelor", "echelon",
    "toothaches", "campfire", "biorhythm", "algorithm", "pneumonoultramicroscopicsilicovolcanoconiosis", "project",
    "present", "table", "Table", "ach", "Aaronic", "Abelia", "William", "chaffless", "DifFicult", "cove", "antce",
    "associate", "Associates", "DECLINATION", "obligatory", "philanthropic", "presents", "projects", "reciprocity",
    "recognizance", "Reformation", "retribution", "TABLE", "tables", "a", "I", "an", "the", "x-ray", "don't", "naïve",
];

impl C13 {
    /// Plain TeX's patterns and exceptions for the *model*: the pinned copy of the (frozen)
    /// `hyphen.tex` data under `harness/corpus/C13/`, not the files of the tree under test —
    /// the real side uses `Hyphenator::plain_tex_en_us()`, i.e. whatever the crate ships.
    fn plain(&mut self) -> &(Vec<String>, Vec<String>) {
        if self.plain_files.is_none() {
            let dir = format!("{}/harness/corpus/C13", self.verif);
            let p = std::fs::read_to_string(format!("{dir}/plain_tex_patterns.txt")).expect("pinned plain_tex_patterns.txt");
            let e = std::fs::read_to_string(format!("{dir}/plain_tex_exceptions.txt")).expect("pinned plain_tex_exceptions.txt");
            let ps = p.split_whitespace().map(|s| s.to_string()).collect();
            let es = e.lines().map(|l| l.trim()).filter(|l| !l.is_empty()).map(|s| s.to_string()).collect();
            self.plain_files = Some((ps, es));
            self.plain_text = Some((p.clone(), e.clone()));
            // the shipped data files must be the pinned ones (reported once, with the first plain case)
            let rdir = format!("{}/crates/hyphenate/src", self.repo);
            for f in ["plain_tex_patterns.txt", "plain_tex_exceptions.txt"] {
                let a = std::fs::read_to_string(format!("{rdir}/{f}")).unwrap_or_default();
                let b = std::fs::read_to_string(format!("{dir}/{f}")).unwrap_or_default();
                if a != b {
                    let (mut la, mut lb) = (a.lines(), b.lines());
                    let mut n = 1;
                    let d = loop {
                        match (la.next(), lb.next()) {
                            (Some(x), Some(y)) if x == y => n += 1,
                            (x, y) => break format!("line {n}: crate has {:?}, hyphen.tex has {:?}", x, y),
                        }
                    };
                    self.plain_data_diff.push(format!("{f} differs from the pinned hyphen.tex data ({d})"));
                }
            }
        }
        self.plain_files.as_ref().unwrap()
    }

    fn load_text_words(&mut self) {
        let mut files = vec![format!("{}/README.md", self.repo), format!("{}/CLAUDE.md", self.repo)];
        let mut stack = vec![format!("{}/docs/src", self.repo)];
        while let Some(d) = stack.pop() {
            let Ok(rd) = std::fs::read_dir(&d) else { continue };
            let mut es: Vec<_> = rd.filter_map(|e| e.ok()).map(|e| e.path()).collect();
            es.sort();
            for p in es {
                if p.is_dir() {
                    stack.push(p.to_string_lossy().into_owned());
                } else if p.extension().and_then(|e| e.to_str()) == Some("md") {
                    files.push(p.to_string_lossy().into_owned());
                }
            }
        }
        files.sort();
        let mut seen = std::collections::BTreeSet::new();
        for f in files {
            let Ok(s) = std::fs::read_to_string(&f) else { continue };
            for w in s.split(|c: char| !(c.is_ascii_alphabetic() || c == '\'' || c == '-')) {
                if w.len() >= 2 && w.len() <= 40 && w.chars().any(|c| c.is_ascii_alphabetic()) {
                    seen.insert(w.to_string());
                }
            }
        }
        self.text_words = seen.into_iter().collect();
    }

    // ---- generators ----------------------------------------------------------------------

    fn gen_letters(r: &mut Rng, n: usize, ab: &[char]) -> String {
        (0..n).map(|_| *r.pick(ab)).collect()
    }

    fn gen_letters_r(r: &mut Rng, lo: usize, span: u64, ab: &[char]) -> String {
        let n = lo + r.below(span) as usize;
        Self::gen_letters(r, n, ab)
    }

    /// A pattern over `ab`: letters with digits in some slots, optional anchors.
    fn gen_pattern(r: &mut Rng, ab: &[char], malformed: bool) -> String {
        let n = match r.below(20) {
            0 => 16 + r.below(3) as usize,
            1 => 17 + r.below(24) as usize,
            2 => 32 + r.below(3) as usize,
            3..=9 => 1 + r.below(2) as usize,
            _ => 1 + r.below(5) as usize,
        };
        let letters = Self::gen_letters(r, n, ab);
        let mut s = String::new();
        if r.chance(1, 5) {
            s.push('.');
        }
        // digit density: long patterns mostly sparse, so that zero runs ≥ 16 occur
        let dens = if n >= 16 { *r.pick(&[0u64, 1, 1, 2, 8]) } else { *r.pick(&[4u64, 8, 12, 16]) };
        let digit = |r: &mut Rng| -> char {
            let d = match r.below(10) {
                0..=4 => r.below(6),
                5 | 6 => 6 + r.below(4),
                _ => r.below(10),
            };
            (b'0' + d as u8) as char
        };
        for (i, c) in letters.chars().enumerate() {
            if r.below(16) < dens || (i == 0 && n >= 16 && r.chance(1, 4)) {
                s.push(digit(r));
                if malformed && r.chance(1, 3) {
                    s.push(digit(r));
                }
            }
            if malformed && r.chance(1, 8) {
                s.push('.');
            }
            s.push(if malformed && r.chance(1, 10) { c.to_ascii_uppercase() } else { c });
        }
        if r.below(16) < dens || r.chance(1, 6) {
            s.push(digit(r));
        }
        if r.chance(1, 5) {
            s.push('.');
        }
        if malformed && r.chance(1, 12) {
            s = digit(r).to_string();
        }
        s
    }

    fn mix_case(r: &mut Rng, w: &str, table: bool) -> String {
        let mode = r.below(4);
        w.chars()
            .map(|c| {
                let up = match mode {
                    0 => false,
                    1 => true,
                    _ => r.chance(1, 2),
                };
                if table && r.chance(1, 6) {
                    match c {
                        'a' => return '!',
                        'b' => return '?',
                        'c' => return '+',
                        _ => {}
                    }
                }
                if up {
                    if c == 'é' {
                        'É'
                    } else {
                        c.to_ascii_uppercase()
                    }
                } else {
                    c
                }
            })
            .collect()
    }

    fn hyphenate_randomly(r: &mut Rng, w: &str) -> String {
        let mut s = String::new();
        if r.chance(1, 12) {
            s.push('-');
        }
        for (i, c) in w.chars().enumerate() {
            if i > 0 && r.chance(1, 3) {
                s.push('-');
                if r.chance(1, 12) {
                    s.push('-');
                }
            }
            s.push(c);
        }
        if r.chance(1, 12) {
            s.push('-');
        }
        if r.chance(1, 10) {
            // an entry with a character that is neither a letter of the alphabet nor a hyphen: it
            // is a different word (only `-` is markup), so it must not apply to `w`
            let cs: Vec<char> = s.chars().collect();
            let k = r.below(cs.len() as u64 + 1) as usize;
            let x = *r.pick(&['.', '1', 'A', '\'', '=']);
            s = cs[..k].iter().chain(std::iter::once(&x)).chain(cs[k..].iter()).collect();
        }
        s
    }

    fn gen_random(r: &mut Rng) -> String {
        let table = r.chance(1, 4);
        let ab: Vec<char> = if table && r.chance(1, 2) { vec!['a', 'b', 'é'] } else if r.chance(1, 3) { vec!['a', 'b'] } else { vec!['a', 'b', 'c'] };
        let malformed = r.chance(1, 8);
        let np = match r.below(6) {
            0 => 1,
            1 => 2,
            2 => 3,
            _ => 1 + r.below(12) as usize,
        };
        let mut pats: Vec<String> = (0..np).map(|_| Self::gen_pattern(r, &ab, malformed)).collect();
        // nested / overlapping: extend or cut an existing pattern
        if r.chance(1, 2) && !pats.is_empty() {
            let base: String = r.pick(&pats).clone();
            let letters: String = base.chars().filter(|c| c.is_alphabetic()).collect();
            if !letters.is_empty() {
                let k = 1 + r.below(letters.chars().count() as u64) as usize;
                let sub: String = letters.chars().take(k).collect();
                let d = (b'0' + r.below(10) as u8) as char;
                pats.push(format!("{sub}{d}"));
                let d2 = (b'0' + r.below(10) as u8) as char;
                pats.push(format!("{d2}{}{}", letters, Self::gen_letters(r, 1, &ab)));
            }
        }
        // TeX rejects two patterns with the same letters and anchors ("Duplicate pattern"): mostly
        // keep the first only (the rest stays as I-vs-M coverage of the last-wins overwrite)
        if r.chance(5, 6) {
            let mut seen = std::collections::HashSet::new();
            pats.retain(|p| {
                let key: String = p.chars().enumerate().filter(|(i, c)| !c.is_ascii_digit() && (*c != '.' || *i == 0 || *i + 1 == p.chars().count())).map(|(_, c)| c).collect();
                let key = format!("{}|{}|{}", p.starts_with('.'), key.trim_matches('.'), p.ends_with('.') && p.len() > 1);
                seen.insert(key)
            });
        }
        // words: random, built from pattern letters, long
        let nw = 2 + r.below(6) as usize;
        let mut base_words: Vec<String> = vec![];
        for _ in 0..nw {
            let w = match r.below(5) {
                0 => Self::gen_letters_r(r, 1, 40, &ab),
                1 | 2 => {
                    // a pattern's letters surrounded by a few others
                    let p: String = r.pick(&pats).chars().filter(|c| c.is_alphabetic()).collect::<String>().to_lowercase();
                    let a = Self::gen_letters_r(r, 0, 3, &ab);
                    let b = Self::gen_letters_r(r, 0, 3, &ab);
                    let w: String = format!("{a}{p}{b}");
                    w.chars().take(40).collect()
                }
                _ => Self::gen_letters_r(r, 1, 7, &ab),
            };
            if !w.is_empty() {
                base_words.push(w);
            }
        }
        if base_words.is_empty() {
            base_words.push("ab".into());
        }
        // exceptions: half of the cases, for some of the words (and some others)
        let mut excs: Vec<String> = vec![];
        if r.chance(1, 2) {
            let ne = 1 + r.below(3) as usize;
            for _ in 0..ne {
                let w = if r.chance(3, 4) { r.pick(&base_words).clone() } else { Self::gen_letters_r(r, 1, 5, &ab) };
                excs.push(Self::hyphenate_randomly(r, &w));
            }
        }
        let mut words: Vec<String> = base_words.iter().map(|w| Self::mix_case(r, w, table)).collect();
        if r.chance(1, 40) {
            words.push(String::new());
        }
        if r.chance(1, 8) {
            // a non-letter inside a word (outside the quantifier: I vs M only)
            let w = r.pick(&base_words).clone();
            let k = r.below(w.chars().count() as u64 + 1) as usize;
            let mut s: String = w.chars().take(k).collect();
            s.push(*r.pick(&['-', '1', ' ', 'ß', '.']));
            s.extend(w.chars().skip(k));
            words.push(s);
        }
        show_case(&Parsed { plain: false, lc: if table { "t" } else { "a" }.into(), pats, excs, words })
    }

    fn all_words(ab: &[char], max: usize) -> Vec<String> {
        let mut out = vec![];
        let mut cur = vec![String::new()];
        for _ in 0..max {
            let mut next = vec![];
            for w in &cur {
                for c in ab {
                    next.push(format!("{w}{c}"));
                }
            }
            out.extend(next.iter().cloned());
            cur = next;
        }
        out
    }

    /// The small universe: letters over {a,b} of length 1..2, digits from `ds` in every slot,
    /// the four anchor combinations.
    fn small_universe(ds: &[char]) -> Vec<String> {
        let mut out = vec![];
        for letters in Self::all_words(&['a', 'b'], 2) {
            let l: Vec<char> = letters.chars().collect();
            let slots = l.len() + 1;
            let mut idx = vec![0usize; slots];
            loop {
                let mut s = String::new();
                for i in 0..slots {
                    if ds[idx[i]] != '0' {
                        s.push(ds[idx[i]]);
                    }
                    if i < l.len() {
                        s.push(l[i]);
                    }
                }
                for (a, b) in [("", ""), (".", ""), ("", "."), (".", ".")] {
                    out.push(format!("{a}{s}{b}"));
                }
                let mut k = 0;
                while k < slots {
                    idx[k] += 1;
                    if idx[k] < ds.len() {
                        break;
                    }
                    idx[k] = 0;
                    k += 1;
                }
                if k == slots {
                    break;
                }
            }
        }
        out
    }
}

impl Property for C13 {
    fn id(&self) -> &'static str {
        "C13"
    }
    fn rule(&self) -> String {
        "boundary corpus (C13-a witnesses, zero runs of 15/16/17/31/32/33, patterns of 16/17/40 letters, anchors, duplicates, malformed patterns, non-letters, multi-byte letters); \
         exhaustive small scope: every single pattern and a strided set of pairs and triples from the universe {letters over {a,b} of length 1..2} x {digits 0,1,2 in every slot} x {4 anchorings} against all 30 words over {a,b} of length <= 4, \
         every exception over <= 3 letters x every one-digit pattern 0..9 over the same letters; \
         random: 1..14 patterns over {a,b,c} (or {a,b,e-acute}) with digits 0..9, lengths 1..40, anchored/nested/overlapping, exception lists, 2..8 words of length 1..40 in mixed case, some malformed patterns and non-letter words (I vs M only); \
         plain: Hyphenator::plain_tex_en_us() on the crate's test words and on words from the repository's markdown files. \
large sets: the family of all letter strings of length 2..4 over 17..26 letters with a digit in every slot (676 .. 83 521 patterns, op tables of 2.7 KB .. 501 KB incl. 65 535 / 65 540 / 66 000 / 87 880 bytes, up to 88 740 trie vertices) loaded in one call, late extras and exceptions, words on early and late patterns: real code vs specification; \
         histories: one hyphenator through a random sequence of load_patterns / insert_exceptions / insert_exception / query ops over a small alphabet (words of 1..5 letters so that queries, exceptions and `.w.` patterns hit the same words), every earlier word asked again (any letter case) after each mutation, every query compared with model and spec of the state at that point; the same on top of plain_tex_en_us(). \
         One case = one hyphenator and several words. Non-trivial = at least one pattern or exception matched some word of the case (matched patterns > 0); distinct = distinct case string."
            .into()
    }
    fn builtin_corpus(&self) -> Vec<String> {
        let mut v: Vec<String> = vec![
            // C13-a
            "h a a9b ab ab,AB".into(),
            "h a a8b a-b ab,aB".into(),
            "h a a7b,b9a ab,ba-b ab,bab,abab".into(),
            "h a a6b,a5b. ab,b-a ab,ba".into(),
            // exceptions: leading / trailing / double hyphen, duplicate entries (last wins), collision with `.ab.`
            "h a a1b,.a3b. -ab-,b--a,ba,b-a ab,ba,aba".into(),
            "h a .a1b. _ ab,abb,aab,AB".into(),
            // anchors and never-before-first-letter / never-after-the-word
            "h a 1a,a1,.1a,a1.,.a1.,1.,.1,. _ a,aa,aaa".into(),
            // duplicates (last wins) and digits-only patterns
            "h a a1b,a2b,5,12 _ ab,aab".into(),
            // malformed: adjacent digits (the zero run before them is lost), interior dot, upper case
            "h a ab12,a.b3,A1b,a12b _ ab,aab,abb".into(),
            // non-letters and multi-byte
            "h a a1b1c _ ab-c,abc,a1bc,abc.,^00E9abc".into(),
            "h t ^00E91a1b,b1^00E9. a-^00E9b ^00C9ab,a^00E9b,!^00C9?,b^00C9,ab^00DF".into(),
            "h t a1b1c _ !?+,Ab+,+!?".into(),
            // the empty word, the empty exception (`~` = empty item), an exception that is only a hyphen
            "h a 1a,.a.,.1.,. ~,-,a- ~,a,aa".into(),
            "h a a1 _ ~".into(),
            // large pattern sets: op tables around and beyond 2^16 bytes (5 bytes per 3-letter
            // pattern: 13 107 patterns = 65 535 bytes), words on early and late patterns, late extras
            // and exceptions; 88 740 trie vertices (4 letters over 17)
            Self::big_case("a", 3, 26, 17576, 3, &[0, 57, 4000, 13000, 13106, 13107, 13108, 13200, 15000, 17000, 17575]),
            Self::big_case("a", 3, 26, 13107, 7, &[1, 13000, 13105, 13106]),
            Self::big_case("a", 3, 26, 13108, 7, &[1, 13000, 13106, 13107]),
            Self::big_case("a", 3, 26, 13200, 1, &[2, 6553, 13100, 13107, 13150, 13199]),
            Self::big_case("t", 4, 17, 83521, 3, &[0, 5000, 10922, 10923, 30000, 65535, 65536, 70000, 83520]),
            Self::big_case("a", 2, 26, 676, 3, &[0, 100, 675]),
            // histories: a word is asked, then an exception for it is declared, then it is asked again
            "s a Pa1b^00201c,Qabab,Qcab,Xab-ab,Xcab,Qabab,QAbab,Qcab,QABAB,Qababc".into(),
            "s a Pa1b,Qab,Ea-b^000Ab-a,Qab,Qba,Pb1a,Qba,QAB,Xab,Qab".into(),
            // C13-b: a pattern `.w.` loaded after the exception for w
            "s a Xab,Qab,P.a1b.,Qab,QAB".into(),
            "s a P.a1b.,Qab,Xab,Qab,P.a3b.,Qab".into(),
            "s a D,Qalgorithm,QAlgorithm,Xal-go-rithm,Qalgorithm,QAlgorithm,Qalgorithms,Etab-le^000A,Qtable".into(),
            // only `-` is markup in an exception entry
            "h a 1b a.b,b=a,a1b ab,ba".into(),
        ];
        // zero runs and long patterns
        for n in [14usize, 15, 16, 17, 18, 31, 32, 33, 34, 40] {
            let a = "a".repeat(n);
            let w = format!("b{}b", "a".repeat(n.min(38)));
            v.push(format!("h a {a}1,{a}b3,9{a},.b{a}5b. _ {w},{a},{a}b,b{a}"));
            v.push(format!("h a {a} _ {a}"));
            v.push(format!("h a 1{a}2{a}3 _ {a}{a},b{a}{a}"));
        }
        v.push(format!("plain a {}", TEST_WORDS.iter().filter(|w| w.is_ascii()).copied().collect::<Vec<_>>().join(",")));
        v.push("plain t na^00EFve,T!ble,t!?le,pro+ess".into());
        v
    }

    fn generate(&mut self, ctx: &Ctx, rng: &mut Rng) -> Vec<String> {
        self.repo = ctx.repo.clone();
        self.verif = ctx.verif.clone();
        self.load_text_words();
        let mut v = vec![];
        let words30 = Self::all_words(&['a', 'b'], 4).join(",");
        // 1. exhaustive small scope
        let u = Self::small_universe(&['0', '1', '2']);
        for p in &u {
            v.push(format!("h a {p} _ {words30}"));
        }
        let mut r = rng.fork();
        let stride2 = if ctx.thorough { 7 } else { 97 };
        let mut k = r.below(stride2) as usize;
        let n = u.len();
        while k < n * n {
            let (i, j) = (k / n, k % n);
            if i != j {
                v.push(format!("h a {},{} _ {words30}", u[i], u[j]));
            }
            k += stride2 as usize;
        }
        let n3 = if ctx.thorough { 20_000 } else { 1_500 };
        for _ in 0..n3 {
            let (a, b, c) = (r.pick(&u), r.pick(&u), r.pick(&u));
            v.push(format!("h a {a},{b},{c} _ {words30}"));
        }
        // exceptions x one-digit patterns 0..9
        for letters in ["ab", "aab", "aba"] {
            let l: Vec<char> = letters.chars().collect();
            // every hyphenation of the word
            for mask in 0..(1u32 << (l.len() - 1)) {
                let mut e = String::new();
                for (i, c) in l.iter().enumerate() {
                    if i > 0 && mask & (1 << (i - 1)) != 0 {
                        e.push('-');
                    }
                    e.push(*c);
                }
                for slot in 0..=l.len() {
                    let mut ps = vec![];
                    for d in 0..10 {
                        let mut p = String::new();
                        for (i, c) in l.iter().enumerate() {
                            if i == slot {
                                p.push((b'0' + d) as char);
                            }
                            p.push(*c);
                        }
                        if slot == l.len() {
                            p.push((b'0' + d) as char);
                        }
                        ps.push(p);
                    }
                    for p in ps {
                        v.push(format!("h a {p} {e} {letters},{}", letters.to_uppercase()));
                    }
                }
            }
        }
        // 2. random
        let n_rand = if ctx.thorough { 150_000 } else { 12_000 };
        let mut r = rng.fork();
        for _ in 0..n_rand {
            v.push(Self::gen_random(&mut r));
        }
        // 2b. histories
        let n_seq = if ctx.thorough { 60_000 } else { 5_000 };
        let mut r = rng.fork();
        for _ in 0..n_seq {
            v.push(Self::gen_seq(&mut r));
        }
        // histories on top of plain TeX's data: hyphenate, declare an exception, hyphenate again
        let mut r = rng.fork();
        for _ in 0..(if ctx.thorough { 12 } else { 3 }) {
            let mut ops: Vec<(char, String)> = vec![('D', String::new())];
            let ws: Vec<String> = (0..6).map(|_| if !self.text_words.is_empty() && r.chance(1, 2) { r.pick(&self.text_words).clone() } else { r.pick(TEST_WORDS).to_string() }).filter(|w| w.is_ascii()).collect();
            for w in &ws {
                ops.push(('Q', w.clone()));
            }
            for w in &ws {
                let letters: String = w.chars().filter(|c| c.is_ascii_alphabetic()).collect::<String>().to_lowercase();
                if letters.is_empty() {
                    continue;
                }
                ops.push((if r.chance(1, 2) { 'X' } else { 'E' }, Self::hyphenate_randomly(&mut r, &letters)));
                ops.push(('Q', w.clone()));
                ops.push(('Q', Self::mix_case(&mut r, w, false)));
            }
            v.push(show_ops("a", &ops));
        }
        // 3. plain TeX patterns on text words
        let n_plain = if ctx.thorough { 60 } else { 8 };
        let mut r = rng.fork();
        for i in 0..n_plain {
            let mut ws: Vec<String> = vec![];
            for _ in 0..40 {
                let w = if !self.text_words.is_empty() && r.chance(5, 6) { r.pick(&self.text_words).clone() } else { r.pick(TEST_WORDS).to_string() };
                let w = if r.chance(1, 4) { Self::mix_case(&mut r, &w, false) } else { w };
                ws.push(w);
            }
            v.push(format!("plain {} {}", if i % 4 == 3 { "t" } else { "a" }, unitems(&ws)));
        }
        v
    }

    fn run_case(&mut self, case: &str, drv: &mut Driver) -> CaseOutcome {
        if case.starts_with("s ") {
            return self.run_seq(case, drv);
        }
        if case.starts_with("big ") {
            return self.run_big(case, drv);
        }
        let mut out = CaseOutcome::default();
        let mut p = parse_case(case);
        if p.plain {
            if self.repo.is_empty() || self.verif.is_empty() {
                let a = parse_args();
                self.repo = a.repo;
                self.verif = a.verif;
            }
            let (ps, es) = self.plain().clone();
            p.pats = ps;
            p.excs = es;
            for d in std::mem::take(&mut self.plain_data_diff) {
                out.fail(Kind::ImplVsModel, "plain-data", "shipped plain TeX data file differs from hyphen.tex", d);
            }
        }
        // ---- the texts handed to `load_patterns` / `insert_exceptions` ----
        // glue: the separators, padding, blank lines and the split into several calls are
        // derived from the case string (same case = same calls); the driver gets the same texts
        // and parses them with the model of the text front end (`splitWs`, `exceptionLines`)
        let mut ptexts: Vec<String> = vec![];
        let mut etext: Option<String> = None; // None: one `insert_exception` call per entry
        if p.plain {
            let (pt, et) = self.plain_text.clone().expect("plain texts");
            ptexts.push(pt);
            etext = Some(et);
        } else {
            let mut g = Rng::new(fxhash(case));
            let ws = [" ", "\n", "\t", "  ", " \n ", "\r\n", "\u{c}", "\u{a0}", "\u{2003}", "\u{85}\u{3000}"];
            let cut = if p.pats.len() > 1 && g.chance(1, 3) { 1 + g.below(p.pats.len() as u64 - 1) as usize } else { p.pats.len() };
            for part in [&p.pats[..cut], &p.pats[cut..]] {
                let mut text = String::new();
                if g.chance(1, 4) {
                    text.push_str(*g.pick(&ws));
                }
                for (i, q) in part.iter().enumerate() {
                    if i > 0 {
                        text.push_str(if g.chance(2, 3) { " " } else { *g.pick(&ws) });
                    }
                    text.push_str(q);
                }
                if g.chance(1, 4) {
                    text.push_str(*g.pick(&ws));
                }
                if !part.is_empty() || g.chance(1, 2) {
                    ptexts.push(text);
                }
            }
            if !g.chance(1, 4) {
                let mut text = String::new();
                for e in &p.excs {
                    if g.chance(1, 6) {
                        text.push_str(*g.pick(&["\n", "  \n", "\t\n", "\r\n", "\u{a0}\n"]));
                    }
                    if g.chance(1, 4) {
                        text.push_str(*g.pick(&[" ", "\t", "  ", "\u{2003}"]));
                    }
                    text.push_str(e);
                    if g.chance(1, 4) {
                        text.push_str(*g.pick(&[" ", "\t", "  ", "\u{a0}"]));
                    }
                    text.push_str(if g.chance(1, 6) { "\r\n" } else { "\n" });
                }
                if g.chance(1, 2) && text.ends_with('\n') {
                    text.pop();
                }
                etext = Some(text);
            }
        }
        // ---- I: the real code ----
        let built = caught(|| {
            if p.plain {
                Hyphenator::plain_tex_en_us()
            } else {
                let mut h: Hyphenator = Default::default();
                for t in &ptexts {
                    h.load_patterns(t);
                }
                match &etext {
                    None => {
                        for e in &p.excs {
                            h.insert_exception(e);
                        }
                    }
                    Some(t) => h.insert_exceptions(t),
                }
                h
            }
        });
        let h = match built {
            Ok(h) => h,
            Err(e) => {
                out.fail(Kind::ImplPanic, "build", format!("panic {}", strip_msg(&e)), format!("load_patterns/insert_exceptions panicked: {e}"));
                return out;
            }
        };
        let runs: Vec<WordRun> = p.words.iter().map(|w| if p.lc == "t" { run_word(&h, &TableLc, w) } else { run_word(&h, &AsciiLowerCaser::default(), w) }).collect();
        let impl_field: Vec<String> = runs
            .iter()
            .map(|r| match &r.indices {
                Ok(v) => dots(v),
                Err(_) => "P".into(),
            })
            .collect();
        // ---- M and S: Lean ----
        let req = format!(
            "h {} t {} {} {} {} {}",
            p.lc,
            unitems(&ptexts),
            if etext.is_some() { "t" } else { "l" },
            match &etext {
                Some(t) => unitems(std::slice::from_ref(t)),
                None => unitems(&p.excs),
            },
            unitems(&p.words),
            impl_field.join(",")
        );
        let reply = drv.ask(&req);
        let Some((head, per)) = reply.split_once(" | ") else { panic!("driver reply malformed: {reply} (request {})", &req[..req.len().min(300)]) };
        let is_table = head.ends_with(" plain=1");
        let head = head.trim_end_matches(" plain=1");
        let in_quantifier = head == "wf=1 dup=0";
        if p.plain && !is_table {
            // `plain_tex_spec` is about Tables/C13Plain.lean: the pinned data must be that table
            out.fail(Kind::ImplVsModel, "plain-data", "pinned plain TeX data differs from the Lean table Tables/C13Plain.lean", "regenerate the table from harness/corpus/C13/*.txt".to_string());
        }
        if p.plain {
            out.tag("set:plain-tex=Lean-table");
        }
        out.tag(if p.plain { "set:plain-tex".to_string() } else { format!("set:{}", head.replace(' ', ",")) });
        out.tag(format!("lc:{}", if p.lc == "t" { "table" } else { "ascii" }));
        let hi_digit = p.pats.iter().any(|s| s.chars().any(|c| ('7'..='9').contains(&c)));
        if !p.plain {
            self.tag_patterns(&p, &mut out);
        }
        let per: Vec<&str> = per.split(';').collect();
        assert_eq!(per.len(), p.words.len(), "driver reply has wrong number of words: {reply}");
        let desc = format!("lc: {}\npatterns: {}\nexceptions: {}", p.lc, if p.plain { "plain TeX".into() } else { unitems(&p.pats) }, if p.plain { "plain TeX".into() } else { unitems(&p.excs) });
        for ((w, run), m) in p.words.iter().zip(&runs).zip(&per) {
            check_word(&mut out, w, run, m, in_quantifier, hi_digit, &desc, "", false);
        }
        out
    }

    fn shrink(&self, case: &str) -> Vec<String> {
        if case.starts_with("s ") {
            return Self::shrink_seq(case);
        }
        if case.starts_with("big ") {
            return Self::shrink_big(case);
        }
        let p = parse_case(case);
        let mut c = vec![];
        let mk = |pats: Vec<String>, excs: Vec<String>, words: Vec<String>| show_case(&Parsed { plain: p.plain, lc: p.lc.clone(), pats, excs, words });
        // one word at a time first (most cases fail on a single word)
        if p.words.len() > 1 {
            for w in &p.words {
                c.push(mk(p.pats.clone(), p.excs.clone(), vec![w.clone()]));
            }
        }
        if !p.plain {
            if p.pats.len() > 1 {
                c.push(mk(p.pats[..p.pats.len() / 2].to_vec(), p.excs.clone(), p.words.clone()));
                c.push(mk(p.pats[p.pats.len() / 2..].to_vec(), p.excs.clone(), p.words.clone()));
            }
            for i in 0..p.pats.len() {
                let mut q = p.pats.clone();
                q.remove(i);
                c.push(mk(q, p.excs.clone(), p.words.clone()));
            }
            for i in 0..p.excs.len() {
                let mut q = p.excs.clone();
                q.remove(i);
                c.push(mk(p.pats.clone(), q, p.words.clone()));
            }
            // shorten patterns by one char
            for i in 0..p.pats.len() {
                let cs: Vec<char> = p.pats[i].chars().collect();
                if cs.len() > 1 && cs.len() <= 12 {
                    for k in 0..cs.len() {
                        let mut q = p.pats.clone();
                        q[i] = cs.iter().enumerate().filter(|(j, _)| *j != k).map(|(_, c)| *c).collect();
                        c.push(mk(q, p.excs.clone(), p.words.clone()));
                    }
                }
            }
        }
        // shorten the word (only when a single word is left)
        if p.words.len() == 1 {
            let cs: Vec<char> = p.words[0].chars().collect();
            if cs.len() > 1 {
                c.push(mk(p.pats.clone(), p.excs.clone(), vec![cs[..cs.len() / 2].iter().collect()]));
                c.push(mk(p.pats.clone(), p.excs.clone(), vec![cs[cs.len() / 2..].iter().collect()]));
                if cs.len() <= 16 {
                    for k in 0..cs.len() {
                        c.push(mk(p.pats.clone(), p.excs.clone(), vec![cs.iter().enumerate().filter(|(j, _)| *j != k).map(|(_, c)| *c).collect()]));
                    }
                }
            }
        }
        c
    }
}

// ------------------------------------------------------------------------------------------
// Histories: `s <lc> <ops>` — one hyphenator, any sequence of `P<text>` (load_patterns),
// `E<text>` (insert_exceptions), `X<entry>` (insert_exception), `Q<word>` (query) and, as the first
// op only, `D` (start from `Hyphenator::plain_tex_en_us()`). Every query is compared with the
// model and the specification of the state at that point.
// ------------------------------------------------------------------------------------------

fn parse_ops(s: &str) -> Vec<(char, String)> {
    if s == "_" {
        return vec![];
    }
    s.split(',')
        .map(|it| {
            let mut cs = it.chars();
            let c = cs.next().expect("empty op");
            let rest: String = cs.collect();
            (c, if rest == "~" { String::new() } else { unesc(&rest) })
        })
        .collect()
}
fn show_ops(lc: &str, ops: &[(char, String)]) -> String {
    let body: Vec<String> = ops.iter().map(|(c, t)| format!("{c}{}", if t.is_empty() && *c != 'D' { "~".to_string() } else { esc(t) })).collect();
    format!("s {lc} {}", if body.is_empty() { "_".to_string() } else { body.join(",") })
}

impl C13 {
    fn run_seq(&mut self, case: &str, drv: &mut Driver) -> CaseOutcome {
        let mut out = CaseOutcome::default();
        let f: Vec<&str> = case.split(' ').collect();
        assert_eq!(f.len(), 3, "bad case {case}");
        let lc = f[1];
        let ops = parse_ops(f[2]);
        out.tag("seq:case");
        out.tag(format!("lc:{}", if lc == "t" { "table" } else { "ascii" }));
        // ---- I: one real hyphenator through the whole history ----
        let mut h: Hyphenator = Default::default();
        let mut runs: Vec<(String, WordRun)> = vec![];
        let mut mutated_since_query = false;
        let mut seen_words: std::collections::HashSet<String> = Default::default();
        for (i, (c, t)) in ops.iter().enumerate() {
            let r = caught(|| match c {
                'D' => {
                    assert_eq!(i, 0, "D must be the first op");
                    h = Hyphenator::plain_tex_en_us();
                    None
                }
                'P' => {
                    h.load_patterns(t);
                    None
                }
                'E' => {
                    h.insert_exceptions(t);
                    None
                }
                'X' => {
                    h.insert_exception(t);
                    None
                }
                'Q' => Some(if lc == "t" { run_word(&h, &TableLc, t) } else { run_word(&h, &AsciiLowerCaser::default(), t) }),
                _ => panic!("bad op {c}"),
            });
            match r {
                Err(e) => {
                    out.fail(Kind::ImplPanic, "seq-build", format!("panic {}", strip_msg(&e)), format!("op {i} ({c}{t}) panicked: {e}"));
                    return out;
                }
                Ok(None) => {
                    out.tag(format!("seq:op-{c}"));
                    mutated_since_query = true;
                }
                Ok(Some(run)) => {
                    let key = t.to_lowercase();
                    if seen_words.contains(&key) && mutated_since_query {
                        out.tag("seq:requery-after-mutation");
                    }
                    seen_words.insert(key);
                    runs.push((t.clone(), run));
                }
            }
            if *c == 'Q' {
                // stays true until the next mutation resets nothing: a re-query counts once per word
            }
        }
        let impl_field: Vec<String> = runs
            .iter()
            .map(|(_, r)| match &r.indices {
                Ok(v) => dots(v),
                Err(_) => "P".into(),
            })
            .collect();
        let req = format!("s {} {} {}", lc, f[2], if impl_field.is_empty() { "-".to_string() } else { impl_field.join(",") });
        let reply = drv.ask(&req);
        if runs.is_empty() {
            return out;
        }
        let per: Vec<&str> = reply.split(';').collect();
        assert_eq!(per.len(), runs.len(), "driver reply has wrong number of queries: {reply} (request {})", &req[..req.len().min(300)]);
        let desc = format!("history: {}", f[2]);
        for ((w, run), m) in runs.iter().zip(&per) {
            let (flags, rest) = m.split_once(':').unwrap_or_else(|| panic!("per-query reply malformed: {m}"));
            let in_quantifier = flags == "10";
            let b_flag = rest.rsplit(':').next() == Some("b");
            if b_flag {
                out.tag("seq:query-with-exception-and-.w.-pattern");
            }
            let n0 = out.failures.len();
            check_word(&mut out, w, run, rest, in_quantifier, false, &desc, "seq-", b_flag);
            if b_flag {
                // shape of C13-b and the pre-fix model reproduces the real answer: every
                // deviation on this query is that one defect
                for fl in out.failures[n0..].iter_mut() {
                    if fl.kind != Kind::ImplPanic {
                        fl.signature = "C13-b: a pattern .w. loaded after the exception for w replaces it".into();
                    }
                }
            }
        }
        out
    }

    fn shrink_seq(case: &str) -> Vec<String> {
        let f: Vec<&str> = case.split(' ').collect();
        let ops = parse_ops(f[2]);
        let mut c = vec![];
        if ops.len() > 1 {
            c.push(show_ops(f[1], &ops[..ops.len() / 2]));
            c.push(show_ops(f[1], &ops[ops.len() / 2..]));
            for i in 0..ops.len() {
                if ops[i].0 == 'D' {
                    continue;
                }
                let mut o = ops.clone();
                o.remove(i);
                c.push(show_ops(f[1], &o));
            }
        }
        // shorten the payload of one op (drop one whitespace-separated token / one char)
        for i in 0..ops.len() {
            let (k, t) = &ops[i];
            if *k == 'P' || *k == 'E' {
                let toks: Vec<&str> = t.split_whitespace().collect();
                if toks.len() > 1 {
                    for j in 0..toks.len() {
                        let mut o = ops.clone();
                        o[i].1 = toks.iter().enumerate().filter(|(x, _)| *x != j).map(|(_, s)| *s).collect::<Vec<_>>().join(" ");
                        c.push(show_ops(f[1], &o));
                    }
                }
            }
            let cs: Vec<char> = t.chars().collect();
            if cs.len() > 1 && cs.len() <= 10 {
                for j in 0..cs.len() {
                    let mut o = ops.clone();
                    o[i].1 = cs.iter().enumerate().filter(|(x, _)| *x != j).map(|(_, ch)| *ch).collect();
                    c.push(show_ops(f[1], &o));
                }
            }
        }
        c
    }

    /// A random history over a small alphabet: short words so that queries, exceptions and `.w.`
    /// patterns keep hitting the same words; after each mutation earlier words are asked again,
    /// in another letter case.
    fn gen_seq(r: &mut Rng) -> String {
        let table = r.chance(1, 5);
        let ab: Vec<char> = if r.chance(1, 2) { vec!['a', 'b'] } else { vec!['a', 'b', 'c'] };
        let mut ops: Vec<(char, String)> = vec![];
        let mut words: Vec<String> = vec![];
        let pat_text = |r: &mut Rng, words: &[String]| -> String {
            let n = 1 + r.below(3) as usize;
            let mut ps = vec![];
            for _ in 0..n {
                if !words.is_empty() && r.chance(1, 4) {
                    // a pattern for exactly one known word: `.w.` with digits
                    let w = r.pick(words).clone();
                    let mut s = String::from(".");
                    for (i, c) in w.chars().enumerate() {
                        if i > 0 && r.chance(1, 2) {
                            s.push((b'0' + r.below(10) as u8) as char);
                        }
                        s.push(c);
                    }
                    s.push('.');
                    ps.push(s);
                } else {
                    ps.push(Self::gen_pattern(r, &ab, false));
                }
            }
            let sep = *r.pick(&[" ", "\n", "  ", "\t"]);
            ps.join(sep)
        };
        if r.chance(4, 5) {
            ops.push(('P', pat_text(r, &words)));
        }
        let n_ops = 4 + r.below(10) as usize;
        for _ in 0..n_ops {
            let k = r.below(10);
            let mutated = match k {
                0..=3 => {
                    // a query: a new short word or an earlier one
                    let w = if !words.is_empty() && r.chance(1, 2) { r.pick(&words).clone() } else { Self::gen_letters_r(r, 1, 5, &ab) };
                    if !words.contains(&w) {
                        words.push(w.clone());
                    }
                    ops.push(('Q', Self::mix_case(r, &w, table)));
                    false
                }
                4 | 5 => {
                    let w = if !words.is_empty() && r.chance(3, 4) { r.pick(&words).clone() } else { Self::gen_letters_r(r, 1, 5, &ab) };
                    ops.push(('X', Self::hyphenate_randomly(r, &w)));
                    true
                }
                6 => {
                    let n = 1 + r.below(2) as usize;
                    let mut t = String::new();
                    for _ in 0..n {
                        let w = if !words.is_empty() && r.chance(3, 4) { r.pick(&words).clone() } else { Self::gen_letters_r(r, 1, 5, &ab) };
                        t.push_str(&Self::hyphenate_randomly(r, &w));
                        t.push('\n');
                    }
                    ops.push(('E', t));
                    true
                }
                _ => {
                    ops.push(('P', pat_text(r, &words)));
                    true
                }
            };
            if mutated {
                // ask earlier words again (all of them half of the time), in any letter case
                let all = r.chance(1, 2);
                for w in words.clone() {
                    if all || r.chance(1, 2) {
                        ops.push(('Q', Self::mix_case(r, &w, table)));
                    }
                }
            }
        }
        show_ops(if table { "t" } else { "a" }, &ops)
    }
}

// ------------------------------------------------------------------------------------------
// Large pattern sets: `big <lc> <len> <alpha> <count> <k> <extras> <exceptions> <words>`.
// The family `fam_pattern(len, alpha, k, i)`, i < count (every letter string of length `len` over
// the first `alpha` letters, a digit in every slot: `len + 2` op bytes each), loaded in one
// `load_patterns` call, then the explicit extras, then the exceptions: op tables and vertex
// numbers beyond 2^16. Real code vs the Lean specification on the queried words.
// ------------------------------------------------------------------------------------------

fn fam_letters(len: usize, alpha: usize, i: usize) -> String {
    (0..len).map(|j| (b'a' + ((i / alpha.pow((len - 1 - j) as u32)) % alpha) as u8) as char).collect()
}
fn fam_pattern(len: usize, alpha: usize, k: usize, i: usize) -> String {
    let l: Vec<char> = fam_letters(len, alpha, i).chars().collect();
    let dig = |j: usize| (b'0' + ((i * k + j * (k + 2) + i / 7) % 10) as u8) as char;
    let mut s = String::new();
    for j in 0..len {
        s.push(dig(j));
        s.push(l[j]);
    }
    s.push(dig(len));
    s
}

impl C13 {
    /// A big case whose words hit the patterns with the given indices (alone, joined in pairs,
    /// upper case), with late extras and exceptions for some of them.
    fn big_case(lc: &str, len: usize, alpha: usize, count: usize, k: usize, idxs: &[usize]) -> String {
        let mut words: Vec<String> = vec![];
        let mut excs: Vec<String> = vec![];
        let mut extras: Vec<String> = vec![];
        for (n, &i) in idxs.iter().enumerate() {
            let a = fam_letters(len, alpha, i);
            let b = fam_letters(len, alpha, idxs[(n + 1) % idxs.len()]);
            words.push(a.clone());
            words.push(format!("{a}{b}"));
            words.push(format!("{b}{a}").to_uppercase());
            if n % 3 == 0 {
                // an exception (inserted after the whole table) for the joined word
                let w = format!("{a}{b}");
                let cut = 1 + (i % (w.len() - 1));
                excs.push(format!("{}-{}", &w[..cut], &w[cut..]));
            }
            if n % 3 == 1 {
                // a late explicit pattern over len+1 letters (no key of the family)
                let w = format!("{a}{}", &b[..1]);
                extras.push(format!("{}{}{}", &w[..2], 5 + (i % 5), &w[2..]));
                words.push(format!("{w}{b}"));
            }
        }
        format!("big {lc} {len} {alpha} {count} {k} {} {} {}", unitems(&extras), unitems(&excs), unitems(&words))
    }

    fn run_big(&mut self, case: &str, drv: &mut Driver) -> CaseOutcome {
        let mut out = CaseOutcome::default();
        let f: Vec<&str> = case.split(' ').collect();
        assert_eq!(f.len(), 9, "bad case {case}");
        let lc = f[1];
        let (len, alpha, count, k): (usize, usize, usize, usize) = (f[2].parse().unwrap(), f[3].parse().unwrap(), f[4].parse().unwrap(), f[5].parse().unwrap());
        let (extras, excs, words) = (items(f[6]), items(f[7]), items(f[8]));
        let op_bytes = count * (len + 2);
        out.tag(match op_bytes {
            0..=65535 => "big:op-table<2^16",
            65536..=131071 => "big:op-table>=2^16",
            _ => "big:op-table>=2^17",
        });
        let vertices: usize = (1..=len).map(|j| alpha.pow(j as u32).min(count)).sum();
        out.tag(if vertices >= 65536 { "big:vertices>=2^16" } else { "big:vertices<2^16" });
        let built = caught(|| {
            let mut text = String::with_capacity(count * (2 * len + 2));
            for i in 0..count {
                text.push_str(&fam_pattern(len, alpha, k, i));
                text.push(if i % 8 == 7 { '\n' } else { ' ' });
            }
            let mut h: Hyphenator = Default::default();
            h.load_patterns(&text);
            if !extras.is_empty() {
                h.load_patterns(&extras.join(" "));
            }
            for (n, e) in excs.iter().enumerate() {
                if n % 2 == 0 {
                    h.insert_exception(e);
                } else {
                    h.insert_exceptions(&format!("{e}\n"));
                }
            }
            h
        });
        let h = match built {
            Ok(h) => h,
            Err(e) => {
                out.fail(Kind::ImplPanic, "big-build", format!("panic {}", strip_msg(&e)), format!("loading {count} patterns panicked: {e}"));
                return out;
            }
        };
        let runs: Vec<WordRun> = words.iter().map(|w| if lc == "t" { run_word(&h, &TableLc, w) } else { run_word(&h, &AsciiLowerCaser::default(), w) }).collect();
        let impl_field: Vec<String> = runs
            .iter()
            .map(|r| match &r.indices {
                Ok(v) => dots(v),
                Err(_) => "P".into(),
            })
            .collect();
        let req = format!("{case} {}", impl_field.join(","));
        let reply = drv.ask(&req);
        let per: Vec<&str> = reply.split(';').collect();
        assert_eq!(per.len(), words.len(), "driver reply has wrong number of words: {reply}");
        for ((w, run), m) in words.iter().zip(&runs).zip(&per) {
            let g: Vec<&str> = m.split(':').collect();
            assert_eq!(g.len(), 5, "per-word reply malformed: {m}");
            let (s_idx, verdict, is_exc, in_q, rel) = (g[0], g[1], g[2] == "x", g[3] == "q", g[4]);
            out.nontrivial |= run.matched > 0;
            out.tag(if is_exc { "big:word-is-exception" } else { "big:word" });
            let ctx = |what: &str| format!("{what}\nword: {w}\nfamily: len {len} alphabet {alpha} count {count} k {k} ({op_bytes} op bytes), relevant patterns: {rel}\nextras: {}\nexceptions: {}", f[6], f[7]);
            let idx = match &run.indices {
                Ok(v) => v,
                Err(e) => {
                    out.fail(Kind::ImplPanic, "big-indices", format!("panic {}", strip_msg(e)), ctx(&format!("calculate_indices panicked: {e}")));
                    continue;
                }
            };
            if !in_q || verdict == "-" {
                continue;
            }
            let sig = if is_exc { "listed exception not returned as listed" } else { "positions differ from Liang's definition" };
            if verdict != "1" {
                out.fail(Kind::ImplVsSpec, "big-spec", sig, ctx(&format!("impl indices: {}\nspec indices: {s_idx}", dots(idx))));
            }
            if let Ok(hs) = &run.hyphenated {
                let mut pos = vec![];
                let mut i = 0usize;
                for c in hs.chars() {
                    if c == '-' {
                        pos.push(i);
                    } else {
                        i += 1;
                    }
                }
                if dots(&pos) != s_idx {
                    out.fail(Kind::ImplVsSpec, "big-hypthenate", "hypthenate: hyphens not exactly at the specified positions", ctx(&format!("hypthenate: {hs}\nspec indices: {s_idx}")));
                }
            }
            if let Ok(sc) = &run.scores {
                let odd: Vec<usize> = sc.iter().enumerate().filter(|(_, x)| *x % 2 != 0).map(|(i, _)| i).collect();
                if dots(&odd) != s_idx {
                    out.fail(Kind::ImplVsSpec, "big-explanation", "calculate_explanation: odd aggregate scores not exactly at the specified positions", ctx(&format!("scores: {}\nspec indices: {s_idx}", dots(sc))));
                }
            }
        }
        out
    }

    fn shrink_big(case: &str) -> Vec<String> {
        let f: Vec<&str> = case.split(' ').collect();
        let (extras, excs, words) = (items(f[6]), items(f[7]), items(f[8]));
        let mk = |count: &str, extras: &[String], excs: &[String], words: &[String]| format!("big {} {} {} {} {} {} {} {}", f[1], f[2], f[3], count, f[5], unitems(extras), unitems(excs), unitems(words));
        let mut c = vec![];
        if words.len() > 1 {
            for w in &words {
                c.push(mk(f[4], &extras, &excs, std::slice::from_ref(w)));
            }
        }
        for i in 0..excs.len() {
            let mut e = excs.clone();
            e.remove(i);
            c.push(mk(f[4], &extras, &e, &words));
        }
        for i in 0..extras.len() {
            let mut e = extras.clone();
            e.remove(i);
            c.push(mk(f[4], &e, &excs, &words));
        }
        // fewer patterns (bisection on the count)
        let count: usize = f[4].parse().unwrap();
        let mut step = count / 2;
        while step >= 1 {
            c.push(mk(&(count - step).to_string(), &extras, &excs, &words));
            if step == 1 {
                break;
            }
            step /= 2;
        }
        c
    }
}

impl C13 {
    fn tag_patterns(&self, p: &Parsed, out: &mut CaseOutcome) {
        for s in &p.pats {
            let cs: Vec<char> = s.chars().collect();
            let st = s.starts_with('.');
            let en = s.ends_with('.') && cs.len() > 1;
            out.tag(match (st, en) {
                (false, false) => "pat:unanchored",
                (true, false) => "pat:anchored-start",
                (false, true) => "pat:anchored-end",
                (true, true) => "pat:anchored-both",
            });
            let letters = cs.iter().filter(|c| !c.is_ascii_digit() && **c != '.').count();
            if letters > 16 {
                out.tag("pat:letters>16");
            }
            if letters == 0 {
                out.tag("pat:no-letters");
            }
            // zero runs
            let mut run = 0usize;
            let mut maxrun = 0usize;
            let mut prev_digit = false;
            let mut adj = false;
            for c in &cs {
                if c.is_ascii_digit() {
                    if prev_digit {
                        adj = true;
                    }
                    maxrun = maxrun.max(run);
                    run = 0;
                    prev_digit = true;
                    let d = *c as u8 - b'0';
                    out.tag(format!("digit:{d}"));
                } else if *c != '.' {
                    run += 1;
                    prev_digit = false;
                }
            }
            maxrun = maxrun.max(run);
            out.tag(match maxrun {
                0..=14 => "zero-run:<15",
                15 => "zero-run:15",
                16 => "zero-run:16",
                17..=31 => "zero-run:17-31",
                _ => "zero-run:32+(two overflow bytes)",
            });
            if adj {
                out.tag("pat:adjacent-digits(malformed)");
            }
            if cs.len() > 2 && cs[1..cs.len() - 1].contains(&'.') {
                out.tag("pat:interior-dot(malformed)");
            }
            if cs.iter().any(|c| c.is_uppercase()) {
                out.tag("pat:upper-case");
            }
        }
        out.tag(match p.excs.len() {
            0 => "exceptions:0",
            1 => "exceptions:1",
            _ => "exceptions:2+",
        });
        for e in &p.excs {
            if e.starts_with('-') || e.ends_with('-') || e.contains("--") {
                out.tag("exception:edge-or-double-hyphen");
            }
        }
    }
}

fn main() {
    run(C13 { repo: String::new(), plain_files: None, text_words: vec![], verif: String::new(), plain_data_diff: vec![], plain_text: None });
}
