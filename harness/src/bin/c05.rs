//! C05 — compiled lig/kern programs equal direct interpretation; loops detected exactly;
//! the output spells the word.
//!
//! Case strings (all integers; `-1` = none / boundary):
//!   `p <P> | <WS>`   compile the program with the real `CompiledProgram::compile`, run the
//!                    real `run(word)` on every word of the word set, compare with M and S.
//!   `k <P> | <WS>`   the same, but the program is installed in a `tfm::File` with the real
//!                    `File::replace_lig_kern_program` (`pack_entrypoints`: u16 → u8 entry
//!                    points, redirect words; `unpack_kerns`) and compiled with the real
//!                    `compile_from_tfm_file` (`unpack_entrypoint`).
//!                    M and S are evaluated on the *original* program.
//!   `n <P> | <WS>`   as `p`, but every word is run with
//!                    `run_with_options(.., RunOptions { disable_left_boundary: true, .. })`.
//!   `o <nolb> <ov> <P> | <WS>` as `p`, but every word is run with
//!                    `RunOptions { disable_left_boundary: nolb != 0, right_boundary_override: ov }`
//!                    (`ov = -1`: none). M = `runOpt`, S = `interp` with the override as the right
//!                    boundary of the run.
//!   `t <P> | <n> c*` the program is installed in a font (`File::replace_lig_kern_program`, the four
//!                    space parameters set), compiled (`compile_from_tfm_file`) and registered
//!                    with the real `boxworks_text::TextPreprocessorImpl`; the text (char codes,
//!                    32 = space) goes through `add_text`; the horizontal list is cut at the
//!                    glue items and every word's segment is compared with M and S.
//!   `m <nf> | <font>*nf | <op>*`  several fonts (`prog <P>` built as in `t`, or `file <path>`)
//!                    registered on ONE `TextPreprocessorImpl`; ops: `1 f` activate_font,
//!                    `2 n c*` add_text, `3 n c*` add_word, `4` add_space, `5` new_paragraph.
//!                    Every call gets its own list; every word's segment is judged against the
//!                    font active at that point (items, glyphs, spelling, font id of each node).
//!   `z <via> <P> | <WS>` a large program (many characters sharing a long chain: up to 65 536 pairs)
//!                    compiled directly (`via = 0`) or through `File::replace_lig_kern_program` +
//!                    `compile_from_tfm_file` (`via = 1`); the driver evaluates only the pairs the
//!                    words use (`runsz`).
//!   `r <raw> | <WS>` raw TFM lig/kern words (`nW (skip next op rem)* nT (c e)* nK k*`: redirect words
//!                    anywhere, used as entry points and run into by other chains) wrapped into a
//!                    well-formed TFM file: real bytes through `File::deserialize` +
//!                    `compile_from_tfm_file`; M = `decodeFont` (theorem `raw_rule`), S as for `p`.
//!   `f <path>`       a corpus font (path relative to /repo): real bytes through
//!                    `tfm::File::deserialize` and `CompiledProgram::compile_from_tfm_file`;
//!                    words = every ruled pair, and every ruled pair followed by a third letter.
//!
//! `P`  = `rb lb nE (c e)* nK k* nI (next right kind x y)*`, kind 0 = Kern(FixWord x),
//!        1 = KernAtIndex(x), 2 = Ligature(char x, form y), 3 = EntrypointRedirect(x, y != 0).
//!        Kern values in a case are raw `FixWord`s; the harness converts them with the real
//!        `FixWord::to_scaled` (font-metric arithmetic is C17) before talking to Lean.
//! `WS` = `0 n c*` one word, several separated by `|`; or `1 maxlen k c*` = every word of
//!        length 1..maxlen over the k given characters.

use std::collections::{BTreeSet, HashMap};
use tfm::ligkern::lang::{Instruction, Operation, PostLigOperation, Program};
use tfm::ligkern::{CompiledProgram, RunItem};
use tfm::{Char, FixWord};
use vh::*;

const FORMS: [PostLigOperation; 8] = [
    PostLigOperation::RetainBothMoveNowhere,
    PostLigOperation::RetainBothMoveToInserted,
    PostLigOperation::RetainBothMoveToRight,
    PostLigOperation::RetainRightMoveToInserted,
    PostLigOperation::RetainRightMoveToRight,
    PostLigOperation::RetainLeftMoveNowhere,
    PostLigOperation::RetainLeftMoveToInserted,
    PostLigOperation::RetainNeitherMoveToInserted,
];
const FORM_NAMES: [&str; 8] = ["/LIG/", "/LIG/>", "/LIG/>>", "LIG/", "LIG/>", "/LIG", "/LIG>", "LIG"];

fn form_code(p: PostLigOperation) -> i64 {
    FORMS.iter().position(|f| *f == p).unwrap() as i64
}

#[derive(Clone, Debug, PartialEq)]
struct Prog {
    rb: i64,
    lb: i64,
    entries: Vec<(i64, i64)>,
    kerns: Vec<i64>,
    instrs: Vec<[i64; 5]>,
}

impl Prog {
    fn enc(&self) -> Vec<i64> {
        let mut v = vec![self.rb, self.lb, self.entries.len() as i64];
        for (c, e) in &self.entries {
            v.extend([*c, *e]);
        }
        v.push(self.kerns.len() as i64);
        v.extend(&self.kerns);
        v.push(self.instrs.len() as i64);
        for i in &self.instrs {
            v.extend(i);
        }
        v
    }
    fn dec(v: &[i64]) -> Prog {
        let mut i = 0;
        let mut next = || {
            let x = v[i];
            i += 1;
            x
        };
        let rb = next();
        let lb = next();
        let ne = next();
        let entries = (0..ne).map(|_| (next(), next())).collect();
        let nk = next();
        let kerns = (0..nk).map(|_| next()).collect();
        let ni = next();
        let instrs = (0..ni).map(|_| [next(), next(), next(), next(), next()]).collect();
        Prog { rb, lb, entries, kerns, instrs }
    }
    fn from_real(p: &Program, entries: &HashMap<Char, u16>, kerns: &[FixWord]) -> Prog {
        let mut es: Vec<(i64, i64)> = entries.iter().map(|(c, e)| (c.0 as i64, *e as i64)).collect();
        es.sort();
        Prog {
            rb: p.right_boundary_char.map(|c| c.0 as i64).unwrap_or(-1),
            lb: p.left_boundary_char_entrypoint.map(|e| e as i64).unwrap_or(-1),
            entries: es,
            kerns: kerns.iter().map(|k| k.0 as i64).collect(),
            instrs: p
                .instructions
                .iter()
                .map(|i| {
                    let nx = i.next_instruction.map(|n| n as i64).unwrap_or(-1);
                    let r = i.right_char.0 as i64;
                    match i.operation {
                        Operation::Kern(k) => [nx, r, 0, k.0 as i64, 0],
                        Operation::KernAtIndex(x) => [nx, r, 1, x as i64, 0],
                        Operation::Ligature { char_to_insert, post_lig_operation, .. } => {
                            [nx, r, 2, char_to_insert.0 as i64, form_code(post_lig_operation)]
                        }
                        Operation::EntrypointRedirect(u, b) => [nx, r, 3, u as i64, b as i64],
                    }
                })
                .collect(),
        }
    }
    fn to_real(&self) -> (Program, HashMap<Char, u16>, Vec<FixWord>) {
        let instructions = self
            .instrs
            .iter()
            .map(|i| Instruction {
                next_instruction: if i[0] < 0 { None } else { Some(i[0] as u8) },
                right_char: Char(i[1] as u8),
                operation: match i[2] {
                    0 => Operation::Kern(FixWord(i[3] as i32)),
                    1 => Operation::KernAtIndex(i[3] as u16),
                    2 => Operation::Ligature {
                        char_to_insert: Char(i[3] as u8),
                        post_lig_operation: FORMS[i[4] as usize],
                        post_lig_tag_invalid: false,
                    },
                    _ => Operation::EntrypointRedirect(i[3] as u16, i[4] != 0),
                },
            })
            .collect();
        let p = Program {
            instructions,
            left_boundary_char_entrypoint: if self.lb < 0 { None } else { Some(self.lb as u16) },
            right_boundary_char: if self.rb < 0 { None } else { Some(Char(self.rb as u8)) },
            passthrough: Default::default(),
        };
        let e = self.entries.iter().map(|(c, e)| (Char(*c as u8), *e as u16)).collect();
        let k = self.kerns.iter().map(|k| FixWord(*k as i32)).collect();
        (p, e, k)
    }
    /// The program as Lean sees it: kern payloads scaled by the real `to_scaled`.
    fn enc_scaled(&self, ds: FixWord) -> Result<Vec<i64>, String> {
        let mut q = self.clone();
        caught(|| {
            for k in q.kerns.iter_mut() {
                *k = FixWord(*k as i32).to_scaled(ds).0 as i64;
            }
            for i in q.instrs.iter_mut() {
                if i[2] == 0 {
                    i[3] = FixWord(i[3] as i32).to_scaled(ds).0 as i64;
                }
            }
        })?;
        Ok(q.enc())
    }
}

fn design_size() -> FixWord {
    FixWord::ONE * 10
}

#[derive(Clone, Debug)]
enum WordSet {
    List(Vec<Vec<i64>>),
    All(usize, Vec<i64>),
}

impl WordSet {
    fn enc(&self) -> String {
        match self {
            WordSet::List(ws) => ws
                .iter()
                .map(|w| format!("0 {} {}", w.len(), join(w)).trim_end().to_string())
                .collect::<Vec<_>>()
                .join(" | "),
            WordSet::All(n, cs) => format!("1 {} {} {}", n, cs.len(), join(cs)),
        }
    }
    fn dec(parts: &[&str]) -> WordSet {
        let first = parse_i64s(parts[0]);
        if first[0] == 1 {
            let n = first[1] as usize;
            let k = first[2] as usize;
            return WordSet::All(n, first[3..3 + k].to_vec());
        }
        WordSet::List(
            parts
                .iter()
                .map(|p| {
                    let v = parse_i64s(p);
                    v[2..2 + v[1] as usize].to_vec()
                })
                .collect(),
        )
    }
    fn words(&self) -> Vec<Vec<i64>> {
        match self {
            WordSet::List(ws) => ws.clone(),
            WordSet::All(n, cs) => {
                let mut out: Vec<Vec<i64>> = vec![];
                let mut layer: Vec<Vec<i64>> = vec![vec![]];
                for _ in 0..*n {
                    let mut nl = vec![];
                    for w in &layer {
                        for c in cs {
                            let mut x = w.clone();
                            x.push(*c);
                            nl.push(x);
                        }
                    }
                    out.extend(nl.iter().cloned());
                    layer = nl;
                }
                out
            }
        }
    }
}

fn word_string(w: &[i64]) -> String {
    w.iter().map(|c| char::from_u32(*c as u32).unwrap_or('?')).collect()
}

fn enc_items(items: &[RunItem]) -> Vec<i64> {
    let mut v = vec![items.len() as i64];
    for it in items {
        match it {
            RunItem::Char(c) => v.extend([0, *c as i64]),
            RunItem::Kern(k) => v.extend([1, k.0 as i64]),
            RunItem::Ligature(l) => {
                v.extend([2, l.c as i64, l.includes_left_boundary as i64, l.includes_right_boundary as i64]);
                let o: Vec<i64> = l.original.chars().map(|c| c as i64).collect();
                v.push(o.len() as i64);
                v.extend(o);
            }
        }
    }
    v
}

fn show_pairs(s: &BTreeSet<(i64, i64)>) -> String {
    s.iter().map(|(l, r)| format!("({l},{r})")).collect::<Vec<_>>().join(" ")
}

/// `RunOptions` of a run: `disable_left_boundary`, `right_boundary_override` (-1 = none).
#[derive(Clone, Copy, PartialEq)]
struct Opt {
    no_lb: bool,
    ov: i64,
    /// a very large program: the driver evaluates only the pairs the words use (`runsz`)
    big: bool,
}
const DEFAULT: Opt = Opt { no_lb: false, ov: -1, big: false };

struct C05 {
    fonts: Vec<String>,
    repo: String,
    /// the last `tab` request and its reply (several paths of one case share the program)
    tab_cache: Option<(String, String)>,
    time_by_stream: std::collections::BTreeMap<String, (u64, f64)>,
    thorough: bool,
}

struct TabReply {
    /// ruled pairs → resolved?
    pairs: Vec<((i64, i64), bool)>,
    spec_loops: Vec<i64>,
    knuth: Vec<(i64, i64)>,
    /// pairs whose first matching instruction is a redirect word
    phantom: i64,
}

fn parse_tab(reply: &str) -> TabReply {
    let parts: Vec<&str> = reply.split('|').collect();
    if parts.len() != 4 {
        panic!("driver reply malformed: {reply}");
    }
    let v = parse_i64s(parts[0]);
    let mut pairs = vec![];
    let mut i = 0;
    while i < v.len() {
        let (l, r, ok) = (v[i], v[i + 1], v[i + 2]);
        i += 3;
        if ok == 1 {
            let n = v[i];
            i += 1;
            for _ in 0..n {
                i += if v[i] == 0 { 2 } else { 3 };
            }
            i += 2;
        }
        pairs.push(((l, r), ok == 1));
    }
    let k = parse_i64s(parts[2]);
    TabReply {
        pairs,
        spec_loops: parse_i64s(parts[1]),
        knuth: k.chunks(2).map(|c| (c[0], c[1])).collect(),
        phantom: parse_i64s(parts[3])[0],
    }
}

/// Features of a program, for tags and defect signatures.
fn features(p: &Prog) -> Vec<String> {
    let mut t = BTreeSet::new();
    for i in &p.instrs {
        match i[2] {
            0 => t.insert("op:kern".to_string()),
            1 => t.insert("op:kern-at-index".to_string()),
            2 => t.insert(format!("op:{}", FORM_NAMES[i[4] as usize])),
            _ => t.insert("op:redirect".to_string()),
        };
        if i[0] > 0 {
            t.insert("chain:skip>0".into());
        }
        if i[0] == 0 {
            t.insert("chain:skip0".into());
        }
        if i[0] < 0 {
            t.insert("chain:stop".into());
        }
    }
    if p.lb >= 0 {
        t.insert("left-boundary-entry".into());
    }
    if p.rb >= 0 {
        t.insert("right-boundary-char".into());
    }
    t.into_iter().collect()
}

impl C05 {
    #[allow(clippy::too_many_arguments)]
    fn compare(
        &mut self,
        stream: &str,
        model_prog: &Prog,
        compiled: &CompiledProgram,
        errors: &[tfm::ligkern::InfiniteLoopError],
        words: &[Vec<i64>],
        drv: &mut Driver,
        out: &mut CaseOutcome,
        penc: &str,
        marker: &str,
        opt: Opt,
    ) -> Option<(bool, String)> {
        for f in features(model_prog) {
            out.tag(f);
        }
        // ---- the table: which pairs resolve, loop reports ----
        let reply = match &self.tab_cache {
            Some((k, v)) if k == penc => v.clone(),
            _ => {
                let v = drv.ask(&format!("tab {penc}"));
                self.tab_cache = Some((penc.to_string(), v.clone()));
                v
            }
        };
        let tab = parse_tab(&reply);
        // A redirect word that a SKIP chain runs into is outside the property's quantifier
        // (TeX never executes it); before fix C05-a the compiler executed it as a "phantom"
        // instruction. Every comparison on such a program carries the marker.
        let ph = if tab.phantom > 0 {
            out.tag("phantom:redirect-word-reached-in-a-chain");
            " [phantom]"
        } else {
            marker
        };
        let i_keys: BTreeSet<(i64, i64)> = compiled
            .all_pairs_with_replacements()
            .into_iter()
            .map(|(l, r)| (l.map(|c| c.0 as i64).unwrap_or(-1), r.0 as i64))
            .collect();
        let m_keys: BTreeSet<(i64, i64)> = tab.pairs.iter().filter(|(_, ok)| *ok).map(|(p, _)| *p).collect();
        let m_loop: BTreeSet<(i64, i64)> = tab.pairs.iter().filter(|(_, ok)| !*ok).map(|(p, _)| *p).collect();
        if i_keys != m_keys {
            out.fail(
                Kind::ImplVsModel,
                stream,
                format!("table: resolved pairs differ{ph}"),
                format!("impl: {}\nmodel: {}\nmodel loops: {}", show_pairs(&i_keys), show_pairs(&m_keys), show_pairs(&m_loop)),
            );
        }
        // S, pair by pair: a ruled pair is unresolved iff its instructions never terminate
        let mut s_loop: BTreeSet<(i64, i64)> = BTreeSet::new();
        let mut undecided = false;
        for (k, (pr, _)) in tab.pairs.iter().enumerate() {
            match tab.spec_loops[k] {
                1 => {
                    s_loop.insert(*pr);
                }
                2 => undecided = true,
                _ => {}
            }
        }
        if undecided {
            out.tag("loop:spec-undecided(font too large for the state bound)");
        } else {
            let i_loop: BTreeSet<(i64, i64)> = tab.pairs.iter().map(|(p, _)| *p).filter(|p| !i_keys.contains(p)).collect();
            if i_loop != s_loop {
                out.fail(
                    Kind::ImplVsSpec,
                    stream,
                    format!("loop set: unresolved pairs differ from the pairs that never terminate{ph}"),
                    format!("impl unresolved: {}\nspec never terminates: {}", show_pairs(&i_loop), show_pairs(&s_loop)),
                );
            }
            if errors.is_empty() != s_loop.is_empty() {
                out.fail(
                    Kind::ImplVsSpec,
                    stream,
                    format!("loop report: {}{ph}", if errors.is_empty() { "missing" } else { "spurious" }),
                    format!("errors: {errors:?}\nspec never terminates: {}", show_pairs(&s_loop)),
                );
            }
            if m_loop != s_loop {
                out.fail(Kind::ModelVsSpec, stream, "loop set", format!("model: {}\nspec: {}", show_pairs(&m_loop), show_pairs(&s_loop)));
            }
        }
        let i_rep: Vec<(i64, i64)> =
            errors.iter().map(|e| (e.starting_pair.0.map(|c| c.0 as i64).unwrap_or(-1), e.starting_pair.1 .0 as i64)).collect();
        if i_rep != tab.knuth {
            out.fail(
                Kind::ImplVsModel,
                stream,
                format!("loop report: representative pairs differ{ph}"),
                format!("impl: {i_rep:?}\nmodel: {:?}", tab.knuth),
            );
        }
        if !m_loop.is_empty() {
            out.tag("loop:some-pair-loops");
            out.tag(format!("loop:reports={}", i_rep.len().min(3)));
        } else {
            out.tag("loop:acyclic");
        }
        // ---- running words ----
        let mut real: Vec<Vec<i64>> = vec![];
        for w in words {
            let s = word_string(w);
            let items = match caught(|| {
                if opt != DEFAULT {
                    let o = tfm::ligkern::RunOptions {
                        disable_left_boundary: opt.no_lb,
                        right_boundary_override: if opt.ov < 0 { None } else { char::from_u32(opt.ov as u32) },
                    };
                    compiled.run_with_options(s.chars(), o).take(MAX_ITEMS).collect::<Vec<RunItem>>()
                } else {
                    compiled.run(&s).take(MAX_ITEMS).collect::<Vec<RunItem>>()
                }
            }) {
                Ok(i) => i,
                Err(p) => {
                    out.fail(Kind::ImplPanic, stream, format!("panic {}", strip_msg(&p)), format!("run({s:?}) panicked: {p}"));
                    return None;
                }
            };
            if items.len() >= MAX_ITEMS {
                // the iterator is supposed to be finite: a word of n characters yields at most
                // n replacements; do not let a runaway iterator eat the machine
                out.fail(
                    Kind::ImplVsSpec,
                    stream,
                    "run: iterator does not terminate",
                    format!("run({s:?}) produced more than {MAX_ITEMS} items"),
                );
                return None;
            }
            let e = enc_items(&items);
            for it in &items {
                match it {
                    RunItem::Char(_) => {}
                    RunItem::Kern(_) => out.tag("item:kern"),
                    RunItem::Ligature(l) => {
                        out.tag("item:ligature");
                        if l.includes_left_boundary {
                            out.tag("item:ligature-with-left-boundary");
                        }
                        if l.includes_right_boundary {
                            out.tag("item:ligature-with-right-boundary");
                        }
                        if l.original.chars().count() >= 3 {
                            out.tag("item:ligature-of-3+");
                        }
                        if l.original.is_empty() {
                            out.tag("item:ligature-of-0");
                        }
                    }
                }
            }
            real.push(e);
        }
        out.tags.sort();
        out.tags.dedup();
        let acyclic = m_loop.is_empty();
        self.judge(stream, "run", penc, words, &real, acyclic, ph, opt, drv, out);
        Some((acyclic, ph.to_string()))
    }

    /// Ask Lean about the real output of every word (`real[k]` = encoded items of `words[k]`)
    /// and report: items vs M, glyph sequence vs `interp`, originals vs the word.
    #[allow(clippy::too_many_arguments)]
    fn judge(
        &mut self,
        stream: &str,
        what: &str,
        penc: &str,
        words: &[Vec<i64>],
        real: &[Vec<i64>],
        acyclic: bool,
        ph: &str,
        opt: Opt,
        drv: &mut Driver,
        out: &mut CaseOutcome,
    ) {
        if words.is_empty() {
            return;
        }
        let mut req = if opt.big { format!("runsz {penc}") } else { format!("runsx {} {} {penc}", opt.no_lb as i64, opt.ov) };
        for (w, e) in words.iter().zip(real) {
            req.push_str(&format!(" | {} {} | {}", w.len(), join(w), join(e)));
        }
        let reply = drv.ask(&req);
        let verdicts: Vec<&str> = reply.split_ascii_whitespace().collect();
        if verdicts.len() != words.len() {
            panic!("driver reply malformed ({} verdicts for {} words): {}", verdicts.len(), words.len(), trunc(&reply));
        }
        let mut reported = [false; 5];
        for (k, v) in verdicts.iter().enumerate() {
            let code: i64 = v.parse().unwrap_or_else(|_| panic!("bad verdict {v}"));
            let (m, g, s, t) = (code / 1000, code / 100 % 10, code / 10 % 10, code % 10);
            if m == 1 && (g == 1 || !acyclic) && s == 1 && (t == 1 || !acyclic) {
                continue;
            }
            let w = &words[k];
            let detail = || {
                let r = format!("runx {} {} {penc} | {} {} | {}", opt.no_lb as i64, opt.ov, w.len(), join(w), join(&real[k]));
                r
            };
            if m != 1 && !reported[0] {
                reported[0] = true;
                let d = drv.ask(&detail());
                out.fail(
                    Kind::ImplVsModel,
                    stream,
                    format!("{what}: items differ{ph}"),
                    format!("word {:?}\nimpl items: {}\ndriver (mgs | model items | spec glyphs): {d}", word_string(w), join(&real[k])),
                );
            }
            // S is defined for programs whose every pair terminates (the property's compiled
            // program exists only then); with loops present only words avoiding them are judged.
            if g == 0 && !reported[1] {
                reported[1] = true;
                let d = drv.ask(&detail());
                out.fail(
                    Kind::ImplVsSpec,
                    stream,
                    format!("{what}: glyph sequence differs from direct interpretation{}{ph}", if acyclic { "" } else { " (program has loops)" }),
                    format!("word {:?}\nimpl items: {}\ndriver (mgs | model items | spec glyphs): {d}", word_string(w), join(&real[k])),
                );
            }
            if g == 2 && acyclic && !reported[2] {
                reported[2] = true;
                out.fail(Kind::ModelVsSpec, stream, format!("{what}: interp out of fuel on an acyclic program"), format!("word {:?}", word_string(w)));
            }
            // which nodes are ligature nodes: TeX types exactly the inserted characters so
            if t == 0 && g != 0 && !reported[4] {
                reported[4] = true;
                let d = drv.ask(&detail());
                out.fail(
                    Kind::ImplVsSpec,
                    stream,
                    format!("{what}: character / ligature node types differ from direct interpretation{}{ph}", if acyclic { "" } else { " (program has loops)" }),
                    format!("word {:?}\nimpl items: {}\ndriver (mgst | model items | spec glyphs): {d}", word_string(w), join(&real[k])),
                );
            }
            if s != 1 && !reported[3] {
                reported[3] = true;
                let d = drv.ask(&detail());
                out.fail(
                    Kind::ImplVsSpec,
                    stream,
                    format!("{what}: originals do not spell the word{ph}"),
                    format!("word {:?}\nimpl items: {}\ndriver (mgs | model items | spec glyphs): {d}", word_string(w), join(&real[k])),
                );
            }
        }
    }

    /// The call site that runs compiled programs over words: the real
    /// `boxworks_text::TextPreprocessorImpl` (`add_text` → `add_word` / `add_space`), with the
    /// font registered from `file` and `cp`. The horizontal list is cut at the glue items
    /// into one segment per word; every segment must be what `run(word)` is specified to be
    /// (M: items; S: glyph sequence of `interp` on `[LB] w [RB?]`, spelling).
    #[allow(clippy::too_many_arguments)]
    fn text_check(
        &mut self,
        stream: &str,
        penc: &str,
        file: &tfm::File,
        cp: &CompiledProgram,
        texts: &[String],
        acyclic: bool,
        ph: &str,
        drv: &mut Driver,
        out: &mut CaseOutcome,
    ) {
        use boxworks::ds;
        use boxworks::TextPreprocessor;
        let tp = caught(|| {
            let mut tp = boxworks_text::TextPreprocessorImpl::new(boxworks_text::Params::plain_tex_defaults());
            tp.register_font(0, file, cp.clone());
            tp
        });
        let mut tp = match tp {
            Ok(tp) => tp,
            Err(_) => {
                // register_font unwraps the SPACE/STRETCH/SHRINK/EXTRASPACE parameters
                out.tag("text:skipped(font lacks the space parameters)");
                return;
            }
        };
        let mut all_words: Vec<Vec<i64>> = vec![];
        let mut all_real: Vec<Vec<i64>> = vec![];
        let mut n_whole = 0;
        for text in texts {
            let mut list: Vec<ds::Horizontal> = vec![];
            if let Err(p) = caught(|| tp.add_text(text, &mut list)) {
                out.fail(Kind::ImplPanic, stream, format!("panic {}", strip_msg(&p)), format!("add_text({text:?}) panicked: {p}"));
                return;
            }
            if stream == "text" || n_whole < 6 {
                n_whole += 1;
                compare_nodes("txt", 0, penc, text, &list, stream, drv, out);
            }
            match cut_segments(&list, text, 0, out) {
                Err((sig, d)) => out.fail(Kind::ImplVsSpec, stream, sig, d),
                Ok((words, real)) => {
                    all_words.extend(words);
                    all_real.extend(real);
                }
            }
        }
        // one request for all texts (the driver rebuilds the font's table per request)
        self.judge(stream, "text", penc, &all_words, &all_real, acyclic, ph, DEFAULT, drv, out);
        out.tags.sort();
        out.tags.dedup();
    }
}

/// Cut the horizontal list produced for `text` while font `font` was active at the glue
/// items: one encoded item list (`n item*`, as `enc_items`) per word of the text. Every
/// character and ligature node must carry the active font's id; kerns must be font kerns; an
/// empty discretionary is accepted only directly after a hyphen (TeX.2021.1035).
#[allow(clippy::type_complexity)]
fn cut_segments(
    list: &[boxworks::ds::Horizontal],
    text: &str,
    font: u32,
    out: &mut CaseOutcome,
) -> Result<(Vec<Vec<i64>>, Vec<Vec<i64>>), (String, String)> {
    use boxworks::ds;
    let words: Vec<Vec<i64>> = text.split_ascii_whitespace().map(|w| w.chars().map(|c| c as i64).collect()).collect();
    let mut segs: Vec<Vec<i64>> = vec![vec![]];
    let mut counts: Vec<i64> = vec![0];
    let mut prev_hyphen = false;
    let mut bad: Option<(String, String)> = None;
    let wrong_font = |f: u32| {
        (
            "text: node carries the id of a font that is not the active one".to_string(),
            format!("text {text:?}: active font {font}, node font {f}"),
        )
    };
    for h in list {
        match h {
            ds::Horizontal::Glue(_) => {
                segs.push(vec![]);
                counts.push(0);
                prev_hyphen = false;
                continue;
            }
            ds::Horizontal::Char(c) => {
                segs.last_mut().unwrap().extend([0, c.char as i64]);
                *counts.last_mut().unwrap() += 1;
                prev_hyphen = c.char == '-';
                if c.font != font {
                    bad = Some(wrong_font(c.font));
                }
            }
            ds::Horizontal::Kern(k) => {
                out.tag("text:kern");
                segs.last_mut().unwrap().extend([1, k.width.0 as i64]);
                *counts.last_mut().unwrap() += 1;
                prev_hyphen = false;
                if k.kind != ds::KernKind::Normal {
                    bad = Some(("text: item that no lig/kern program produces".into(), format!("text {text:?}: kern of kind {:?}", k.kind)));
                }
            }
            ds::Horizontal::Ligature(l) => {
                let o: Vec<i64> = l.original_chars.chars().map(|c| c as i64).collect();
                let seg = segs.last_mut().unwrap();
                seg.extend([2, l.char as i64, l.includes_left_boundary as i64, l.includes_right_boundary as i64, o.len() as i64]);
                seg.extend(&o);
                *counts.last_mut().unwrap() += 1;
                prev_hyphen = l.original_chars.ends_with('-');
                out.tag("text:ligature");
                if l.includes_left_boundary {
                    out.tag("text:ligature-with-left-boundary");
                }
                if l.includes_right_boundary {
                    out.tag("text:ligature-with-right-boundary");
                }
                if l.font != font {
                    bad = Some(wrong_font(l.font));
                }
            }
            ds::Horizontal::Discretionary(_) if prev_hyphen => {
                prev_hyphen = false;
                out.tag("text:discretionary-after-hyphen");
            }
            other => bad = Some(("text: item that no lig/kern program produces".into(), format!("text {text:?}: unexpected item {other:?}"))),
        }
    }
    if let Some(b) = bad {
        return Err(b);
    }
    let seg_err = |d: String| Err(("text: word segmentation differs".to_string(), d));
    let leading = text.chars().next().map(|c| c.is_ascii_whitespace()).unwrap_or(false);
    if leading && !words.is_empty() {
        if !segs[0].is_empty() {
            return seg_err(format!("text {text:?}: material before the first space"));
        }
        segs.remove(0);
        counts.remove(0);
    }
    if words.is_empty() {
        segs.retain(|s| !s.is_empty());
        counts.clear();
    }
    if segs.len() != words.len() {
        return seg_err(format!("text {text:?}: {} words, {} glue-separated segments", words.len(), segs.len()));
    }
    let real: Vec<Vec<i64>> = segs
        .iter()
        .zip(&counts)
        .map(|(s, n)| {
            let mut v = vec![*n];
            v.extend(s);
            v
        })
        .collect();
    for w in &words {
        out.tag(format!("text:word-len={}", w.len().min(4)));
    }
    if leading {
        out.tag("text:leading-space");
    }
    if text.ends_with(' ') {
        out.tag("text:trailing-space");
    }
    Ok((words, real))
}

/// The lig/kern part of a TFM file as raw data: the `nl` four-byte words, for every character
/// whose `char_info` tag is 1 its remainder, and the kerns (raw fix words). Only byte slicing
/// by the lengths of the preamble (TFtoPL.2014 par.8-11); `None` if they do not add up.
struct RawTfm {
    words: Vec<[u8; 4]>,
    tags: Vec<(i64, i64)>,
    kerns: Vec<i64>,
}

fn slice_tfm(b: &[u8]) -> Option<RawTfm> {
    if b.len() < 24 {
        return None;
    }
    let h = |i: usize| u16::from_be_bytes([b[2 * i], b[2 * i + 1]]) as usize;
    let (lf, lh, bc, ec, nw, nh, nd, ni, nl, nk, ne, np) = (h(0), h(1), h(2), h(3), h(4), h(5), h(6), h(7), h(8), h(9), h(10), h(11));
    let nc = if bc > ec { 0 } else { ec - bc + 1 };
    if lf * 4 != b.len() || lf != 6 + lh + nc + nw + nh + nd + ni + nl + nk + ne + np {
        return None;
    }
    let ci = 24 + 4 * lh;
    let lk = ci + 4 * (nc + nw + nh + nd + ni);
    let kn = lk + 4 * nl;
    let word = |at: usize| [b[at], b[at + 1], b[at + 2], b[at + 3]];
    let mut r = RawTfm { words: (0..nl).map(|i| word(lk + 4 * i)).collect(), tags: vec![], kerns: vec![] };
    for i in 0..nk {
        r.kerns.push(i32::from_be_bytes(word(kn + 4 * i)) as i64);
    }
    for i in 0..nc {
        let [_, _, t, rem] = word(ci + 4 * i);
        if t % 4 == 1 {
            r.tags.push(((bc + i) as i64, rem as i64));
        }
    }
    Some(r)
}

/// The request that asks the Lean model (`decodeFont`, under theorem `raw_rule`) for the
/// program in these raw words.
fn dec_request(r: &RawTfm) -> String {
    let mut v: Vec<i64> = vec![r.words.len() as i64];
    for w in &r.words {
        v.extend(w.iter().map(|x| *x as i64));
    }
    v.push(r.tags.len() as i64);
    for (c, e) in &r.tags {
        v.extend([*c, *e]);
    }
    v.push(r.kerns.len() as i64);
    v.extend(&r.kerns);
    format!("dec {}", join(&v))
}

/// The harness's own (second, independent) reading of the raw words, kept as a cross-check of
/// the Lean decoder (TFtoPL.2014 par.8-13, TeX82 par.540-545).
fn decode_raw(raw: &RawTfm) -> Prog {
    let nl = raw.words.len();
    let mut p = Prog { rb: -1, lb: -1, entries: vec![], kerns: raw.kerns.clone(), instrs: vec![] };
    for w in &raw.words {
        let [skip, next_char, op, rem] = *w;
        let (skip, r, op, rem) = (skip as i64, next_char as i64, op as i64, rem as i64);
        if skip > 128 {
            p.instrs.push([-1, r, 3, op * 256 + rem, 1]);
            continue;
        }
        let next = if skip < 128 { skip } else { -1 };
        if op >= 128 {
            p.instrs.push([next, r, 1, (op - 128) * 256 + rem, 0]);
        } else {
            let form = match (op / 2 % 2, op % 2, op / 4) {
                (1, 1, 0) => 0, // |=:|
                (1, 1, 1) => 1, // |=:|>
                (1, 1, 2) => 2, // |=:|>>
                (0, 1, 0) => 3, // =:|
                (0, 1, 1) => 4, // =:|>
                (1, 0, 0) => 5, // |=:
                (1, 0, 1) => 6, // |=:>
                _ => 7,         // =: (and nonstandard codes, TFtoPL par.77)
            };
            p.instrs.push([next, r, 2, rem, form]);
        }
    }
    if nl > 0 {
        let [skip, c, _, _] = raw.words[0];
        if skip == 255 {
            p.rb = c as i64;
        }
        let [skip, _, op, rem] = raw.words[nl - 1];
        if skip == 255 {
            p.lb = op as i64 * 256 + rem as i64;
        }
    }
    for (c, e) in &raw.tags {
        let e = *e as usize;
        if e >= nl {
            continue;
        }
        let [skip, _, op, r2] = raw.words[e];
        let e = if skip > 128 { op as usize * 256 + r2 as usize } else { e };
        if e < nl {
            p.entries.push((*c, e as i64));
        }
    }
    p.entries.sort();
    p
}

/// Compare the program the crate read from `bytes` (`q`, from the deserialised file) with the
/// Lean model's decoding of the raw words (I vs M; the model is under `raw_rule`) and with
/// the harness's own decoding; returns the program M and S are to be evaluated on.
fn check_raw_decode(bytes: &[u8], q: &Prog, what: &str, drv: &mut Driver, out: &mut CaseOutcome) -> Prog {
    let Some(raw) = slice_tfm(bytes) else {
        out.tag("font:preamble-lengths-inconsistent(raw decoding skipped)");
        return q.clone();
    };
    out.tag("font:raw-lig/kern-words-decoded-by-the-model");
    if raw.words.len() > 255 {
        out.tag("font:raw-more-than-255-words");
    }
    if raw.words.iter().any(|w| w[0] > 128) {
        out.tag("font:raw-redirect-or-boundary-words");
    }
    let reply = drv.ask(&dec_request(&raw));
    let (pm, agree) = reply.split_once('|').unwrap_or_else(|| panic!("driver reply malformed: {}", trunc(&reply)));
    let m = Prog::dec(&parse_i64s(pm));
    let mut m_sorted = m.clone();
    m_sorted.entries.sort();
    let diff = |d: &Prog| {
        if d.instrs != q.instrs {
            let i = d.instrs.iter().zip(&q.instrs).position(|(a, b)| a != b).unwrap_or(d.instrs.len().min(q.instrs.len()));
            format!("instruction {i}: raw {:?}, read {:?}", d.instrs.get(i), q.instrs.get(i))
        } else if d.rb != q.rb || d.lb != q.lb {
            format!("boundary char / left-boundary entry: raw {} {}, read {} {}", d.rb, d.lb, q.rb, q.lb)
        } else if d.kerns != q.kerns {
            "kerns differ".to_string()
        } else {
            format!("entry points: raw {:?}, read {:?}", d.entries, q.entries)
        }
    };
    if agree.trim() != "1" {
        out.fail(Kind::ModelVsSpec, "font", "font: decoded program and TeX's reading of the raw words give different commands", what.to_string());
    }
    let d = decode_raw(&raw);
    if d != m_sorted {
        out.fail(Kind::ModelVsSpec, "font", "font: model and harness decode the raw words differently", format!("{what}: {}", diff(&d)));
    }
    if m_sorted != *q {
        out.fail(
            Kind::ImplVsSpec,
            "font",
            "font: lig/kern program read from the TFM file differs from its raw words",
            format!("{what}: {}", diff(&m_sorted)),
        );
        return m_sorted;
    }
    q.clone()
}

/// A horizontal list in the driver's node encoding (`txt` / `txw` replies): characters and
/// ligatures with their font, font kerns, empty discretionaries, glue (amount not compared: C12).
fn enc_nodes(list: &[boxworks::ds::Horizontal]) -> Result<Vec<i64>, String> {
    use boxworks::ds;
    let mut v = vec![];
    for h in list {
        match h {
            ds::Horizontal::Char(c) => v.extend([0, c.char as i64, c.font as i64]),
            ds::Horizontal::Kern(k) if k.kind == ds::KernKind::Normal => v.extend([1, k.width.0 as i64]),
            ds::Horizontal::Ligature(l) => {
                let o: Vec<i64> = l.original_chars.chars().map(|c| c as i64).collect();
                v.extend([2, l.char as i64, l.font as i64, l.includes_left_boundary as i64, l.includes_right_boundary as i64, o.len() as i64]);
                v.extend(o);
            }
            ds::Horizontal::Discretionary(d) if d.pre_break.is_empty() && d.post_break.is_empty() && d.replace_count == 0 => v.push(3),
            ds::Horizontal::Glue(_) => v.push(4),
            other => return Err(format!("{other:?}")),
        }
    }
    Ok(v)
}

/// I vs M on the whole list: the model's `addText` / `addWord` (under `add_text_cut`,
/// `add_word_sem`) against what the real preprocessor appended.
fn compare_nodes(req: &str, font: usize, penc: &str, text: &str, list: &[boxworks::ds::Horizontal], stream: &str, drv: &mut Driver, out: &mut CaseOutcome) {
    let Ok(real) = enc_nodes(list) else { return }; // reported by cut_segments
    let t: Vec<i64> = text.chars().map(|c| c as i64).collect();
    let m = drv.ask(&format!("{req} {font} {penc} | {} {}", t.len(), join(&t)));
    if m.trim() != join(&real) {
        out.fail(
            Kind::ImplVsModel,
            stream,
            format!("text: horizontal list differs from the model's {}", if req == "txt" { "add_text" } else { "add_word" }),
            format!("text {text:?} font {font}\nimpl:  {}\nmodel: {}", join(&real), m.trim()),
        );
    }
}

fn trunc(s: &str) -> String {
    s.chars().take(300).collect()
}

// ------------------------------------------------------------------------------------------
// generators
// ------------------------------------------------------------------------------------------

const A: i64 = 97;
/// No word of the generators (≤ 10 characters, replacements of a handful of ops) comes near this.
const MAX_ITEMS: usize = 20_000;

/// A rule over the small alphabet: (left: -1 | a b c, right, kind, x, y).
type Rule = (i64, i64, i64, i64, i64);

fn small_ops() -> Vec<(i64, i64, i64)> {
    let mut v = vec![(0, 1 << 20, 0)];
    for f in 0..8 {
        for z in 0..3 {
            v.push((2, A + z, f));
        }
    }
    v
}

fn small_rules() -> Vec<Rule> {
    let mut v = vec![];
    for l in [-1, A, A + 1, A + 2] {
        for r in [A, A + 1, A + 2] {
            for (k, x, y) in small_ops() {
                v.push((l, r, k, x, y));
            }
        }
    }
    v
}

/// Lay rules out the way `Program::parse_compact` does: grouped by left character, chained
/// with SKIP 0, the last of each group a STOP.
fn prog_of_rules(rules: &[Rule], rb: i64) -> Prog {
    let mut p = Prog { rb, lb: -1, entries: vec![], kerns: vec![], instrs: vec![] };
    let mut lefts: Vec<i64> = rules.iter().map(|r| r.0).collect();
    lefts.sort();
    lefts.dedup();
    for l in lefts {
        let at = p.instrs.len() as i64;
        if l < 0 {
            p.lb = at;
        } else {
            p.entries.push((l, at));
        }
        for r in rules.iter().filter(|r| r.0 == l) {
            p.instrs.push([0, r.1, r.2, r.3, r.4]);
        }
        p.instrs.last_mut().unwrap()[0] = -1;
    }
    p
}

fn random_prog(rng: &mut Rng) -> Prog {
    let k = 2 + rng.below(4) as i64; // alphabet size 2..5
    let letter = |rng: &mut Rng| A + rng.below(k as u64) as i64;
    let n = 1 + rng.below(12) as usize;
    let nk = rng.below(3) as usize;
    let kerns: Vec<i64> = (0..nk).map(|_| *rng.pick(&[0i64, 1 << 20, -(1 << 19), 3, -1])).collect();
    let rb = match rng.below(4) {
        0 => -1,
        1 => 124, // a character that never occurs in words
        _ => letter(rng),
    };
    let mut instrs = vec![];
    for _ in 0..n {
        let next = match rng.below(10) {
            0..=3 => 0,
            4..=6 => -1,
            7 => 1,
            8 => 2,
            _ => rng.below(5) as i64,
        };
        let right = if rb >= 0 && rng.chance(1, 5) { rb } else { letter(rng) };
        let (kind, x, y) = match rng.below(40) {
            0..=5 => (0, *rng.pick(&[0i64, 1 << 20, -(1 << 19), 7]), 0),
            6..=7 => (1, rng.below(4) as i64, 0),
            8 => (3, *rng.pick(&[0i64, 1, 97, 98, 256 + 97, 5 * 256 + 98, 128 * 256, 128 * 256 + 1, 11 * 256 + 97, 600]), 1),
            _ => (2, letter(rng), rng.below(8) as i64),
        };
        instrs.push([next, right, kind, x, y]);
    }
    let mut entries = vec![];
    for c in 0..k {
        if rng.chance(3, 4) {
            let e = if rng.chance(1, 25) { n as i64 + rng.below(3) as i64 } else { rng.below(n as u64) as i64 };
            entries.push((A + c, e));
        }
    }
    let lb = if rng.chance(1, 2) { rng.below(n as u64) as i64 } else { -1 };
    Prog { rb, lb, entries, kerns, instrs }
}

fn random_words(rng: &mut Rng, p: &Prog, n: usize, maxlen: u64) -> Vec<Vec<i64>> {
    let mut alpha: Vec<i64> = p.entries.iter().map(|e| e.0).collect();
    alpha.extend(p.instrs.iter().map(|i| i[1]));
    alpha.extend(p.instrs.iter().filter(|i| i[2] == 2).map(|i| i[3]));
    alpha.sort();
    alpha.dedup();
    if alpha.is_empty() {
        alpha.push(A);
    }
    (0..n)
        .map(|_| {
            let len = 1 + rng.below(maxlen) as usize;
            (0..len)
                .map(|_| match rng.below(40) {
                    0 => 122,      // a letter outside the program
                    1 => 0x100 + *rng.pick(&alpha), // not a u8, but its low byte is a program character
                    _ => *rng.pick(&alpha),
                })
                .collect()
        })
        .collect()
}

/// SLANT, SPACE, STRETCH, SHRINK, XHEIGHT, QUAD, EXTRASPACE (`register_font` reads four of them).
fn space_params() -> Vec<FixWord> {
    vec![FixWord::ZERO, FixWord(349526), FixWord(174763), FixWord(116509), FixWord(451508), FixWord::ONE, FixWord(116509)]
}

/// A program that `replace_lig_kern_program` is specified for: no redirect words of its own,
/// kerns by value, entry points and SKIPs inside the program.
fn make_valid(p: &mut Prog) {
    let n = p.instrs.len() as i64;
    for e in p.entries.iter_mut() {
        e.1 %= n;
    }
    for (at, i) in p.instrs.iter_mut().enumerate() {
        if i[2] == 3 || i[2] == 1 {
            i[2] = 0;
            i[3] = 0;
        }
        if i[0] >= 0 && at as i64 + i[0] + 1 >= n {
            i[0] = -1;
        }
    }
    p.kerns.clear();
}

/// Words joined by one or two spaces, sometimes with leading / trailing spaces.
fn text_of(rng: &mut Rng, ws: &[Vec<i64>]) -> Vec<i64> {
    let mut t = vec![];
    if rng.chance(1, 4) {
        t.push(32);
    }
    for (i, w) in ws.iter().enumerate() {
        if i > 0 {
            t.push(32);
            if rng.chance(1, 5) {
                t.push(32);
            }
        }
        t.extend(w);
    }
    if rng.chance(1, 4) {
        t.push(32);
    }
    t
}

/// A minimal, well-formed TFM file around given lig/kern data: header of two words (design size
/// 10pt), characters 0..=255 all existing with width index 1, the lig/kern words, the kerns.
/// `tags`: (char, remainder) for the characters whose tag is 1.
fn tfm_bytes_of(words: &[[u8; 4]], tags: &[(i64, i64)], kerns: &[i64]) -> Vec<u8> {
    let (lh, bc, ec, nw, nh, nd, ni, ne, np) = (2u16, 0u16, 255u16, 2u16, 1u16, 1u16, 1u16, 0u16, 0u16);
    let (nl, nk) = (words.len() as u16, kerns.len() as u16);
    let lf = 6 + lh + (ec - bc + 1) + nw + nh + nd + ni + nl + nk + ne + np;
    let mut b: Vec<u8> = vec![];
    for v in [lf, lh, bc, ec, nw, nh, nd, ni, nl, nk, ne, np] {
        b.extend(v.to_be_bytes());
    }
    b.extend([0, 0, 0, 0]);
    b.extend((10_i32 << 20).to_be_bytes());
    for c in 0..256i64 {
        match tags.iter().find(|t| t.0 == c) {
            Some((_, e)) => b.extend([1, 0, 1, *e as u8]),
            None => b.extend([1, 0, 0, 0]),
        }
    }
    b.extend([0, 0, 0, 0]);
    b.extend((1_i32 << 20).to_be_bytes());
    b.extend([0u8; 12]); // height, depth, italic correction
    for w in words {
        b.extend(w);
    }
    for k in kerns {
        b.extend((*k as i32).to_be_bytes());
    }
    debug_assert_eq!(b.len(), lf as usize * 4);
    b
}

/// Raw lig/kern words the way no PLtoTF writes them but TeX reads them all the same: redirect
/// words (skip byte > 128) anywhere in the array, used as entry points by some characters and
/// run into by other characters' chains (skip 0 / SKIP n), followed by more instructions;
/// optional boundary-char word first and left-boundary word last.
fn random_raw(rng: &mut Rng) -> (Vec<[u8; 4]>, Vec<(i64, i64)>, Vec<i64>) {
    let k = 2 + rng.below(4);
    let letter = |rng: &mut Rng| (A as u64 + rng.below(k)) as u8;
    let nl = 2 + rng.below(14) as usize;
    let nk = 1 + rng.below(3) as usize;
    let kerns: Vec<i64> = (0..nk).map(|_| *rng.pick(&[1i64 << 19, -(1 << 18), 1 << 20, 0])).collect();
    let mut words: Vec<[u8; 4]> = vec![];
    for i in 0..nl {
        if rng.chance(1, 5) {
            // a redirect word; its target is usually a later word, sometimes any word or out of range
            let t = match rng.below(10) {
                0 => rng.below(nl as u64 + 2) as usize,
                1 => rng.below(nl as u64) as usize,
                _ => (i + 1 + rng.below(3) as usize).min(nl - 1),
            };
            let skip = *rng.pick(&[254u8, 254, 200, 129, 255]);
            words.push([skip, letter(rng), (t / 256) as u8, (t % 256) as u8]);
        } else {
            let skip = *rng.pick(&[0u8, 0, 0, 0, 128, 128, 1, 2, 3]);
            let (op, rem) = if rng.chance(1, 3) {
                (128u8, rng.below(nk as u64 + 1) as u8) // kern, index sometimes one past the end
            } else {
                (*rng.pick(&[0u8, 1, 2, 3, 5, 6, 7, 11, 0, 5, 6, 11, 4, 9]), letter(rng))
            };
            words.push([skip, letter(rng), op, rem]);
        }
    }
    if rng.chance(1, 3) {
        words[0] = [255, letter(rng), 0, 0]; // boundary char carrier
    }
    if rng.chance(1, 3) {
        let t = rng.below(nl as u64) as usize;
        let last = words.len() - 1;
        words[last] = [255, 0, (t / 256) as u8, (t % 256) as u8]; // left-boundary program
    }
    let mut tags = vec![];
    let redirects: Vec<usize> = (0..nl).filter(|i| words[*i][0] > 128).collect();
    for c in 0..k {
        if rng.chance(4, 5) {
            // half of the characters start at a redirect word when there is one
            let e = if !redirects.is_empty() && rng.chance(1, 2) { *rng.pick(&redirects) } else { rng.below(nl as u64 + 1) as usize };
            tags.push((A + c as i64, e as i64));
        }
    }
    (words, tags, kerns)
}

/// A large program: `n` characters (and sometimes the left boundary) share one chain of `m`
/// instructions with distinct right characters: `n·m` pairs. Kerns and the ligature forms that
/// leave nothing pending only, so no pair can loop.
fn big_prog(rng: &mut Rng, n: usize, m: usize) -> (Prog, Vec<Vec<i64>>) {
    let mut chars: Vec<i64> = (0..256).collect();
    for i in (1..chars.len()).rev() {
        chars.swap(i, rng.below(i as u64 + 1) as usize);
    }
    let lefts: Vec<i64> = chars[..n].to_vec();
    for i in (1..chars.len()).rev() {
        chars.swap(i, rng.below(i as u64 + 1) as usize);
    }
    let rights: Vec<i64> = chars[..m].to_vec();
    let mut p = Prog { rb: -1, lb: if rng.chance(1, 3) { 0 } else { -1 }, entries: lefts.iter().map(|c| (*c, 0)).collect(), kerns: vec![], instrs: vec![] };
    p.entries.sort();
    for (i, r) in rights.iter().enumerate() {
        let next = if i + 1 == m { -1 } else { 0 };
        if rng.chance(1, 6) {
            p.instrs.push([next, *r, 2, *rng.pick(&rights), *rng.pick(&[2i64, 4, 6, 7])]);
        } else {
            p.instrs.push([next, *r, 0, *rng.pick(&[1i64 << 19, -(1 << 18), 1 << 20, 3]), 0]);
        }
    }
    let words = (0..8)
        .map(|_| {
            let len = 2 + rng.below(3) as usize;
            (0..len).map(|i| if i % 2 == 0 { *rng.pick(&lefts) } else { *rng.pick(&rights) }).collect()
        })
        .collect();
    (p, words)
}

fn case_of(kind: &str, p: &Prog, ws: &WordSet) -> String {
    format!("{kind} {} | {}", join(&p.enc()), ws.enc())
}

fn compact(text: &str, words: &[&str]) -> String {
    let (p, e) = Program::parse_compact(text).expect("builtin compact program parses");
    let prog = Prog::from_real(&p, &e, &[]);
    let ws = WordSet::List(words.iter().map(|w| w.chars().map(|c| c as i64).collect()).collect());
    case_of("p", &prog, &ws)
}

impl Property for C05 {
    fn id(&self) -> &'static str {
        "C05"
    }
    fn rule(&self) -> String {
        "p: every program over {a,b,c} with one rule (12 pairs incl. left boundary x (8 ligature forms x 3 letters + kern)) x right boundary none/'a', each on every word of length 1..4 (exhaustive); \
         two- and three-rule programs over the same space (sampled in quick, two-rule exhaustive on words <= 3 in thorough); random programs (<= 12 instructions, alphabet 2..5, SKIP n / STOP chains, shared and out-of-range entry points, left-boundary entry, right boundary char inside or outside the alphabet, Kern / KernAtIndex incl. missing index, rare redirect words) on random words <= 10 (incl. foreign and non-u8 chars); \
         n: random programs and a third of the one-rule programs run with disable_left_boundary; \
         o: half (thorough: all) of the one-rule programs x font boundary none/'a' x override 'a'/'b'/'z' x left boundary on/disabled on all words <= 3, and random programs under a random override (none, the font boundary, a right char of some rule, 'z', '|', a non-u8 char) and random disable_left_boundary; \
         t: every one-rule program x right boundary none/'a' on a text of all 12 words of one and two letters, and random valid programs on random texts (half the words one letter; double, leading, trailing spaces), through the real boxworks_text::TextPreprocessorImpl::add_text; every corpus font also through add_text on its own boundary pairs as one-letter words; \
         m: two one-rule fonts (and 2..3 random valid programs) on one preprocessor under scripts of add_text / add_word / add_space / new_paragraph with activate_font between them, words drawn from a small pool so that every word recurs under the same and under another font; one builtin case with smfebsl10 + cmr10; \
         z: 12 large programs (n characters sharing a chain of m instructions, n*m pairs from 1 024 to 65 536, straddling 4 096 and 5 003), 8 words each; \
         r: random raw TFM lig/kern words (redirect words mid-array, used as entry points, fallen into by other chains, boundary words first/last, kern indices and redirect targets out of range) as real TFM bytes through deserialize + compile_from_tfm_file; \
         k: random programs through the real replace_lig_kern_program/compile_from_tfm_file (pack_entrypoints, unpack_entrypoint), a quarter padded to > 255 instructions; f: every corpus .tfm through deserialize + compile_from_tfm_file on every ruled pair and ruled pair + third letter. \
         Non-trivial = the program has at least one rule that applies to some word of the case (some output item is a kern or ligature, or a pair loops); distinct = distinct case string."
            .into()
    }
    fn builtin_corpus(&self) -> Vec<String> {
        let mut v = vec![];
        // the documentation example of ligkern/mod.rs: an infinite loop of two rules
        v.push(compact("xy -> _z^y\nzy -> _x^y", &["xy", "zy", "x", "yx"]));
        // a ligature of three characters built by two passes, with kerns around it
        v.push(compact("fi -> _1^_\nff -> _2^_\n2i -> _3^_\naf -> a[5]f\n3b -> 3[-7]b", &["affib", "ffi", "fi", "fffi"]));
        // both boundaries
        v.push(compact("|a -> _A^a\na| -> a^Z_\naZ -> a[3]Z", &["a", "aa", "ba"]));
        // every retaining form once
        v.push(compact("ab -> a^xb\nax -> a[1]x\nxb -> xyb^\nbc -> b^z_\nbz -> bw^_", &["ab", "abc", "abcab"]));
        // two real fonts on one preprocessor: smfebsl10 has left- and right-boundary rules
        // ("7" alone becomes `$ 7 #`), cmr10 has none; the same words under both, back and forth
        {
            let t = |code: i64, s: &str| {
                let v: Vec<i64> = s.chars().map(|c| c as i64).collect();
                format!("{code} {} {}", v.len(), join(&v))
            };
            v.push(format!(
                "m 2 | file crates/tfm/corpus/ctan/smfebsl10-3.tfm | file crates/tfm/corpus/computer-modern/cmr10.tfm | {}",
                [t(2, "7 fi ff 7 AV"), "1 1".into(), t(2, "7 fi ff 7 AV"), "1 0".into(), t(3, "7"), "1 1".into(), t(3, "7"), t(3, "fi"), "1 0".into(), t(3, "fi"), t(2, " AV 7 ")].join(" | ")
            ));
        }
        // chain that revisits a character but not a pair (must not be reported as a loop)
        v.push(compact("ab -> _b^b\nbb -> _a^b", &["ab", "bb", "abb"]));
        v
    }
    fn generate(&mut self, ctx: &Ctx, rng: &mut Rng) -> Vec<String> {
        self.thorough = ctx.thorough;
        let mut v = vec![];
        let rules = small_rules();
        let abc = vec![A, A + 1, A + 2];
        // corpus fonts first (they are few)
        for f in &self.fonts {
            v.push(format!("f {f}"));
        }
        // one rule, exhaustive
        for r in &rules {
            for rb in [-1, A] {
                v.push(case_of("p", &prog_of_rules(&[*r], rb), &WordSet::All(4, abc.clone())));
            }
        }
        // two rules
        let mut r2 = rng.fork();
        if ctx.thorough {
            for (i, a) in rules.iter().enumerate() {
                for b in &rules[i + 1..] {
                    if (a.0, a.1) == (b.0, b.1) {
                        continue;
                    }
                    let rb = if r2.chance(1, 2) { -1 } else { A };
                    v.push(case_of("p", &prog_of_rules(&[*a, *b], rb), &WordSet::All(3, abc.clone())));
                }
            }
        }
        let (n2, n3, nr, nk) = if ctx.thorough { (6_000, 30_000, 48_000, 5_000) } else { (1_500, 1_800, 5_000, 1_200) };
        for _ in 0..n2 {
            let a = *r2.pick(&rules);
            let b = *r2.pick(&rules);
            if (a.0, a.1) == (b.0, b.1) {
                continue;
            }
            let rb = *r2.pick(&[-1, A, A + 1]);
            v.push(case_of("p", &prog_of_rules(&[a, b], rb), &WordSet::All(4, abc.clone())));
        }
        let mut r3 = rng.fork();
        for _ in 0..n3 {
            let mut rs: Vec<Rule> = vec![];
            while rs.len() < 3 {
                let a = *r3.pick(&rules);
                if rs.iter().all(|b| (a.0, a.1) != (b.0, b.1)) {
                    rs.push(a);
                }
            }
            let rb = *r3.pick(&[-1, A, A + 2]);
            v.push(case_of("p", &prog_of_rules(&rs, rb), &WordSet::All(4, abc.clone())));
        }
        // random programs
        let mut rr = rng.fork();
        for _ in 0..nr {
            let p = random_prog(&mut rr);
            let ws = random_words(&mut rr, &p, 12, 10);
            v.push(case_of("p", &p, &WordSet::List(ws)));
        }
        let mut rn = rng.fork();
        for _ in 0..nr / 4 {
            let p = random_prog(&mut rn);
            let ws = random_words(&mut rn, &p, 12, 8);
            v.push(case_of("n", &p, &WordSet::List(ws)));
        }
        for (i, r) in rules.iter().enumerate() {
            if i % 3 == 0 || ctx.thorough {
                v.push(case_of("n", &prog_of_rules(&[*r], A), &WordSet::All(3, abc.clone())));
            }
        }
        // o: RunOptions. Every override kind (the font boundary itself, another character with
        // rules, a character without rules, a char that is not a u8, none) x font with / without
        // boundary char x left boundary on / disabled.
        let mut ro = rng.fork();
        for (i, r) in rules.iter().enumerate() {
            if i % 2 == 0 || ctx.thorough {
                for rb in [-1, A] {
                    for ov in [A, A + 1, 122] {
                        for nolb in [0, 1] {
                            v.push(format!("o {nolb} {ov} {}", &case_of("p", &prog_of_rules(&[*r], rb), &WordSet::All(3, abc.clone()))[2..]));
                        }
                    }
                }
            }
        }
        for _ in 0..nr / 3 {
            let p = random_prog(&mut ro);
            let ws = random_words(&mut ro, &p, 10, 8);
            let mut ovs: Vec<i64> = vec![-1, 122, 0x131, 124];
            if p.rb >= 0 {
                ovs.extend([p.rb, p.rb]);
            }
            for i in &p.instrs {
                ovs.push(i[1]);
            }
            let ov = *ro.pick(&ovs);
            let nolb = ro.below(2);
            v.push(format!("o {nolb} {ov} {}", &case_of("p", &p, &WordSet::List(ws))[2..]));
        }
        // t: the boxworks-text call site. Every one-rule program (boundary rules included) on
        // a text of all words of one and two letters; random valid programs on random texts
        // with many one-letter words, double spaces, leading and trailing spaces.
        let mut rt = rng.fork();
        let all12: Vec<Vec<i64>> = WordSet::All(2, abc.clone()).words();
        for r in &rules {
            for rb in [-1, A] {
                let mut ws = all12.clone();
                // rotate so that every word is first / last in some case
                let k = rt.below(ws.len() as u64) as usize;
                ws.rotate_left(k);
                let text = text_of(&mut rt, &ws);
                v.push(format!("t {} | {} {}", join(&prog_of_rules(&[*r], rb).enc()), text.len(), join(&text)));
            }
        }
        for _ in 0..nr / 3 {
            let mut p = random_prog(&mut rt);
            make_valid(&mut p);
            let n = 1 + rt.below(8) as usize;
            let mut ws = vec![];
            for _ in 0..n {
                let len = *rt.pick(&[1u64, 1, 1, 2, 2, 3, 4, 6]);
                ws.extend(random_words(&mut rt, &p, 1, 1).into_iter().map(|mut w| {
                    while (w.len() as u64) < len {
                        w.extend(random_words(&mut rt, &p, 1, 1).remove(0));
                    }
                    w
                }));
            }
            let text = text_of(&mut rt, &ws);
            v.push(format!("t {} | {} {}", join(&p.enc()), text.len(), join(&text)));
        }
        // m: several fonts on ONE preprocessor, repeated words, font switches between and within
        // texts (activate_font between add_text / add_word / add_space calls), back and forth.
        let mut rm = rng.fork();
        let enc_text = |code: i64, t: &[i64]| format!("{code} {} {}", t.len(), join(t));
        let (n_m1, n_m2) = if ctx.thorough { (6_000, 10_000) } else { (600, 1_000) };
        for _ in 0..n_m1 {
            let a = *rm.pick(&rules);
            let b = *rm.pick(&rules);
            let rb = *rm.pick(&[-1, A]);
            let mut ws = all12.clone();
            let k = rm.below(ws.len() as u64) as usize;
            ws.rotate_left(k);
            let w1 = ws[0].clone();
            let script = vec![
                enc_text(2, &text_of(&mut rm, &ws)),
                "1 1".to_string(),
                enc_text(2, &text_of(&mut rm, &ws)),
                "1 0".to_string(),
                enc_text(3, &w1),
                "1 1".to_string(),
                enc_text(3, &w1),
                "4".to_string(),
                enc_text(2, &text_of(&mut rm, &ws[..4])),
                "1 0".to_string(),
                enc_text(2, &text_of(&mut rm, &ws[..4])),
            ];
            v.push(format!(
                "m 2 | prog {} | prog {} | {}",
                join(&prog_of_rules(&[a], rb).enc()),
                join(&prog_of_rules(&[b], *rm.pick(&[-1, A, A + 1])).enc()),
                script.join(" | ")
            ));
        }
        for _ in 0..n_m2 {
            let nf = 2 + rm.below(2) as usize;
            let progs: Vec<Prog> = (0..nf)
                .map(|_| {
                    let mut p = random_prog(&mut rm);
                    make_valid(&mut p);
                    p
                })
                .collect();
            let mut pool: Vec<Vec<i64>> = vec![];
            for p in &progs {
                for len in [1u64, 2, 3] {
                    pool.extend(random_words(&mut rm, p, 1, len));
                }
            }
            let mut script: Vec<String> = vec![];
            let n_ops = 8 + rm.below(9);
            for _ in 0..n_ops {
                match rm.below(20) {
                    0..=7 => {
                        let n = 1 + rm.below(5) as usize;
                        let ws: Vec<Vec<i64>> = (0..n).map(|_| rm.pick(&pool).clone()).collect();
                        script.push(enc_text(2, &text_of(&mut rm, &ws)));
                    }
                    8..=12 => script.push(format!("1 {}", rm.below(nf as u64))),
                    13..=16 => script.push(enc_text(3, &rm.pick(&pool).clone())),
                    17..=18 => script.push("4".to_string()),
                    _ => script.push("5".to_string()),
                }
            }
            let fonts: Vec<String> = progs.iter().map(|p| format!("prog {}", join(&p.enc()))).collect();
            v.push(format!("m {nf} | {} | {}", fonts.join(" | "), script.join(" | ")));
        }
        // z: the size dimension. Many characters sharing a long chain: pair counts around and above
        // the sizes tables tend to have (1 024, 4 096, tftopl's hash_size 5 003, 16 384, 65 536).
        let mut rz = rng.fork();
        let sizes: &[(usize, usize)] = &[(32, 32), (45, 23), (64, 64), (63, 65), (70, 71), (71, 71), (72, 72), (100, 100), (128, 128), (181, 181), (255, 256), (256, 256)];
        for (i, (n, m)) in sizes.iter().enumerate() {
            let (p, ws) = big_prog(&mut rz, *n, *m);
            v.push(format!("z {} {}", i % 2, &case_of("p", &p, &WordSet::List(ws))[2..]));
        }
        if ctx.thorough {
            for _ in 0..40 {
                let n = 1 + rz.below(256) as usize;
                let m = 1 + rz.below(256) as usize;
                let (p, ws) = big_prog(&mut rz, n, m);
                v.push(format!("z {} {}", rz.below(2), &case_of("p", &p, &WordSet::List(ws))[2..]));
            }
        }
        // r: raw TFM words (redirect words in the middle of the array, used as entry points and
        // run into by other chains), through real bytes: deserialize + compile_from_tfm_file
        let mut rr2 = rng.fork();
        for _ in 0..(if ctx.thorough { 15_000 } else { 1_500 }) {
            let (words, tags, kerns) = random_raw(&mut rr2);
            let mut v2: Vec<i64> = vec![words.len() as i64];
            for w in &words {
                v2.extend(w.iter().map(|x| *x as i64));
            }
            v2.push(tags.len() as i64);
            for (c, e) in &tags {
                v2.extend([*c, *e]);
            }
            v2.push(kerns.len() as i64);
            v2.extend(&kerns);
            let mut alpha: Vec<i64> = words.iter().flat_map(|w| [w[1] as i64, w[3] as i64]).filter(|c| *c >= A && *c < A + 6).collect();
            alpha.extend(tags.iter().map(|t| t.0));
            alpha.sort();
            alpha.dedup();
            if alpha.is_empty() {
                alpha.push(A);
            }
            let ws: Vec<Vec<i64>> = (0..10).map(|_| (0..1 + rr2.below(5)).map(|_| *rr2.pick(&alpha)).collect()).collect();
            v.push(format!("r {} | {}", join(&v2), WordSet::List(ws).enc()));
        }
        let mut rk = rng.fork();
        for _ in 0..nk {
            let mut p = random_prog(&mut rk);
            // pack_entrypoints is specified for valid programs: entry points inside the program
            let n = p.instrs.len() as i64;
            for e in p.entries.iter_mut() {
                e.1 %= n;
            }
            for (at, i) in p.instrs.iter_mut().enumerate() {
                // a valid program: no redirect words of its own, kerns by value, every SKIP
                // lands inside the program (what PLtoTF produces and TFtoPL accepts)
                if i[2] == 3 || i[2] == 1 {
                    i[2] = 0;
                    i[3] = 0;
                }
                if i[0] >= 0 && at as i64 + i[0] + 1 >= n {
                    i[0] = -1;
                }
            }
            p.kerns.clear();
            // one in four: more than 255 instructions in front, so that entry points do not
            // fit a u8 and pack_entrypoints has to emit redirect words (and rotate)
            if rk.chance(1, 4) {
                let pad = 250 + rk.below(10) as i64;
                let mut instrs: Vec<[i64; 5]> = (0..pad).map(|_| [-1, 255, 0, 0, 0]).collect();
                instrs.extend(p.instrs.iter().cloned());
                p.instrs = instrs;
                for e in p.entries.iter_mut() {
                    e.1 += pad;
                }
                if p.lb >= 0 {
                    p.lb += pad;
                }
            }
            let ws = random_words(&mut rk, &p, 8, 8);
            v.push(case_of("k", &p, &WordSet::List(ws)));
        }
        v
    }

    fn run_case(&mut self, case: &str, drv: &mut Driver) -> CaseOutcome {
        let t0 = std::time::Instant::now();
        let cmd = case.split(' ').next().unwrap_or("").to_string();
        let out = self.run_case_inner(case, drv);
        let e = self.time_by_stream.entry(cmd).or_insert((0, 0.0));
        e.0 += 1;
        e.1 += t0.elapsed().as_secs_f64();
        out
    }

    fn extra_evidence(&self) -> Option<String> {
        Some(format!(
            "\"seconds_by_case_kind\": {{{}}}",
            self.time_by_stream.iter().map(|(k, (n, t))| format!("\"{k}\": [{n}, {t:.1}]")).collect::<Vec<_>>().join(", ")
        ))
    }

    fn shrink(&self, case: &str) -> Vec<String> {
        let (cmd, rest) = case.split_once(' ').unwrap_or((case, ""));
        let mut c = vec![];
        if cmd == "m" {
            let parts: Vec<&str> = rest.split('|').map(str::trim).collect();
            let nf: usize = parts[0].parse().unwrap_or(0);
            let ops = &parts[1 + nf..];
            // drop halves of the script, then single ops
            let mk = |keep: &dyn Fn(usize) -> bool| {
                let mut p: Vec<&str> = parts[..1 + nf].to_vec();
                p.extend(ops.iter().enumerate().filter(|(i, _)| keep(*i)).map(|(_, o)| *o));
                format!("m {}", p.join(" | "))
            };
            if ops.len() > 1 {
                let h = ops.len() / 2;
                c.push(mk(&|i| i < h));
                c.push(mk(&|i| i >= h));
                for k in 0..ops.len() {
                    c.push(mk(&|i| i != k));
                }
            }
            // shorten texts to single words
            for (k, op) in ops.iter().enumerate() {
                let v = parse_i64s(op);
                if v.first() == Some(&2) {
                    let text = &v[2..2 + v[1] as usize];
                    let words: Vec<&[i64]> = text.split(|c| *c == 32).filter(|w| !w.is_empty()).collect();
                    if words.len() > 1 {
                        for w in words {
                            let mut p: Vec<String> = parts.iter().map(|x| x.to_string()).collect();
                            p[1 + nf + k] = format!("2 {} {}", w.len(), join(w));
                            c.push(format!("m {}", p.join(" | ")));
                        }
                    }
                }
            }
            return c;
        }
        if cmd == "o" {
            let mut it = rest.splitn(3, ' ');
            let (a, b, r) = (it.next().unwrap_or("0"), it.next().unwrap_or("-1"), it.next().unwrap_or(""));
            return self
                .shrink(&format!("p {r}"))
                .into_iter()
                .map(|x| format!("o {a} {b} {}", &x[2..]))
                .collect();
        }
        if cmd == "t" {
            let parts: Vec<&str> = rest.split('|').collect();
            let prog = Prog::dec(&parse_i64s(parts[0]));
            let tv = parse_i64s(parts[1]);
            let text = tv[1..1 + tv[0] as usize].to_vec();
            let mk = |p: &Prog, t: &[i64]| format!("t {} | {} {}", join(&p.enc()), t.len(), join(t));
            let words: Vec<Vec<i64>> = text.split(|c| *c == 32).filter(|w| !w.is_empty()).map(|w| w.to_vec()).collect();
            if words.len() > 1 {
                for w in &words {
                    c.push(mk(&prog, w));
                }
            }
            for i in 0..text.len() {
                let mut t = text.clone();
                t.remove(i);
                if !t.is_empty() {
                    c.push(mk(&prog, &t));
                }
            }
            for i in 0..prog.entries.len() {
                let mut q = prog.clone();
                q.entries.remove(i);
                c.push(mk(&q, &text));
            }
            if prog.lb >= 0 {
                let mut q = prog.clone();
                q.lb = -1;
                c.push(mk(&q, &text));
            }
            if prog.rb >= 0 {
                let mut q = prog.clone();
                q.rb = -1;
                c.push(mk(&q, &text));
            }
            for i in 0..prog.instrs.len() {
                if prog.instrs[i][1..] != [255, 0, 0, 0] {
                    let mut q = prog.clone();
                    q.instrs[i] = [q.instrs[i][0], 255, 0, 0, 0];
                    c.push(mk(&q, &text));
                }
            }
            return c;
        }
        if cmd != "p" && cmd != "k" && cmd != "n" {
            return c;
        }
        let parts: Vec<&str> = rest.split('|').collect();
        let prog = Prog::dec(&parse_i64s(parts[0]));
        let ws = WordSet::dec(&parts[1..]);
        let words = ws.words();
        // one word at a time, then shorter words
        if words.len() > 1 {
            for w in &words {
                c.push(case_of(cmd, &prog, &WordSet::List(vec![w.clone()])));
            }
        } else if let Some(w) = words.first() {
            for i in 0..w.len() {
                let mut x = w.clone();
                x.remove(i);
                if !x.is_empty() {
                    c.push(case_of(cmd, &prog, &WordSet::List(vec![x])));
                }
            }
        }
        let ws1 = WordSet::List(words.clone());
        // drop an entry point / the boundary entry / the boundary char
        for i in 0..prog.entries.len() {
            let mut q = prog.clone();
            q.entries.remove(i);
            c.push(case_of(cmd, &q, &ws1));
        }
        if prog.lb >= 0 {
            let mut q = prog.clone();
            q.lb = -1;
            c.push(case_of(cmd, &q, &ws1));
        }
        if prog.rb >= 0 {
            let mut q = prog.clone();
            q.rb = -1;
            c.push(case_of(cmd, &q, &ws1));
        }
        // neutralise an instruction (keeps indices stable), drop a trailing one
        for i in 0..prog.instrs.len() {
            if prog.instrs[i][1..] != [255, 0, 0, 0] {
                let mut q = prog.clone();
                q.instrs[i] = [q.instrs[i][0], 255, 0, 0, 0];
                c.push(case_of(cmd, &q, &ws1));
            }
        }
        if prog.instrs.len() > 1 {
            let mut q = prog.clone();
            q.instrs.pop();
            c.push(case_of(cmd, &q, &ws1));
        }
        c
    }
}

fn bucket(n: usize) -> &'static str {
    match n {
        0 => "0",
        1..=99 => "1-99",
        100..=999 => "100-999",
        _ => "1000+",
    }
}

impl C05 {
    /// A corpus font the way the `f` stream loads it: real bytes, `File::deserialize`,
    /// `compile_from_tfm_file`; the program as Lean sees it (entry points unpacked by the real
    /// code, kerns scaled with the font's design size).
    #[allow(clippy::type_complexity)]
    fn load_font_file(&self, rel: &str, drv: &mut Driver, out: &mut CaseOutcome) -> Option<(tfm::File, CompiledProgram, Vec<tfm::ligkern::InfiniteLoopError>, Prog)> {
        let path = format!("{}/{}", self.repo(), rel);
        let bytes = std::fs::read(&path).unwrap_or_else(|e| panic!("cannot read {path}: {e}"));
        self.load_font_bytes(&bytes, rel, drv, out)
    }

    #[allow(clippy::type_complexity)]
    fn load_font_bytes(&self, bytes: &[u8], rel: &str, drv: &mut Driver, out: &mut CaseOutcome) -> Option<(tfm::File, CompiledProgram, Vec<tfm::ligkern::InfiniteLoopError>, Prog)> {
        let r = caught(|| {
            let (f, _) = tfm::File::deserialize(bytes);
            f.ok().map(|mut f| {
                let (cp, errs) = CompiledProgram::compile_from_tfm_file(&mut f);
                (f, cp, errs)
            })
        });
        match r {
            Err(p) => {
                out.fail(Kind::ImplPanic, "font", format!("panic {}", strip_msg(&p)), format!("{rel}: {p}"));
                None
            }
            Ok(None) => {
                out.tag("font:does-not-deserialize");
                None
            }
            Ok(Some((mut f, cp, errs))) => {
                let entries: HashMap<Char, u16> = f
                    .lig_kern_entrypoints()
                    .into_iter()
                    .filter_map(|(c, e)| f.lig_kern_program.unpack_entrypoint(e).ok().map(|e| (c, e)))
                    .collect();
                let mut q = Prog::from_real(&f.lig_kern_program, &entries, &f.kerns);
                // the program as the crate read it must be the program in the file's raw words
                q = check_raw_decode(bytes, &q, rel, drv, out);
                let ds = f.header.design_size;
                let ok = caught(|| {
                    for k in q.kerns.iter_mut() {
                        *k = FixWord(*k as i32).to_scaled(ds).0 as i64;
                    }
                });
                if ok.is_err() {
                    out.tag("skipped:to_scaled-panic(C17)");
                    return None;
                }
                Some((f, cp, errs, q))
            }
        }
    }

    fn run_case_inner(&mut self, case: &str, drv: &mut Driver) -> CaseOutcome {
        let mut out = CaseOutcome::default();
        let (cmd, rest) = case.split_once(' ').unwrap_or((case, ""));
        match cmd {
            "p" | "k" | "n" | "o" => {
                // `o <nolb> <ov> <P> | <WS>`: the `p` stream under explicit `RunOptions`
                let (opt, rest) = if cmd == "o" {
                    let mut it = rest.splitn(3, ' ');
                    let a: i64 = it.next().unwrap().parse().expect("nolb");
                    let b: i64 = it.next().unwrap().parse().expect("override");
                    (Opt { no_lb: a != 0, ov: b, big: false }, it.next().unwrap_or(""))
                } else {
                    (Opt { no_lb: cmd == "n", ov: -1, big: false }, rest)
                };
                if cmd == "o" {
                    out.tag("stream:run-options");
                    out.tag(format!("options:left-boundary={}", if opt.no_lb { "disabled" } else { "on" }));
                }
                let parts: Vec<&str> = rest.split('|').collect();
                let prog = Prog::dec(&parse_i64s(parts[0]));
                let ws = WordSet::dec(&parts[1..]);
                let words = ws.words();
                if cmd == "o" {
                    let has_rules = prog.instrs.iter().any(|i| i[1] == opt.ov);
                    out.tag(format!(
                        "options:override={}/font-boundary={}",
                        if opt.ov < 0 {
                            "none"
                        } else if opt.ov == prog.rb {
                            "the-font-boundary"
                        } else if has_rules {
                            "other-char-with-rules"
                        } else {
                            "char-without-rules"
                        },
                        if prog.rb >= 0 { "yes" } else { "no" }
                    ));
                }
                let (real, entries, kerns) = prog.to_real();
                let ds = design_size();
                // C05-b: with a boundary char (or > 255 instructions) pack_entrypoints rotates the
                // instructions; before the fix the left-boundary entry point field was not rebased.
                let rotates = prog.rb >= 0 || prog.entries.iter().any(|e| e.1 > 255);
                let marker = if cmd == "k" && prog.lb >= 0 && rotates {
                    out.tag("pack:left-boundary-entry-and-rotation");
                    " [pack: left-boundary entry point after rotation]"
                } else {
                    ""
                };
                if cmd == "k" {
                    out.tag("stream:pack-unpack");
                    // The way a program gets into a font: `File::replace_lig_kern_program`
                    // (pack_entrypoints + unpack_kerns), then `compile_from_tfm_file`
                    // (unpack_entrypoint + compile).
                    let r = caught(|| {
                        let mut f = tfm::File::default();
                        f.header.design_size = ds;
                        f.replace_lig_kern_program(real.clone(), entries.clone());
                        let n_redirect = f
                            .lig_kern_program
                            .instructions
                            .iter()
                            .filter(|i| matches!(i.operation, Operation::EntrypointRedirect(..)))
                            .count();
                        let (cp, errs) = CompiledProgram::compile_from_tfm_file(&mut f);
                        (cp, errs, n_redirect)
                    });
                    match r {
                        Err(p) => out.fail(Kind::ImplPanic, "pack", format!("panic {}", strip_msg(&p)), format!("replace_lig_kern_program/compile_from_tfm_file panicked: {p}")),
                        Ok((cp, errs, n_redirect)) => {
                            out.tag(format!("pack:redirect-words={}", n_redirect.min(3)));
                            match prog.enc_scaled(ds) {
                                Ok(e) => {
                                    self.compare("pack", &prog, &cp, &errs, &words, drv, &mut out, &join(&e), marker, opt);
                                }
                                Err(_) => out.tag("skipped:to_scaled-panic(C17)"),
                            }
                        }
                    }
                    // The property-list paths: the same program in a `pl::File`
                    // (`compile_from_pl_file`), and that file converted to a TFM file, written to
                    // bytes, read back and compiled (`From<pl::File>`: pack_entrypoints +
                    // unpack_kerns; `serialize`; `deserialize`; `compile_from_tfm_file`).
                    let r = caught(|| {
                        let mut pl = tfm::pl::File::default();
                        pl.header.design_size = ds;
                        for c in entries.keys() {
                            pl.char_dimens.insert(*c, tfm::pl::CharDimensions { width: Some(FixWord::ONE), ..Default::default() });
                        }
                        pl.replace_lig_kern_program(real.clone(), entries.clone());
                        let a = CompiledProgram::compile_from_pl_file(&pl);
                        let tf: tfm::File = pl.into();
                        let bytes = tf.serialize();
                        let b = tfm::File::deserialize(&bytes).0.ok().map(|mut f| {
                            let (cp, errs) = CompiledProgram::compile_from_tfm_file(&mut f);
                            let es: HashMap<Char, u16> = f
                                .lig_kern_entrypoints()
                                .into_iter()
                                .filter_map(|(c, e)| f.lig_kern_program.unpack_entrypoint(e).ok().map(|e| (c, e)))
                                .collect();
                            (cp, errs, Prog::from_real(&f.lig_kern_program, &es, &f.kerns))
                        });
                        (a, b, bytes)
                    });
                    match r {
                        Err(p) => out.fail(Kind::ImplPanic, "pl", format!("panic {}", strip_msg(&p)), format!("the PL path panicked: {p}")),
                        Ok(((cp, errs), b, bytes)) => {
                            if let Ok(e) = prog.enc_scaled(ds) {
                                let few = &words[..words.len().min(4)];
                                self.compare("pl", &prog, &cp, &errs, few, drv, &mut out, &join(&e), "", opt);
                                match b {
                                    Some((cp, errs, q)) => {
                                        out.tag("pack:pl-to-tfm-bytes-and-back");
                                        // the written bytes, read by the model's decoder
                                        check_raw_decode(&bytes, &q, "PL -> TFM bytes", drv, &mut out);
                                        self.compare("pl-tfm", &prog, &cp, &errs, few, drv, &mut out, &join(&e), "", opt);
                                    }
                                    None => out.tag("pack:pl-to-tfm-bytes-do-not-deserialize"),
                                }
                            }
                        }
                    }
                } else {
                    if cmd == "n" {
                        out.tag("stream:no-left-boundary");
                    }
                    let compiled = caught(|| CompiledProgram::compile(&real, ds, &kerns, entries.clone()));
                    match compiled {
                        Err(p) => out.fail(Kind::ImplPanic, "compile", format!("panic {}", strip_msg(&p)), format!("compile panicked: {p}")),
                        Ok((cp, errs)) => match prog.enc_scaled(ds) {
                            Ok(e) => {
                                self.compare(if cmd == "n" { "no-left-boundary" } else if cmd == "o" { "options" } else { "prog" }, &prog, &cp, &errs, &words, drv, &mut out, &join(&e), marker, opt);
                            }
                            Err(_) => out.tag("skipped:to_scaled-panic(C17)"),
                        },
                    }
                }
                out.nontrivial = out.tags.iter().any(|t| t.starts_with("item:") || t == "loop:some-pair-loops");
                out
            }
            "t" => {
                out.tag("stream:text-preprocessor");
                let parts: Vec<&str> = rest.split('|').collect();
                let prog = Prog::dec(&parse_i64s(parts[0]));
                let tv = parse_i64s(parts[1]);
                let text: String = word_string(&tv[1..1 + tv[0] as usize]);
                let (real, entries, _) = prog.to_real();
                let ds = design_size();
                // a font built the way the `k` stream builds it, with the four space parameters
                // that `register_font` reads
                let r = caught(|| {
                    let mut f = tfm::File::default();
                    f.header.design_size = ds;
                    f.params = space_params();
                    f.replace_lig_kern_program(real.clone(), entries.clone());
                    let (cp, errs) = CompiledProgram::compile_from_tfm_file(&mut f);
                    (f, cp, errs)
                });
                match r {
                    Err(p) => out.fail(Kind::ImplPanic, "text", format!("panic {}", strip_msg(&p)), format!("replace_lig_kern_program/compile_from_tfm_file panicked: {p}")),
                    Ok((f, cp, errs)) => match prog.enc_scaled(ds) {
                        Ok(e) => {
                            let penc = join(&e);
                            if let Some((acyclic, ph)) = self.compare("text", &prog, &cp, &errs, &[], drv, &mut out, &penc, "", DEFAULT) {
                                self.text_check("text", &penc, &f, &cp, &[text], acyclic, &ph, drv, &mut out);
                            }
                        }
                        Err(_) => out.tag("skipped:to_scaled-panic(C17)"),
                    },
                }
                out.nontrivial = out.tags.iter().any(|t| t == "text:ligature" || t == "text:kern" || t == "loop:some-pair-loops");
                out
            }
            "m" => {
                out.tag("stream:multi-font-preprocessor");
                use boxworks::ds;
                use boxworks::TextPreprocessor;
                let parts: Vec<&str> = rest.split('|').map(str::trim).collect();
                let nf: usize = parts[0].parse().expect("number of fonts");
                struct FontCtx {
                    file: tfm::File,
                    cp: CompiledProgram,
                    penc: String,
                    acyclic: bool,
                    ph: String,
                }
                let mut fonts: Vec<FontCtx> = vec![];
                for spec in &parts[1..1 + nf] {
                    if let Some(ints) = spec.strip_prefix("prog ") {
                        let prog = Prog::dec(&parse_i64s(ints));
                        let (real, entries, _) = prog.to_real();
                        let ds = design_size();
                        let r = caught(|| {
                            let mut f = tfm::File::default();
                            f.header.design_size = ds;
                            f.params = space_params();
                            f.replace_lig_kern_program(real.clone(), entries.clone());
                            let (cp, errs) = CompiledProgram::compile_from_tfm_file(&mut f);
                            (f, cp, errs)
                        });
                        let (file, cp, errs) = match r {
                            Ok(x) => x,
                            Err(p) => {
                                out.fail(Kind::ImplPanic, "multi-font", format!("panic {}", strip_msg(&p)), format!("building the font panicked: {p}"));
                                return out;
                            }
                        };
                        let Ok(e) = prog.enc_scaled(ds) else {
                            out.tag("skipped:to_scaled-panic(C17)");
                            return out;
                        };
                        let penc = join(&e);
                        let Some((acyclic, ph)) = self.compare("multi-font", &prog, &cp, &errs, &[], drv, &mut out, &penc, "", DEFAULT) else {
                            return out;
                        };
                        fonts.push(FontCtx { file, cp, penc, acyclic, ph });
                    } else if let Some(path) = spec.strip_prefix("file ") {
                        let Some((file, cp, errs, q)) = self.load_font_file(path.trim(), drv, &mut out) else {
                            return out;
                        };
                        let penc = join(&q.enc());
                        let Some((acyclic, ph)) = self.compare("multi-font", &q, &cp, &errs, &[], drv, &mut out, &penc, "", DEFAULT) else {
                            return out;
                        };
                        fonts.push(FontCtx { file, cp, penc, acyclic, ph });
                    } else {
                        panic!("bad font spec {spec}");
                    }
                }
                let tp = caught(|| {
                    let mut tp = boxworks_text::TextPreprocessorImpl::new(boxworks_text::Params::plain_tex_defaults());
                    for (i, f) in fonts.iter().enumerate() {
                        tp.register_font(i as u32, &f.file, f.cp.clone());
                    }
                    tp
                });
                let Ok(mut tp) = tp else {
                    out.tag("text:skipped(font lacks the space parameters)");
                    return out;
                };
                // one preprocessor, all fonts; every call gets its own list, so that a word's
                // nodes are attributed to the font that was active when it was added
                let mut cur: usize = 0;
                let mut acc: Vec<(Vec<Vec<i64>>, Vec<Vec<i64>>)> = vec![(vec![], vec![]); nf];
                let mut seen: HashMap<Vec<i64>, usize> = HashMap::new();
                for op in &parts[1 + nf..] {
                    let v = parse_i64s(op);
                    let Some(code) = v.first() else { continue };
                    let mut list: Vec<ds::Horizontal> = vec![];
                    let text = if *code == 2 || *code == 3 { word_string(&v[2..2 + v[1] as usize]) } else { String::new() };
                    let r = caught(|| match *code {
                        1 => tp.activate_font(v[1] as u32),
                        2 => tp.add_text(&text, &mut list),
                        3 => tp.add_word(&text, &mut list),
                        4 => tp.add_space(&mut list),
                        _ => tp.new_paragraph(),
                    });
                    if let Err(p) = r {
                        out.fail(Kind::ImplPanic, "multi-font", format!("panic {}", strip_msg(&p)), format!("op {op:?} panicked: {p}"));
                        return out;
                    }
                    match *code {
                        1 => {
                            if cur != v[1] as usize {
                                out.tag("multi:font-switch");
                            }
                            cur = v[1] as usize;
                            if !list.is_empty() {
                                out.fail(Kind::ImplVsSpec, "multi-font", "text: item that no lig/kern program produces", "activate_font produced nodes".to_string());
                            }
                        }
                        2 | 3 => {
                            out.tag(if *code == 2 { "multi:add_text" } else { "multi:add_word" });
                            compare_nodes(if *code == 2 { "txt" } else { "txw" }, cur, &fonts[cur].penc, &text, &list, "multi-font", drv, &mut out);
                            match cut_segments(&list, &text, cur as u32, &mut out) {
                                Err((sig, d)) => {
                                    out.fail(Kind::ImplVsSpec, "multi-font", sig, d);
                                    return out;
                                }
                                Ok((words, real)) => {
                                    for w in &words {
                                        match seen.insert(w.clone(), cur) {
                                            Some(f) if f != cur => out.tag("multi:word-repeated-under-another-font"),
                                            Some(_) => out.tag("multi:word-repeated-under-the-same-font"),
                                            None => {}
                                        }
                                    }
                                    acc[cur].0.extend(words);
                                    acc[cur].1.extend(real);
                                }
                            }
                        }
                        4 => {
                            out.tag("multi:add_space");
                            if !(list.len() == 1 && matches!(list[0], ds::Horizontal::Glue(_))) {
                                out.fail(Kind::ImplVsSpec, "multi-font", "text: word segmentation differs", format!("add_space produced {list:?}"));
                            }
                        }
                        _ => {
                            if !list.is_empty() {
                                out.fail(Kind::ImplVsSpec, "multi-font", "text: item that no lig/kern program produces", "new_paragraph produced nodes".to_string());
                            }
                        }
                    }
                }
                for (i, f) in fonts.iter().enumerate() {
                    let (words, real) = &acc[i];
                    self.judge("multi-font", "text", &f.penc, words, real, f.acyclic, &f.ph, DEFAULT, drv, &mut out);
                }
                out.tags.sort();
                out.tags.dedup();
                out.nontrivial = out.tags.iter().any(|t| t == "text:ligature" || t == "text:kern");
                out
            }
            "z" => {
                out.tag("stream:large-programs");
                let (via, rest) = rest.split_once(' ').unwrap_or(("0", rest));
                let parts: Vec<&str> = rest.split('|').collect();
                let prog = Prog::dec(&parse_i64s(parts[0]));
                let words = WordSet::dec(&parts[1..]).words();
                let (real, entries, kerns) = prog.to_real();
                let ds = design_size();
                let n_lefts = prog.entries.len() + (prog.lb >= 0) as usize;
                out.tag(format!("large:pairs~{}", match n_lefts * prog.instrs.len() {
                    0..=1023 => "<1024",
                    1024..=4095 => "1024..4095",
                    4096..=5002 => "4096..5002",
                    5003..=16383 => "5003..16383",
                    16384..=65535 => "16384..65535",
                    _ => ">=65536",
                }));
                let r = caught(|| {
                    if via == "1" {
                        let mut f = tfm::File::default();
                        f.header.design_size = ds;
                        f.replace_lig_kern_program(real.clone(), entries.clone());
                        CompiledProgram::compile_from_tfm_file(&mut f)
                    } else {
                        CompiledProgram::compile(&real, ds, &kerns, entries.clone())
                    }
                });
                match r {
                    Err(p) => out.fail(Kind::ImplPanic, "large", format!("panic {}", strip_msg(&p)), format!("compile panicked: {p}")),
                    Ok((cp, errs)) => {
                        // built from kerns and non-pending ligature forms only: nothing can loop
                        if !errs.is_empty() {
                            out.fail(Kind::ImplVsSpec, "large", "loop report: spurious", format!("{errs:?}"));
                        }
                        let Ok(e) = prog.enc_scaled(ds) else {
                            out.tag("skipped:to_scaled-panic(C17)");
                            return out;
                        };
                        let mut real_items: Vec<Vec<i64>> = vec![];
                        for w in &words {
                            let s = word_string(w);
                            match caught(|| cp.run(&s).take(MAX_ITEMS).collect::<Vec<RunItem>>()) {
                                Ok(items) => {
                                    if items.iter().any(|i| !matches!(i, RunItem::Char(_))) {
                                        out.tag("item:kern-or-ligature");
                                    }
                                    real_items.push(enc_items(&items));
                                }
                                Err(p) => {
                                    out.fail(Kind::ImplPanic, "large", format!("panic {}", strip_msg(&p)), format!("run({s:?}) panicked: {p}"));
                                    return out;
                                }
                            }
                        }
                        self.judge("large", "run", &join(&e), &words, &real_items, true, "", Opt { big: true, ..DEFAULT }, drv, &mut out);
                    }
                }
                out.nontrivial = true;
                out
            }
            "r" => {
                out.tag("stream:raw-tfm-words");
                let parts: Vec<&str> = rest.split('|').collect();
                let v = parse_i64s(parts[0]);
                let mut i = 0;
                let mut next = || {
                    let x = v[i];
                    i += 1;
                    x
                };
                let nw = next();
                let words_raw: Vec<[u8; 4]> = (0..nw).map(|_| [next() as u8, next() as u8, next() as u8, next() as u8]).collect();
                let nt = next();
                let tags: Vec<(i64, i64)> = (0..nt).map(|_| (next(), next())).collect();
                let nk = next();
                let kerns: Vec<i64> = (0..nk).map(|_| next()).collect();
                let words = WordSet::dec(&parts[1..]).words();
                let bytes = tfm_bytes_of(&words_raw, &tags, &kerns);
                // shape of the raw program, for the histogram
                for (k, w) in words_raw.iter().enumerate() {
                    if w[0] > 128 && k > 0 && k + 1 < words_raw.len() {
                        out.tag("raw:redirect-word-mid-array");
                        if tags.iter().any(|t| t.1 == k as i64) {
                            out.tag("raw:mid-array-redirect-is-an-entry-point");
                            if words_raw[k - 1][0] == 0 {
                                out.tag("raw:entry-point-redirect-run-into-by-fall-through");
                            }
                        }
                    }
                }
                match self.load_font_bytes(&bytes, "generated raw words", drv, &mut out) {
                    None => {}
                    Some((_f, cp, errs, q)) => {
                        let penc = join(&q.enc());
                        self.compare("raw", &q, &cp, &errs, &words, drv, &mut out, &penc, "", DEFAULT);
                    }
                }
                out.nontrivial = out.tags.iter().any(|t| t.starts_with("item:") || t == "loop:some-pair-loops");
                out
            }
            "f" => {
                out.tag("stream:corpus-font");
                match self.load_font_file(rest.trim(), drv, &mut out) {
                    None => {}
                    Some((f, cp, errs, q)) => {
                        if f.header.design_size != design_size() {
                            out.tag("font:design-size-not-10pt");
                        }
                        // words: every ruled pair, with and without a third letter
                        let tab = parse_tab(&drv.ask(&format!("tab {}", join(&q.enc()))));
                        let mut words: Vec<Vec<i64>> = vec![];
                        let third: Vec<i64> = tab.pairs.iter().map(|(p, _)| p.1).take(3).collect();
                        for ((l, r), _) in tab.pairs.iter().take(if self.thorough { 4000 } else { 1200 }) {
                            if *l >= 0 {
                                words.push(vec![*l, *r]);
                                for t in &third {
                                    words.push(vec![*l, *r, *t]);
                                }
                            } else {
                                words.push(vec![*r]);
                            }
                        }
                        out.tag(format!("font:ruled-pairs~{}", bucket(tab.pairs.len())));
                        let penc = join(&q.enc());
                        if let Some((acyclic, ph)) = self.compare("font", &q, &cp, &errs, &words, drv, &mut out, &penc, "", DEFAULT) {
                            // the same font through the boxworks-text call site: texts made of the
                            // font's own ruled pairs as words of one, two and three characters
                            // (a one-character word is the only way to meet the pairs
                            // (left boundary, c) and (c, right boundary) together)
                            let ok = |w: &&Vec<i64>| w.iter().all(|c| !(*c as u8 as char).is_ascii_whitespace() && *c < 256);
                            let mut ws: Vec<Vec<i64>> = vec![];
                            for ((l, r), _) in tab.pairs.iter() {
                                if *l < 0 {
                                    ws.push(vec![*r]);
                                } else if *r == q.rb {
                                    ws.push(vec![*l]);
                                }
                            }
                            ws.truncate(200);
                            ws.extend(words.iter().take(if self.thorough { 400 } else { 150 }).cloned());
                            let ws: Vec<&Vec<i64>> = ws.iter().filter(ok).collect();
                            let mut texts: Vec<String> = vec![];
                            for (i, chunk) in ws.chunks(25).enumerate() {
                                let body = chunk.iter().map(|w| word_string(w)).collect::<Vec<_>>().join(if i % 2 == 0 { " " } else { "  " });
                                texts.push(match i % 4 {
                                    0 => body,
                                    1 => format!(" {body}"),
                                    2 => format!("{body} "),
                                    _ => format!("  {body}  "),
                                });
                            }
                            // every such word also alone: the whole text is one word
                            for w in ws.iter().take(40) {
                                texts.push(word_string(w));
                            }
                            self.text_check("font-text", &penc, &f, &cp, &texts, acyclic, &ph, drv, &mut out);
                        }
                    }
                }
                out.nontrivial = out.tags.iter().any(|t| t.starts_with("item:") || t == "loop:some-pair-loops");
                out
            }
            _ => panic!("bad case {case}"),
        }
    }


    fn repo(&self) -> String {
        self.repo.clone()
    }
}

fn main() {
    let repo = parse_args().repo;
    let mut fonts = vec![];
    let root = format!("{repo}/crates/tfm/corpus");
    let mut stack = vec![std::path::PathBuf::from(&root)];
    while let Some(d) = stack.pop() {
        if let Ok(rd) = std::fs::read_dir(&d) {
            for e in rd.filter_map(|e| e.ok()) {
                let p = e.path();
                if p.is_dir() {
                    stack.push(p);
                } else if p.extension().and_then(|x| x.to_str()) == Some("tfm") {
                    fonts.push(p.strip_prefix(&repo).unwrap().to_string_lossy().to_string());
                }
            }
        }
    }
    fonts.sort();
    run(C05 { fonts, repo, tab_cache: None, time_by_stream: Default::default(), thorough: false });
}
