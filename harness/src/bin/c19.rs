//! C19 — `\input`, `\endinput` and `\read` treat files as lines standing in place.
//!
//! Case strings (one ASCII line each; sections separated by ` ; `, every line of a file is
//! terminated by `/`):
//!
//!   `in main+: A i:a B / C / ; m:a: X e Y ; f:a-: D / E /`
//!       a main program, macro definitions (`m:<letter>: atoms`) and files (`f:<name>`),
//!       `+`/`-` = the text ends / does not end with a newline. Words: an upper-case letter or
//!       digit (a character token), `_` (a space token), `{` `}`, `i:<name>` (`\input name `),
//!       `e` (`\endinput `), `m:<letter>` (call of the macro), `\name` (an opaque control
//!       sequence from `CS_NAMES`).
//!       `f:a` is the file `a.tex`; `F:<literal>` is the file with exactly that name (`F:a`,
//!       `F:a.tex.tex`, `F:a.`, `F:a.TEX`, `F:d/a`): a written name (`i:a`, `i:a.tex`, `i:a.`,
//!       `i:d.d/a`; `o3:a.dat` in rd cases) is bound to a file by the Lean resolution
//!       (`resolveCode` for M, `resolveTeX` for S), never by the harness.
//!   `lim <n> <v>`  a chain of n nested `\input`s (v = 0: distinct files, 1: the innermost
//!       file inputs itself for ever).
//!   `rd f:a+: A { / B } C / ; t: X / ; ops: o0:a r0:a u:a ?0 c0`
//!       read files, mock-terminal lines, and a straight-line script of `\openin` (`o<n>:<file>`),
//!       `\read<n> to\x<letter>` (`r<n>:<letter>`), `[\x<letter>]` (`u:<letter>`),
//!       `\ifeof<n> T\else F\fi` (`?<n>`), `\closein<n>` (`c<n>`). `%` ends a file line
//!       without an end-of-line token.
//!   `c09g`  probe only (replay): `\nonstopmode\read 0 to \x` on the stock `StdLibState`.
//!
//! I = the real VM (harness-owned state type with every standard-library component, an
//! `InMemoryFileSystem` and a `MockTerminalIn`; built-ins from the public
//! `texlang_stdlib::built_in_commands`). Observed through recording handlers (every character
//! token including spaces, every undefined control sequence such as `\par`) and, second
//! stream, through `texlang_stdlib::script::run_to_string`.
//! M = the Lean source-stack / stream model. S = the Lean inlining (`inlineToks true`): the
//! inlined token list is rendered as a one-line program and run on the *real* VM with an
//! empty file system (both sides of the law are real runs), and for the `rd` cases the TeX
//! §485–§486 reading of the same lines.

use std::cell::RefCell;
use std::collections::HashMap;
use std::rc::Rc;
use texlang::traits::*;
use texlang::vm::implement_has_component;
use texlang::*;
use texlang_common as tc;
use texlang_stdlib as lib;
use vh::*;

// ------------------------------------------------------------------------------------------
// The harness-owned state type
// ------------------------------------------------------------------------------------------

#[derive(Default)]
struct HState {
    alloc: lib::alloc::Component,
    codes_cat_code: lib::codes::Component<types::CatCode>,
    codes_math_code: lib::codes::Component<types::MathCode>,
    conditional: lib::conditional::Component,
    end_line_char: lib::endlinechar::Component,
    error_mode: lib::errormode::Component,
    input: lib::input::Component<16>,
    job: lib::job::Component,
    prefix: lib::prefix::Component,
    registers_i32: lib::registers::Component<i32, 32768>,
    registers_scaled: lib::registers::Component<common::Scaled, 32768>,
    registers_glue: lib::registers::Component<common::Glue, 32768>,
    registers_token_list: lib::registers::Component<Vec<token::Token>, 256>,
    repl: lib::repl::Component,
    script: lib::script::Component,
    time: lib::time::Component,
    tracing_macros: lib::tracingmacros::Component,
    rec: String,
    file_system: Rc<RefCell<tc::InMemoryFileSystem>>,
    terminal_in: Rc<RefCell<tc::MockTerminalIn>>,
}

impl vm::TexlangState for HState {
    fn cat_code(&self, c: char) -> types::CatCode {
        lib::codes::cat_code(self, c)
    }
    fn end_line_char(&self) -> Option<char> {
        lib::endlinechar::end_line_char(self)
    }
    fn expansion_override_hook(
        token: token::Token,
        input: &mut vm::ExpansionInput<Self>,
        tag: Option<command::Tag>,
    ) -> texlang::prelude::Result<Option<token::Token>> {
        lib::expansion::noexpand_hook(token, input, tag)
    }
    fn variable_assignment_scope_hook(state: &mut Self) -> texcraft_stdext::collections::groupingmap::Scope {
        lib::prefix::variable_assignment_scope_hook(state)
    }
    fn recoverable_error_hook(
        &self,
        recoverable_error: error::TracedTexError,
    ) -> Result<(), Box<dyn error::TexError>> {
        lib::errormode::recoverable_error_hook(self, recoverable_error)
    }
}

impl lib::the::TheCompatible for HState {}

implement_has_component![HState{
    alloc: lib::alloc::Component,
    codes_cat_code: lib::codes::Component<types::CatCode>,
    codes_math_code: lib::codes::Component<types::MathCode>,
    conditional: lib::conditional::Component,
    end_line_char: lib::endlinechar::Component,
    error_mode: lib::errormode::Component,
    input: lib::input::Component<16>,
    job: lib::job::Component,
    prefix: lib::prefix::Component,
    registers_i32: lib::registers::Component<i32, 32768>,
    registers_scaled: lib::registers::Component<common::Scaled, 32768>,
    registers_glue: lib::registers::Component<common::Glue, 32768>,
    registers_token_list: lib::registers::Component<Vec<token::Token>, 256>,
    repl: lib::repl::Component,
    script: lib::script::Component,
    time: lib::time::Component,
    tracing_macros: lib::tracingmacros::Component,
}];

impl tc::HasLogging for HState {
    fn terminal_out(&self) -> Rc<RefCell<dyn std::io::Write>> {
        Rc::new(RefCell::new(std::io::sink()))
    }
}
impl tc::HasFileSystem for HState {
    fn file_system(&self) -> Rc<RefCell<dyn tc::FileSystem>> {
        self.file_system.clone()
    }
}
impl tc::HasTerminalIn for HState {
    fn terminal_in(&self) -> Rc<RefCell<dyn tc::TerminalIn>> {
        self.terminal_in.clone()
    }
}

/// Records exactly what reaches the main loop: every character token (spaces included) and
/// every undefined control sequence (`\par` is deliberately left undefined in this mode).
struct RecH;
impl vm::Handlers<HState> for RecH {
    fn character_handler(
        input: &mut vm::ExecutionInput<HState>,
        _: token::Token,
        c: char,
    ) -> texlang::prelude::Result<()> {
        input.state_mut().rec.push(c);
        Ok(())
    }
    fn undefined_command_handler(
        input: &mut vm::ExecutionInput<HState>,
        token: token::Token,
    ) -> texlang::prelude::Result<()> {
        let s = match token.value() {
            token::Value::CommandRef(cr) => cr.to_string(input.vm().cs_name_interner()),
            _ => "?".into(),
        };
        input.state_mut().rec.push_str(&s);
        input.state_mut().rec.push(';');
        Ok(())
    }
    fn unexpanded_expansion_command(
        input: &mut vm::ExecutionInput<HState>,
        token: token::Token,
    ) -> texlang::prelude::Result<()> {
        let s = match token.value() {
            token::Value::CommandRef(cr) => cr.to_string(input.vm().cs_name_interner()),
            _ => "?".into(),
        };
        input.state_mut().rec.push_str("!");
        input.state_mut().rec.push_str(&s);
        input.state_mut().rec.push(';');
        Ok(())
    }
}

/// Error classes (never message texts with input-dependent parts).
fn err_class(title: &str) -> String {
    if title.starts_with("could not read from") {
        "notfound".into()
    } else if title.starts_with("too many input levels") {
        "toodeep".into()
    } else if title.starts_with("expected an integer in the range") {
        "badstream".into()
    } else if title.starts_with("file has an unmatched opening brace") {
        "unmatched".into()
    } else if title.starts_with("failed to read from the terminal") {
        "terminal".into()
    } else if title.starts_with("there is no group to end") {
        "badgroup".into()
    } else {
        format!("other:{title}")
    }
}

#[derive(Clone, Debug, PartialEq, Eq)]
struct RunOut {
    out: String,
    err: Option<String>,
}

/// One real run. `script` = through `script::run_to_string` (with `\par` defined), else the
/// recording handlers.
fn run_vm(main: &str, files: &[(String, String)], term: &[String], script: bool) -> Result<RunOut, String> {
    caught(|| {
        let mut built_ins: HashMap<&'static str, command::BuiltIn<HState>> = lib::built_in_commands::<HState>();
        if script {
            built_ins.insert("par", lib::script::get_par());
        }
        let mut vm = vm::VM::<HState>::new_with_built_in_commands(built_ins);
        let mut fs = tc::InMemoryFileSystem::new(vm.working_directory.as_ref().unwrap());
        for (name, text) in files {
            fs.add_string_file(name, text);
        }
        vm.state.file_system = Rc::new(RefCell::new(fs));
        let mut t: tc::MockTerminalIn = Default::default();
        for l in term {
            t.add_line(l.clone());
        }
        vm.state.terminal_in = Rc::new(RefCell::new(t));
        vm.push_source("main.tex", format!("{PREAMBLE}{main}")).unwrap();
        if script {
            match lib::script::run_to_string(&mut vm) {
                Ok(s) => RunOut { out: s, err: None },
                Err(e) => RunOut { out: String::new(), err: Some(err_class(&e.error.title())) },
            }
        } else {
            let r = vm.run::<RecH>();
            let out = std::mem::take(&mut vm.state.rec);
            match r {
                Ok(()) => RunOut { out, err: None },
                Err(e) => RunOut { out, err: Some(err_class(&e.error.title())) },
            }
        }
    })
}

// ------------------------------------------------------------------------------------------
// Tokens, items, rendering, the lexing abstraction
// ------------------------------------------------------------------------------------------

/// Opaque control sequences. Index = the model's `cs n`. 100+k = `\x<letter k>` (targets of \read).
const CS_NAMES: &[&str] = &["relax", "iftrue", "iffalse", "else", "fi", "def", "q", "ua", "ub", "gdef", "p"];

/// In front of every program run on the VM: `\p` takes one undelimited argument (which may lie
/// beyond the end of the file that holds `\p`). The line ends in `%`: it yields no token.
const PREAMBLE: &str = "\\def\\p#1{(#1)}%\n";

fn cs_name(n: i64) -> String {
    if n >= 100 {
        format!("x{}", (b'a' + (n - 100) as u8) as char)
    } else {
        CS_NAMES[n as usize].to_string()
    }
}

#[derive(Clone, Debug, PartialEq, Eq)]
enum W {
    Chr(char),
    Sp,
    Bg,
    Eg,
    Cs(i64),
    Input(String),
    End,
    Call(char),
    Comment, // rd files only
    Tight,   // `!` after an `i:` word: no space after the file name (an unexpandable cs follows)
}

fn parse_word(w: &str) -> W {
    if w == "_" {
        W::Sp
    } else if w == "{" {
        W::Bg
    } else if w == "}" {
        W::Eg
    } else if w == "e" {
        W::End
    } else if w == "%" {
        W::Comment
    } else if w == "!" {
        W::Tight
    } else if let Some(n) = w.strip_prefix("i:") {
        let n = decode_name(n);
        assert!(valid_written_name(&n), "bad file name {n}");
        W::Input(n)
    } else if let Some(n) = w.strip_prefix("m:") {
        W::Call(n.chars().next().expect("macro letter"))
    } else if let Some(n) = w.strip_prefix('\\') {
        let i = CS_NAMES.iter().position(|x| *x == n).unwrap_or_else(|| panic!("unknown cs {n}"));
        W::Cs(i as i64)
    } else if w.len() == 1 && (w.as_bytes()[0].is_ascii_uppercase() || w.as_bytes()[0].is_ascii_digit()) {
        W::Chr(w.chars().next().unwrap())
    } else {
        panic!("bad word {w:?}")
    }
}

/// Written file names: components of letters and dots, separated by `/`; no empty component,
/// none starting with a dot (areas, `./`, `//`, hidden files are outside this harness).
/// Characters of the categories 1-4 and 6-8 under the catcode table the VM starts with (plain
/// TeX's): they are character tokens and so belong to a file name (TeX §526).
const NAME_SPECIALS: &str = "{}$&#^_";

fn cat_of(c: char) -> u32 {
    match c {
        '{' => 1,
        '}' => 2,
        '$' => 3,
        '&' => 4,
        '#' => 6,
        '^' => 7,
        '_' => 8,
        c if c.is_ascii_alphabetic() => 11,
        _ => 12,
    }
}

fn valid_written_name(n: &str) -> bool {
    !n.is_empty()
        && n.split('/').all(|c| !c.is_empty() && !c.starts_with('.') && c.chars().all(|x| x.is_ascii_alphabetic() || x == '.' || x == ':' || x == '>' || NAME_SPECIALS.contains(x) || (x as u32) > 127))
}

/// Case strings are ASCII: in a file name every character other than an ASCII letter, `.` and
/// `/` is written `(hex code point)`: `(e4)b.tex` is `äb.tex`, `gr(f6)(df)e`, `(1d11e)`,
/// `e(301)` (combining acute), `(3a)` the area delimiter `:`. Inside the harness, on the
/// disk and in the TeX source, names are the real characters.
fn decode_name(a: &str) -> String {
    let mut out = String::new();
    let mut it = a.chars();
    while let Some(c) = it.next() {
        if c == '(' {
            let hex: String = it.by_ref().take_while(|x| *x != ')').collect();
            out.push(char::from_u32(u32::from_str_radix(&hex, 16).expect("hex code point")).expect("code point"));
        } else {
            out.push(c);
        }
    }
    out
}

fn encode_name(n: &str) -> String {
    let mut out = String::new();
    for c in n.chars() {
        if c.is_ascii_alphabetic() || c == '.' || c == '/' || c == '=' {
            out.push(c);
        } else {
            out.push_str(&format!("({:x})", c as u32));
        }
    }
    out
}

/// The literal file name of a file section: `f:a` is `a.tex`, `F:x` (stored as `=x`) is `x`.
fn literal_name(name: &str) -> String {
    match name.strip_prefix('=') {
        Some(l) => l.to_string(),
        None => format!("{name}.tex"),
    }
}

fn file_label(name: &str) -> String {
    match name.strip_prefix('=') {
        Some(l) => format!("F:{}", encode_name(l)),
        None => format!("f:{}", encode_name(name)),
    }
}

/// What the unrepaired code did (finding C19-c): `FileLocation::parse` splits at the last dot
/// of the last component, `determine_full_path` pushed the path and called
/// `PathBuf::set_extension`, which *replaces* an extension the path part still has. Used only
/// to name the defect; computed with the real `std::path` functions.
fn legacy_resolve(w: &str) -> String {
    let mut ext = None;
    for (i, c) in w.char_indices() {
        if c == '.' {
            ext = Some(i);
        } else if c == '/' {
            ext = None;
        }
    }
    let (path, e) = match ext {
        Some(j) => (&w[..j], Some(&w[j + 1..])),
        None => (w, None),
    };
    let mut p = std::path::PathBuf::from("/wd");
    p.push(path);
    p.set_extension(e.unwrap_or("tex"));
    p.strip_prefix("/wd").unwrap().to_str().unwrap().to_string()
}

/// Written name -> literal file name. Mode 0: the code (`resolveCode`), 1: TeX (`resolveTeX`),
/// both computed by Lean; 2: the unrepaired code.
#[derive(Default)]
struct Resolver(HashMap<(u8, String), String>);
impl Resolver {
    fn resolve(&mut self, mode: u8, w: &str, drv: &mut Driver) -> String {
        if let Some(r) = self.0.get(&(mode, w.to_string())) {
            return r.clone();
        }
        let r = if mode == 2 {
            legacy_resolve(w)
        } else {
            let codes: Vec<u32> = w.chars().map(|c| c as u32).collect();
            let reply = drv.ask(&format!("rs {mode} {}", join(&codes)));
            parse_i64s(&reply).into_iter().map(|c| char::from_u32(c as u32).expect("code point")).collect()
        };
        self.0.insert((mode, w.to_string()), r.clone());
        r
    }
    /// The Lean token rules (code and TeX §526) applied to the tokens of `w` followed by a
    /// space: both must give `w` itself and consume the space (else the harness's "\input w␣ is
    /// one atom" abstraction would not be the specification's reading).
    fn name_is_whole(&mut self, w: &str, drv: &mut Driver) -> bool {
        if let Some(r) = self.0.get(&(9, w.to_string())) {
            return r == "1";
        }
        let mut v: Vec<u32> = vec![];
        for c in w.chars() {
            v.push(c as u32);
            v.push(cat_of(c));
        }
        v.extend([32, 10]);
        let want = format!("{} {}", w.chars().count() + 1, join(&w.chars().map(|c| c as u32).collect::<Vec<_>>()));
        let ok = (0..2).all(|mode| drv.ask(&format!("nt {mode} {}", join(&v))) == want);
        self.0.insert((9, w.to_string()), if ok { "1".into() } else { "0".into() });
        ok
    }
    /// For every written name the index of the file it denotes, if that file exists.
    fn bind(&mut self, mode: u8, written: &[String], files: &[SrcFile], drv: &mut Driver) -> Vec<Option<usize>> {
        written
            .iter()
            .map(|w| {
                // areas (`area:name`, `area>name`) are not supported by the code: the documented
                // outcome is the error of a file that cannot be read; the model has no areas
                if w.contains(':') || w.contains('>') {
                    return None;
                }
                let lit = self.resolve(mode, w, drv);
                files.iter().position(|f| literal_name(&f.name) == lit)
            })
            .collect()
    }
}

fn show_word(w: &W) -> String {
    match w {
        W::Chr(c) => c.to_string(),
        W::Sp => "_".into(),
        W::Bg => "{".into(),
        W::Eg => "}".into(),
        W::Cs(n) => format!("\\{}", cs_name(*n)),
        W::Input(n) => format!("i:{}", encode_name(n)),
        W::End => "e".into(),
        W::Call(c) => format!("m:{c}"),
        W::Comment => "%".into(),
        W::Tight => "!".into(),
    }
}

/// Drop the space words that the lexer would not turn into a token (line start, after a
/// space, after a control word or a file name, line end) and anything after a `%`.
fn normalize(ws: &[W], is_body: bool) -> Vec<W> {
    let mut out: Vec<W> = vec![];
    for w in ws {
        if *w == W::Sp {
            match out.last() {
                None => continue,
                Some(W::Sp) | Some(W::Cs(_)) | Some(W::Input(_)) | Some(W::End) | Some(W::Call(_)) => continue,
                _ => {}
            }
        }
        out.push(w.clone());
        if *w == W::Comment {
            break;
        }
    }
    if !is_body {
        while out.last() == Some(&W::Sp) {
            out.pop();
        }
    }
    // `!` only between a file name and an unexpandable control sequence (\relax \def \ua \ub):
    // the name scanner expands, so anything else would not end the name there
    let mut k = 0;
    while k < out.len() {
        if out[k] == W::Tight {
            let ok = k > 0 && matches!(out[k - 1], W::Input(_)) && matches!(out.get(k + 1), Some(W::Cs(0 | 5 | 7 | 8)));
            if !ok {
                out.remove(k);
                continue;
            }
        }
        k += 1;
    }
    out
}

fn n_items(ws: &[W]) -> i64 {
    ws.iter().filter(|w| **w != W::Tight).count() as i64
}

/// TeX text of a line / macro body.
fn render_words(ws: &[W], is_body: bool) -> String {
    let mut s = String::new();
    for (i, w) in ws.iter().enumerate() {
        let last = i + 1 == ws.len();
        match w {
            W::Chr(c) => s.push(*c),
            W::Sp => s.push(' '),
            W::Bg => s.push('{'),
            W::Eg => s.push('}'),
            W::Cs(n) => {
                s.push('\\');
                s.push_str(&cs_name(*n));
                s.push(' ');
            }
            W::Input(n) => {
                s.push_str("\\input ");
                s.push_str(n);
                // the end of the line terminates the name as well as a space does, and so does
                // a control sequence that is not expandable (`!`)
                if (!last || is_body) && ws.get(i + 1) != Some(&W::Tight) {
                    s.push(' ');
                }
            }
            W::End => s.push_str("\\endinput "),
            W::Call(c) => {
                s.push_str("\\m");
                s.push(*c);
                s.push(' ');
            }
            W::Comment => s.push('%'),
            W::Tight => {}
        }
    }
    s
}

// token codes shared with lean/Driver/C19.lean
const T_SP: i64 = 1;
const T_BG: i64 = 2;
const T_EG: i64 = 3;
const T_PAR: i64 = 4;
const A_END: i64 = 5;
const I_CALL: i64 = 6;

/// The token the lexer makes of the end of a line whose words are `ws` (`None`: nothing).
fn eol_token(ws: &[W], terminal: bool) -> Option<i64> {
    match ws.last() {
        None => {
            if terminal {
                None // an empty terminal line is an empty source: no line at all
            } else {
                Some(T_PAR)
            }
        }
        Some(W::Chr(_)) | Some(W::Bg) | Some(W::Eg) => Some(T_SP),
        Some(W::Sp) => None,
        Some(W::Cs(_)) | Some(W::End) | Some(W::Call(_)) | Some(W::Comment) | Some(W::Tight) => None,
        Some(W::Input(_)) => None, // consumed as the end of the file name
    }
}

struct Names(Vec<String>);
impl Names {
    fn id(&mut self, n: &str) -> i64 {
        if let Some(i) = self.0.iter().position(|x| x == n) {
            return i as i64;
        }
        self.0.push(n.to_string());
        (self.0.len() - 1) as i64
    }
}

fn enc_atom(w: &W, names: &mut Names, out: &mut Vec<i64>) {
    match w {
        W::Chr(c) => out.push(*c as i64),
        W::Sp => out.push(T_SP),
        W::Bg => out.push(T_BG),
        W::Eg => out.push(T_EG),
        W::Cs(n) => out.push(1000 + n),
        W::Input(n) => out.push(2000 + names.id(n)),
        W::End => out.push(A_END),
        W::Tight => {}
        W::Call(_) | W::Comment => panic!("not an atom"),
    }
}

#[derive(Clone, Debug)]
struct SrcFile {
    name: String,
    nl: bool,
    /// line terminators: 0 = LF, 1 = CRLF, 2 = mixed (CRLF after even lines, LF after odd ones).
    /// The code splits at `\n` only; the `\r` stays in the line, where it is a character of
    /// category 5: it acts as the end of the line (the appended \endlinechar after it is
    /// dropped with the rest of the line), so under the default \endlinechar a CRLF file gives
    /// the same tokens and the same number of lines as the LF file. (A lone `\r` inside a line
    /// would likewise end the line there and drop the rest of it; not generated.) CRLF is only
    /// used where \endlinechar keeps its default.
    eol: u8,
    lines: Vec<Vec<W>>,
}

impl SrcFile {
    fn text(&self) -> String {
        self.text_with(true)
    }
    fn text_with(&self, crlf_ok: bool) -> String {
        let mut s = String::new();
        for (i, l) in self.lines.iter().enumerate() {
            // blanks that the lexer must not turn into tokens: at the start of a line (also of
            // an otherwise empty one) and at its end; which lines get them is a fixed function
            // of the case
            let h = fxhash(&format!("{}:{i}:{}", self.name, l.len())) % 5;
            if h == 0 || h == 1 {
                s.push_str(if h == 0 { " " } else { "   " });
            }
            s.push_str(&render_words(l, false));
            if h == 1 || h == 2 {
                s.push_str("  ");
            }
            if i + 1 < self.lines.len() || self.nl {
                if crlf_ok && (self.eol == 1 || (self.eol == 2 && i % 2 == 0)) {
                    s.push('\r');
                }
                s.push('\n');
            }
        }
        s
    }
    /// Without a final newline an empty last line does not exist.
    fn canon(mut self) -> Self {
        for l in self.lines.iter_mut() {
            *l = normalize(l, false);
        }
        if !self.nl {
            while self.lines.last().map(|l| l.is_empty()).unwrap_or(false) {
                self.lines.pop();
                self.nl = true;
            }
        }
        self
    }
    fn show(&self, label: &str) -> String {
        // `+`/`-`: LF, with / without a terminator after the last line; `*`/`~`: the same with
        // CRLF; `^`/`_`: mixed
        let flag = match (self.eol, self.nl) {
            (0, true) => '+',
            (0, false) => '-',
            (1, true) => '*',
            (1, false) => '~',
            (_, true) => '^',
            (_, false) => '_',
        };
        let mut s = format!("{label}{flag}:");
        for l in &self.lines {
            for w in l {
                s.push(' ');
                s.push_str(&show_word(w));
            }
            s.push_str(" /");
        }
        s
    }
}

#[derive(Clone, Debug)]
struct InCase {
    main: SrcFile,
    macros: Vec<(char, Vec<W>)>,
    files: Vec<SrcFile>,
}

fn split_lines(content: &str) -> Vec<Vec<W>> {
    let mut lines = vec![];
    let mut cur = vec![];
    for w in content.split_ascii_whitespace() {
        if w == "/" {
            lines.push(std::mem::take(&mut cur));
        } else {
            cur.push(parse_word(w));
        }
    }
    if !cur.is_empty() {
        lines.push(cur);
    }
    lines
}

fn flag_of(l: &str) -> (bool, u8) {
    match l.chars().last() {
        Some('-') => (false, 0),
        Some('*') => (true, 1),
        Some('~') => (false, 1),
        Some('^') => (true, 2),
        Some('_') => (false, 2),
        _ => (true, 0),
    }
}

fn parse_file_section(label: &str, content: &str) -> Option<SrcFile> {
    let (l, lit) = if let Some(l) = label.strip_prefix("f:") {
        (l, false)
    } else if let Some(l) = label.strip_prefix("F:") {
        (l, true)
    } else {
        return None;
    };
    let (nl, eol) = flag_of(l);
    let l = if l.ends_with(['+', '-', '*', '~', '^', '_']) { &l[..l.len() - 1] } else { l };
    let l = &decode_name(l);
    assert!(valid_written_name(l), "bad file name {l}");
    let name = if lit { format!("={l}") } else { l.to_string() };
    Some(SrcFile { name, nl, eol, lines: split_lines(content) }.canon())
}

fn split_label(sec: &str) -> (&str, &str) {
    // label ends at the first ": " or trailing ":"
    match sec.find(": ") {
        Some(i) => (&sec[..i], &sec[i + 2..]),
        None => (sec.trim_end().trim_end_matches(':'), ""),
    }
}

impl InCase {
    fn parse(rest: &str) -> InCase {
        let mut main = None;
        let mut macros = vec![];
        let mut files = vec![];
        for sec in rest.split(" ; ") {
            let sec = sec.trim();
            if sec.is_empty() {
                continue;
            }
            let (label, content) = split_label(sec);
            if let Some(l) = label.strip_prefix("main") {
                let (nl, eol) = flag_of(l);
                main = Some(SrcFile { name: "main".into(), nl, eol, lines: split_lines(content) }.canon());
            } else if let Some(l) = label.strip_prefix("m:") {
                let body: Vec<W> = content.split_ascii_whitespace().map(parse_word).collect();
                assert!(body.iter().all(|w| !matches!(w, W::Call(_) | W::Comment | W::Bg | W::Eg)), "macro bodies: characters, spaces, cs, input, endinput");
                assert!(body.iter().all(|w| !matches!(w, W::Input(n) if n.contains(['#', '{', '}']))), "macro bodies: no # {{ }} in file names (they are written inside \\def)");
                let mut b = normalize(&body, true);
                while b.first() == Some(&W::Sp) {
                    b.remove(0);
                }
                macros.push((l.chars().next().unwrap(), b));
            } else if let Some(f) = parse_file_section(label, content) {
                files.push(f);
            } else {
                panic!("bad section label {label:?}");
            }
        }
        InCase { main: main.expect("main section"), macros, files }
    }
    fn show(&self) -> String {
        let mut parts = vec![self.main.show("main")];
        for (c, b) in &self.macros {
            let mut s = format!("m:{c}:");
            for w in b {
                s.push(' ');
                s.push_str(&show_word(w));
            }
            parts.push(s);
        }
        for f in &self.files {
            parts.push(f.show(&file_label(&f.name)));
        }
        format!("in {}", parts.join(" ; "))
    }
    /// Static nesting depth of `\input` below `f` (capped; a cycle gives the cap).
    fn depth_of(&self, f: &SrcFile, seen: usize, written: &[String], bind: &[Option<usize>]) -> usize {
        if seen >= 7 {
            return 0;
        }
        let mut d = 0;
        for w in f.lines.iter().flatten() {
            let names: Vec<&String> = match w {
                W::Input(n) => vec![n],
                W::Call(m) => self.body_of(*m).iter().filter_map(|w| if let W::Input(n) = w { Some(n) } else { None }).collect(),
                _ => vec![],
            };
            for n in names {
                if let Some(Some(k)) = written.iter().position(|x| x == n).map(|k| bind[k]) {
                    d = d.max(1 + self.depth_of(&self.files[k], seen + 1, written, bind));
                }
            }
        }
        d
    }
    fn body_of(&self, c: char) -> &[W] {
        self.macros.iter().find(|(m, _)| *m == c).map(|(_, b)| b.as_slice()).unwrap_or_else(|| panic!("macro {c} not defined"))
    }
    fn enc_file(&self, f: &SrcFile, names: &mut Names, out: &mut Vec<i64>) {
        out.push(f.lines.len() as i64);
        for l in &f.lines {
            let eol = eol_token(l, false);
            out.push(n_items(l) + eol.is_some() as i64);
            for w in l {
                match w {
                    W::Call(c) => {
                        let b = self.body_of(*c);
                        out.push(I_CALL);
                        out.push(n_items(b));
                        for a in b {
                            enc_atom(a, names, out);
                        }
                    }
                    W::Comment => panic!("% not allowed in source files"),
                    w => enc_atom(w, names, out),
                }
            }
            if let Some(t) = eol {
                out.push(t);
            }
        }
    }
    /// The driver request.
    /// Every written name that occurs anywhere, in order of first occurrence: its index is the
    /// model's file id.
    fn written_names(&self) -> Vec<String> {
        let mut names = Names(vec![]);
        let bodies = self.macros.iter().map(|(_, b)| b);
        for l in self.main.lines.iter().chain(bodies).chain(self.files.iter().flat_map(|f| f.lines.iter())) {
            for w in l {
                if let W::Input(n) = w {
                    names.id(n);
                }
            }
        }
        names.0
    }
    /// The driver request: the program and the file system *as bound* by `bind` (written-name
    /// id -> content of the file it denotes).
    fn request(&self, written: &[String], bind: &[Option<usize>]) -> String {
        let mut names = Names(written.to_vec());
        let mut v = vec![99];
        self.enc_file(&self.main, &mut names, &mut v);
        v.push(bind.iter().flatten().count() as i64);
        for (id, b) in bind.iter().enumerate() {
            if let Some(k) = b {
                v.push(id as i64);
                self.enc_file(&self.files[*k], &mut names, &mut v);
            }
        }
        assert_eq!(names.0.len(), written.len());
        format!("in {}", join(&v))
    }
    /// Main text with the macro definitions in front (each on a line ending in `%`: no token).
    fn main_text(&self) -> String {
        let mut s = String::new();
        for (c, b) in &self.macros {
            s.push_str(&format!("\\def\\m{c}{{{}}}%\n", render_words(b, true)));
        }
        s.push_str(&self.main.text());
        s
    }
    fn file_texts(&self) -> Vec<(String, String)> {
        self.files.iter().map(|f| (literal_name(&f.name), f.text())).collect()
    }
}

/// Render a plain token list (a reply of the driver) as a one-line program that lexes back
/// to exactly these tokens.
fn render_tokens(toks: &[i64]) -> String {
    let mut s = String::new();
    let mut prev_blank = true; // start of line, or after a space / control word
    for &t in toks {
        match t {
            T_SP => {
                assert!(!prev_blank, "harness: a space token after a blank cannot be rendered: {toks:?}");
                s.push(' ');
                prev_blank = true;
            }
            T_BG => {
                s.push('{');
                prev_blank = false;
            }
            T_EG => {
                s.push('}');
                prev_blank = false;
            }
            T_PAR => {
                s.push_str("\\par ");
                prev_blank = true;
            }
            t if t >= 1000 => {
                s.push('\\');
                s.push_str(&cs_name(t - 1000));
                s.push(' ');
                prev_blank = true;
            }
            t => {
                s.push(t as u8 as char);
                prev_blank = false;
            }
        }
    }
    s.push('%');
    s
}

/// What the recording handlers print for a token list of characters, spaces, `\par`, braces
/// and always-undefined / no-op control sequences (`None` if something else occurs).
fn direct_output(toks: &[i64]) -> Option<String> {
    let mut s = String::new();
    for &t in toks {
        match t {
            T_SP => s.push(' '),
            T_PAR => s.push_str("\\par;"),
            T_BG | T_EG => return None,
            t if t >= 1000 => {
                let n = t - 1000;
                if n == 0 {
                    // \relax
                } else if n == 7 || n == 8 || n >= 100 {
                    s.push_str(&format!("\\{};", cs_name(n)));
                } else {
                    return None;
                }
            }
            t => s.push(t as u8 as char),
        }
    }
    Some(s)
}

// ------------------------------------------------------------------------------------------
// rd cases
// ------------------------------------------------------------------------------------------

#[derive(Clone, Debug, PartialEq)]
enum ROp {
    Open(i64, String),
    Close(i64),
    Read(i64, char),
    GRead(i64, char), // \global\read
    IfEof(i64),
    Use(char),
    SetElc(i64), // \endlinechar=v (-1, 13 or a character of category other)
    BGroup,
    EGroup,
}

#[derive(Clone, Debug)]
struct RdCase {
    files: Vec<SrcFile>,
    term: Vec<Vec<W>>,
    ops: Vec<ROp>,
}

fn parse_rop(w: &str) -> ROp {
    let num = |s: &str| -> i64 { s.parse().unwrap_or_else(|_| panic!("bad stream number {s:?}")) };
    if let Some(r) = w.strip_prefix('o') {
        let (n, f) = r.split_once(':').expect("o<n>:<file>");
        let f = decode_name(f);
        assert!(valid_written_name(&f), "bad file name {f}");
        ROp::Open(num(n), f)
    } else if let Some(r) = w.strip_prefix('c') {
        ROp::Close(num(r))
    } else if let Some(r) = w.strip_prefix('r') {
        let (n, x) = r.split_once(':').expect("r<n>:<x>");
        ROp::Read(num(n), x.chars().next().unwrap())
    } else if let Some(r) = w.strip_prefix('R') {
        let (n, x) = r.split_once(':').expect("R<n>:<x>");
        ROp::GRead(num(n), x.chars().next().unwrap())
    } else if let Some(r) = w.strip_prefix('E') {
        let v = num(r);
        assert!(v == -1 || v == 13 || v == 42 || v == 43, "\\endlinechar: -1, 13, 42 or 43");
        ROp::SetElc(v)
    } else if w == "{" {
        ROp::BGroup
    } else if w == "}" {
        ROp::EGroup
    } else if let Some(r) = w.strip_prefix('?') {
        ROp::IfEof(num(r))
    } else if let Some(r) = w.strip_prefix("u:") {
        ROp::Use(r.chars().next().unwrap())
    } else {
        panic!("bad op {w:?}")
    }
}

fn show_rop(o: &ROp) -> String {
    match o {
        ROp::Open(n, f) => format!("o{n}:{}", encode_name(f)),
        ROp::Close(n) => format!("c{n}"),
        ROp::Read(n, x) => format!("r{n}:{x}"),
        ROp::GRead(n, x) => format!("R{n}:{x}"),
        ROp::SetElc(v) => format!("E{v}"),
        ROp::BGroup => "{".into(),
        ROp::EGroup => "}".into(),
        ROp::IfEof(n) => format!("?{n}"),
        ROp::Use(x) => format!("u:{x}"),
    }
}

impl RdCase {
    fn parse(rest: &str) -> RdCase {
        let mut c = RdCase { files: vec![], term: vec![], ops: vec![] };
        for sec in rest.split(" ; ") {
            let sec = sec.trim();
            if sec.is_empty() {
                continue;
            }
            let (label, content) = split_label(sec);
            if let Some(f) = parse_file_section(label, content) {
                c.files.push(f);
            } else if label == "t" {
                c.term = split_lines(content).iter().map(|l| normalize(l, false)).collect();
            } else if label == "ops" {
                c.ops = content.split_ascii_whitespace().map(parse_rop).collect();
            } else {
                panic!("bad section label {label:?}");
            }
        }
        for f in &c.files {
            for l in &f.lines {
                assert!(l.iter().all(|w| !matches!(w, W::Input(_) | W::End | W::Call(_) | W::Tight)), "rd files hold plain tokens");
                assert!(l.iter().all(|w| !matches!(w, W::Cs(n) if ![0, 7, 8].contains(n))), "rd files: \\relax \\ua \\ub only");
            }
        }
        c
    }
    fn show(&self) -> String {
        let mut parts: Vec<String> = self.files.iter().map(|f| f.show(&file_label(&f.name))).collect();
        let mut t = "t:".to_string();
        for l in &self.term {
            for w in l {
                t.push(' ');
                t.push_str(&show_word(w));
            }
            t.push_str(" /");
        }
        parts.push(t);
        parts.push(format!("ops: {}", self.ops.iter().map(show_rop).collect::<Vec<_>>().join(" ")));
        format!("rd {}", parts.join(" ; "))
    }
    fn enc_tline(l: &[W], terminal: bool, out: &mut Vec<i64>) {
        let mut names = Names(vec![]);
        let mut v = vec![];
        for w in l {
            if *w != W::Comment {
                enc_atom(w, &mut names, &mut v);
            }
        }
        // what the *default* end-of-line character becomes (the model attaches the current one)
        let eol = match eol_token(l, terminal) {
            Some(t) => t,
            None if l.last() == Some(&W::Comment) || (terminal && l.is_empty()) => 9,
            None => 0,
        };
        out.push(v.len() as i64);
        out.extend(v);
        out.push(eol);
    }
    fn written_names(&self) -> Vec<String> {
        let mut names = Names(vec![]);
        for o in &self.ops {
            if let ROp::Open(_, f) = o {
                names.id(f);
            }
        }
        names.0
    }
    fn request(&self, written: &[String], bind: &[Option<usize>]) -> String {
        let mut names = Names(written.to_vec());
        let mut v = vec![bind.iter().flatten().count() as i64];
        for (id, b) in bind.iter().enumerate() {
            if let Some(k) = b {
                let f = &self.files[*k];
                v.push(id as i64);
                v.push(f.lines.len() as i64);
                for l in &f.lines {
                    Self::enc_tline(l, false, &mut v);
                }
            }
        }
        v.push(self.term.len() as i64);
        for l in &self.term {
            Self::enc_tline(l, true, &mut v);
        }
        v.push(self.ops.len() as i64);
        for o in &self.ops {
            match o {
                ROp::Open(n, f) => v.extend([0, *n, names.id(f)]),
                ROp::Close(n) => v.extend([1, *n]),
                ROp::Read(n, x) => v.extend([2, *n, 100 + (*x as u8 - b'a') as i64]),
                ROp::GRead(n, x) => v.extend([8, *n, 100 + (*x as u8 - b'a') as i64]),
                ROp::SetElc(e) => v.extend([5, *e]),
                ROp::BGroup => v.push(6),
                ROp::EGroup => v.push(7),
                ROp::IfEof(n) => v.extend([3, *n]),
                ROp::Use(x) => v.extend([4, 100 + (*x as u8 - b'a') as i64]),
            }
        }
        format!("rd {}", join(&v))
    }
    fn file_texts(&self) -> Vec<(String, String)> {
        let crlf_ok = !self.ops.iter().any(|o| matches!(o, ROp::SetElc(_)));
        self.files.iter().map(|f| (literal_name(&f.name), f.text_with(crlf_ok))).collect()
    }
    fn main_text(&self) -> String {
        let mut s = String::new();
        for o in &self.ops {
            match o {
                ROp::Open(n, f) => s.push_str(&format!("\\openin{n}={f} ")),
                ROp::Close(n) => s.push_str(&format!("\\closein{n} ")),
                ROp::Read(n, x) => s.push_str(&format!("\\read{n} to\\x{x} ")),
                ROp::GRead(n, x) => s.push_str(&format!("\\global\\read{n} to\\x{x} ")),
                ROp::SetElc(v) => s.push_str(&format!("\\endlinechar={v} ")),
                ROp::BGroup => s.push('{'),
                ROp::EGroup => s.push('}'),
                ROp::IfEof(n) => s.push_str(&format!("\\ifeof{n} T\\else F\\fi ")),
                ROp::Use(x) => s.push_str(&format!("[\\x{x}]")),
            }
        }
        s.push('%');
        s
    }
}

fn status_class_rd(s: i64) -> Option<String> {
    match s {
        0 => None,
        1 => Some("badstream".into()),
        2 => Some("unmatched".into()),
        3 => Some("terminal".into()),
        4 => Some("badgroup".into()),
        _ => Some(format!("model-status-{s}")),
    }
}

fn parse_status_toks(part: &str) -> (i64, Vec<i64>) {
    let v = parse_i64s(part);
    (v[0], v[1..].to_vec())
}

// ------------------------------------------------------------------------------------------
// Generators
// ------------------------------------------------------------------------------------------

#[derive(Clone, Copy, PartialEq)]
enum Open {
    Group,
    CondThen, // inside the executed then-branch of \iftrue: may take \else…\fi or \fi
    CondElse, // inside the executed else-branch of \iffalse: only \fi
}

struct TreeGen<'a> {
    r: &'a mut Rng,
    files: Vec<SrcFile>,
    pure_files: Vec<String>,
    macros: Vec<(char, Vec<W>)>,
    open: Vec<Open>,
    structure: bool,
    max_depth: usize,
    next_name: usize,
    /// the file just generated ends with `\p`: its argument is the next token of the outer file
    want_arg: bool,
    specials_ok: bool,
}

impl<'a> TreeGen<'a> {
    fn fresh_name(&mut self) -> String {
        let s = self.fresh_plain_name();
        // characters of the categories 1-8 inside the name (never for files that macro bodies
        // name: those are written inside \def)
        if self.specials_ok && self.r.chance(1, 6) {
            let x = *self.r.pick(&["_", "&", "#", "^", "$", "{", "}", "{}", "_^"]);
            let (dir, base) = match s.rfind('/') {
                Some(j) => (s[..=j].to_string(), s[j + 1..].to_string()),
                None => (String::new(), s.clone()),
            };
            return match self.r.below(3) {
                0 => format!("{dir}{base}{x}z"),
                1 => format!("{dir}q{x}{base}"),
                _ => format!("{dir}{base}{x}"),
            };
        }
        s
    }
    fn fresh_plain_name(&mut self) -> String {
        let n = self.next_name;
        self.next_name += 1;
        let mut s = String::new();
        s.push((b'a' + (n % 26) as u8) as char);
        if n >= 26 {
            s.push((b'a' + (n / 26 % 26) as u8) as char);
        }
        // multi-byte characters anywhere in the name (2-, 3- and 4-byte, a combining mark)
        if self.r.chance(1, 4) {
            let extra = ["\u{e4}", "\u{df}", "\u{e9}", "\u{20ac}", "\u{1d11e}", "e\u{301}", "\u{f6}\u{df}"];
            let x = *self.r.pick(&extra);
            s = match self.r.below(3) {
                0 => format!("{x}{s}"),
                1 => format!("{s}{x}"),
                _ => x.to_string() + &s + x,
            };
        }
        // directory-qualified names, also with a dot in the directory
        match self.r.below(16) {
            0 | 1 => format!("s/{s}"),
            2 => format!("d.d/{s}"),
            3 => format!("\u{fc}.\u{20ac}/{s}"),
            _ => s,
        }
    }
    fn chr(&mut self) -> W {
        W::Chr((b'A' + self.r.below(26) as u8) as char)
    }
    fn plain_line(&mut self, max: u64) -> Vec<W> {
        let n = self.r.below(max + 1);
        (0..n).map(|_| if self.r.chance(1, 5) { W::Sp } else { self.chr() }).collect()
    }
    /// A file of characters only (possibly inputting other pure files): may be reused anywhere.
    fn pure_file(&mut self, depth: usize) -> String {
        let name = self.fresh_name();
        let nlines = *self.r.pick(&[0u64, 1, 1, 2, 3]);
        let mut lines = vec![];
        for _ in 0..nlines {
            let mut l = self.plain_line(3);
            if depth > 0 && self.r.chance(1, 3) {
                let f = if !self.pure_files.is_empty() && self.r.chance(1, 2) { self.r.pick(&self.pure_files).clone() } else { self.pure_file(depth - 1) };
                let pos = self.r.below(l.len() as u64 + 1) as usize;
                l.insert(pos, W::Input(f));
            }
            if self.r.chance(1, 8) {
                let pos = self.r.below(l.len() as u64 + 1) as usize;
                l.insert(pos, W::End);
            }
            lines.push(l);
        }
        let nl = self.r.chance(2, 3);
        let eol = *self.r.pick(&[0, 0, 1, 2]);
        self.files.push(SrcFile { name: name.clone(), nl, eol, lines });
        self.pure_files.push(name.clone());
        name
    }
    /// Generate a file in execution order; returns its name.
    fn file(&mut self, name: String, depth: usize) -> SrcFile {
        let mut nlines = *self.r.pick(&[0u64, 1, 1, 2, 2, 3, 4]);
        // reach the requested depth: one nested file is forced at a position chosen in advance
        // (files are generated in execution order, so the structure tracking stays exact)
        let force = depth < self.max_depth && self.r.chance(4, 5);
        if force && nlines == 0 {
            nlines = 1;
        }
        let force_line = self.r.below(nlines.max(1));
        let mut lines: Vec<Vec<W>> = vec![];
        let mut dead = false;
        for li in 0..nlines {
            if dead {
                lines.push(self.plain_line(3));
                continue;
            }
            let mut l: Vec<W> = vec![];
            let nitems = self.r.below(6);
            let force_item = if force && li == force_line { Some(self.r.below(nitems + 1)) } else { None };
            let mut ended = false;
            for ii in 0..=nitems {
                if force_item == Some(ii) && !ended {
                    let n = self.fresh_name();
                    l.push(W::Input(n.clone()));
                    let f = self.file(n, depth + 1);
                    self.files.push(f);
                    self.after_input(&mut l);
                }
                if ii == nitems {
                    break;
                }
                if ended {
                    l.push(if self.r.chance(1, 4) { W::Sp } else { self.chr() });
                    continue;
                }
                match self.r.below(20) {
                    0..=6 => {
                        let c = self.chr();
                        l.push(c)
                    }
                    7 | 8 => l.push(W::Sp),
                    9..=11 => {
                        if depth < self.max_depth && self.r.chance(2, 3) {
                            let n = self.fresh_name();
                            l.push(W::Input(n.clone()));
                            let f = self.file(n, depth + 1);
                            self.files.push(f);
                            self.after_input(&mut l);
                        } else if self.r.chance(1, 60) {
                            l.push(W::Input("missing".into()));
                        } else if !self.pure_files.is_empty() {
                            l.push(W::Input(self.r.pick(&self.pure_files).clone()));
                        }
                    }
                    12 => {
                        l.push(W::End);
                        ended = true;
                    }
                    13 | 14 => {
                        if !self.macros.is_empty() {
                            let (c, b) = self.r.pick(&self.macros).clone();
                            l.push(W::Call(c));
                            if b.contains(&W::End) {
                                ended = true;
                            }
                        }
                    }
                    15 => {
                        if self.structure && self.r.chance(1, 2) {
                            // `\p X` or `\p{XY}`: the braces delimit the argument, they are no group
                            l.push(W::Cs(10));
                            let c = self.chr();
                            if self.r.chance(1, 2) {
                                l.push(c);
                            } else {
                                let d = self.chr();
                                l.extend([W::Bg, c, d, W::Eg]);
                            }
                        } else {
                            l.push(W::Cs(0))
                        }
                    }
                    _ if !self.structure => {
                        let c = self.chr();
                        l.push(c)
                    }
                    16 => {
                        l.push(W::Bg);
                        self.open.push(Open::Group);
                        if self.r.chance(1, 2) {
                            let c = self.chr();
                            l.extend([W::Cs(5), W::Cs(6), W::Bg, c, W::Eg]);
                        }
                    }
                    17 => {
                        if self.r.chance(1, 2) {
                            l.push(W::Cs(1));
                            self.open.push(Open::CondThen);
                        } else {
                            let c = self.chr();
                            l.extend([W::Cs(2), c, W::Cs(3)]);
                            self.open.push(Open::CondElse);
                        }
                    }
                    18 => l.push(W::Cs(6)), // \q: defined or not, depending on the groups
                    _ => match self.open.pop() {
                        Some(Open::Group) => l.push(W::Eg),
                        Some(Open::CondThen) => {
                            if self.r.chance(1, 2) {
                                let c = self.chr();
                                l.extend([W::Cs(3), c, W::Cs(4)]);
                            } else {
                                l.push(W::Cs(4));
                            }
                        }
                        Some(Open::CondElse) => l.push(W::Cs(4)),
                        None => {}
                    },
                }
            }
            if ended {
                dead = true;
            }
            // a macro whose argument lies beyond the end of this file
            if li + 1 == nlines && !ended && depth > 0 && self.structure && self.r.chance(1, 6) {
                l.push(W::Cs(10));
                self.want_arg = true;
            }
            lines.push(l);
        }
        let nl = self.r.chance(2, 3);
        // endings: further blank lines after the last one
        if !self.want_arg && self.r.chance(1, 5) {
            for _ in 0..1 + self.r.below(2) {
                lines.push(vec![]);
            }
        }
        let eol = *self.r.pick(&[0, 0, 1, 2]);
        SrcFile { name, nl, eol, lines }
    }
    /// Directly after an `\input` whose file has just been generated.
    fn after_input(&mut self, l: &mut Vec<W>) {
        if self.want_arg {
            self.want_arg = false;
            let c = self.chr();
            l.push(c);
        } else if self.r.chance(1, 5) {
            // the name ends at an unexpandable control sequence instead of a space
            l.push(W::Tight);
            l.push(W::Cs(*self.r.pick(&[0, 7, 8])));
        }
    }
    fn case(r: &'a mut Rng, structure: bool, max_depth: usize) -> InCase {
        let mut g = TreeGen { r, files: vec![], pure_files: vec![], macros: vec![], open: vec![], structure, max_depth, next_name: 0, want_arg: false, specials_ok: false };
        for _ in 0..g.r.below(3) {
            g.pure_file(1);
        }
        for k in 0..g.r.below(3) {
            let n = 1 + g.r.below(4);
            let mut b: Vec<W> = vec![];
            for _ in 0..n {
                match g.r.below(8) {
                    0 | 1 if !g.pure_files.is_empty() => b.push(W::Input(g.r.pick(&g.pure_files).clone())),
                    2 => b.push(W::End),
                    3 => b.push(W::Sp),
                    _ => {
                        let c = g.chr();
                        b.push(c)
                    }
                }
            }
            g.macros.push(((b'a' + k as u8) as char, b));
        }
        g.specials_ok = true;
        let mut main = g.file("main".into(), 0);
        // close what is still open
        let mut closing = vec![];
        while let Some(o) = g.open.pop() {
            closing.push(if o == Open::Group { W::Eg } else { W::Cs(4) });
        }
        if !closing.is_empty() && !main.lines.iter().flatten().any(|w| *w == W::End || matches!(w, W::Call(c) if g.macros.iter().any(|(m, b)| m == c && b.contains(&W::End)))) {
            main.lines.push(closing);
        }
        let pure = std::mem::take(&mut g.pure_files);
        let mut c = InCase { main, macros: std::mem::take(&mut g.macros), files: std::mem::take(&mut g.files) };
        if g.r.chance(1, 2) {
            let mut words: Vec<&mut W> = c.main.lines.iter_mut().flatten().collect();
            for (_, b) in c.macros.iter_mut() {
                words.extend(b.iter_mut());
            }
            add_name_variants(&mut c.files, words, &pure, false, g.r);
        }
        InCase::parse(c.show().strip_prefix("in ").unwrap())
    }
}

const NAME_VARIANTS: &[&str] = &["", ".tex", ".tex.tex", ".TEX", ".", ".dat", ".tex.dat"];

/// The file-name ingredient: next to a generated file `x.tex` put files `x`, `x.tex.tex`,
/// `x.TEX`, `x.`, `x.dat`, `x.tex.dat` with other contents, write some names with the
/// (equivalent) explicit `.tex`, and let inputs of files without structure name any variant.
fn add_name_variants<'a>(files: &'a mut Vec<SrcFile>, mut words: Vec<&'a mut W>, free: &[String], all_free: bool, r: &mut Rng) {
    let stems: Vec<String> = files.iter().filter(|f| !f.name.starts_with('=')).map(|f| f.name.clone()).collect();
    let mut k = 0u8;
    for st in &stems {
        if r.chance(2, 3) {
            for v in NAME_VARIANTS {
                if *v != ".tex" && r.chance(2, 5) {
                    k = (k + 1) % 10;
                    let mut lines = vec![vec![W::Chr((b'0' + k) as char), W::Chr((b'A' + r.below(26) as u8) as char)]];
                    if r.chance(1, 3) {
                        lines.push(vec![W::Chr((b'0' + k) as char)]);
                    }
                    files.push(SrcFile { name: format!("={st}{v}"), nl: r.chance(2, 3), eol: *r.pick(&[0, 0, 1, 2]), lines });
                }
            }
        }
    }
    let existing: Vec<String> = files.iter().map(|f| literal_name(&f.name)).collect();
    // the words of the files themselves
    let mut inner: Vec<&mut W> = files.iter_mut().flat_map(|f| f.lines.iter_mut().flatten()).collect();
    words.append(&mut inner);
    for w in words {
        if let W::Input(n) = w {
            if !stems.contains(n) {
                continue;
            }
            if (all_free || free.contains(n)) && r.chance(1, 2) {
                // mostly a variant that exists (under TeX's rule or literally)
                let mut v = *r.pick(NAME_VARIANTS);
                for _ in 0..3 {
                    let lit = format!("{n}{v}");
                    if existing.contains(&lit) || existing.contains(&format!("{lit}.tex")) {
                        break;
                    }
                    v = *r.pick(NAME_VARIANTS);
                }
                *n = format!("{n}{v}");
            } else if r.chance(1, 4) {
                *n = format!("{n}.tex");
            }
        }
    }
}

fn gen_rd_line(r: &mut Rng) -> Vec<W> {
    let n = r.below(6);
    let mut l = vec![];
    for _ in 0..n {
        l.push(match r.below(14) {
            0..=4 => W::Chr((b'A' + r.below(26) as u8) as char),
            5 => W::Sp,
            6 | 7 => W::Bg,
            8 | 9 => W::Eg,
            10 => W::Cs(0),
            11 => W::Cs(7),
            _ => W::Chr((b'0' + r.below(10) as u8) as char),
        });
    }
    if r.chance(1, 8) {
        l.push(W::Comment);
    }
    l
}

fn gen_rd(r: &mut Rng, wide: bool) -> RdCase {
    let nfiles = 1 + r.below(3);
    let mut files = vec![];
    for k in 0..nfiles {
        let nlines = *r.pick(&[0u64, 1, 2, 3, 3, 4, 5]);
        let mut lines: Vec<Vec<W>> = (0..nlines).map(|_| gen_rd_line(r)).collect();
        // bias: make the braces balance over the file most of the time
        if r.chance(3, 4) {
            let mut depth = 0i64;
            for l in lines.iter_mut() {
                let mut keep = vec![];
                for w in l.iter() {
                    match w {
                        W::Bg => {
                            depth += 1;
                            keep.push(w.clone())
                        }
                        W::Eg => {
                            if depth > 0 || r.chance(1, 6) {
                                depth = (depth - 1).max(0);
                                keep.push(w.clone())
                            }
                        }
                        _ => keep.push(w.clone()),
                    }
                }
                *l = keep;
            }
            if depth > 0 && !lines.is_empty() {
                let comment = lines.last().unwrap().last() == Some(&W::Comment);
                let last = lines.last_mut().unwrap();
                if comment {
                    last.pop();
                }
                for _ in 0..depth {
                    last.push(W::Eg);
                }
            }
        }
        let mut name = ((b'a' + k as u8) as char).to_string();
        if r.chance(1, 4) {
            name = match r.below(4) {
                0 => format!("\u{fc}{name}"),
                1 => format!("{name}\u{df}\u{20ac}"),
                2 => format!("\u{1d11e}/{name}\u{e9}"),
                _ => format!("e\u{301}.d/{name}"),
            };
        }
        // line terminators LF / CRLF / mixed; endings: none, one, or further blank lines
        for _ in 0..*r.pick(&[0u64, 0, 0, 1, 2]) {
            lines.push(vec![]);
        }
        files.push(SrcFile { name, nl: r.chance(2, 3), eol: *r.pick(&[0, 0, 1, 2]), lines }.canon());
    }
    let nterm = *r.pick(&[0u64, 1, 3, 6, 10, 14, 20]);
    let term: Vec<Vec<W>> = (0..nterm).map(|_| normalize(&gen_rd_line(r), false)).collect();
    // the streams this script works on; most are opened up front (in random order, mixed
    // with the first operations)
    let all: Vec<i64> = (0..16).collect();
    let nstreams = if wide { 2 + r.below(15) } else { 1 + r.below(3) } as usize;
    let mut streams: Vec<i64> = vec![];
    while streams.len() < nstreams {
        let n = if wide { *r.pick(&all) } else { *r.pick(&[0, 1, 7, 15, 8]) };
        if !streams.contains(&n) {
            streams.push(n);
        }
    }
    let nops = 1 + r.below(if wide { 30 } else { 14 });
    let mut ops = vec![];
    let rich = r.chance(1, 3);
    let mut gdepth = 0i64;
    let mut to_open: Vec<i64> = streams.iter().copied().filter(|_| r.chance(5, 6)).collect();
    for _ in 0..nops {
        let n = *r.pick(&streams);
        let x = (b'a' + r.below(3) as u8) as char;
        if !to_open.is_empty() && r.chance(2, 3) {
            let n = to_open.pop().unwrap();
            ops.push(ROp::Open(n, files[r.below(files.len() as u64) as usize].name.clone()));
            continue;
        }
        // \endlinechar changes, groups and \global\read in a third of the scripts
        if rich && r.chance(1, 5) {
            match r.below(5) {
                0 | 1 => ops.push(ROp::SetElc(*r.pick(&[-1, 13, 42, 43, 42]))),
                2 | 3 => {
                    ops.push(ROp::BGroup);
                    gdepth += 1;
                }
                _ => {
                    if gdepth > 0 || r.chance(1, 30) {
                        ops.push(ROp::EGroup);
                        gdepth = (gdepth - 1).max(0);
                    }
                }
            }
            continue;
        }
        ops.push(match r.below(16) {
            0 | 1 => {
                let f = if r.chance(1, 8) { "zz".to_string() } else { files[r.below(files.len() as u64) as usize].name.clone() };
                ROp::Open(if r.chance(1, 40) { 16 } else { n }, f)
            }
            2..=8 => {
                let k = if r.chance(1, 14) { *r.pick(&[-1, 16, 17, 200]) } else { n };
                if rich && r.chance(1, 3) {
                    ROp::GRead(k, x)
                } else {
                    ROp::Read(k, x)
                }
            }
            9 | 10 => ROp::Use(x),
            11..=13 => ROp::IfEof(if r.chance(1, 40) { 16 } else { n }),
            _ => ROp::Close(if r.chance(1, 40) { 16 } else { n }),
        });
        if let Some(ROp::Read(_, x) | ROp::GRead(_, x)) = ops.last().cloned() {
            if r.chance(2, 3) {
                ops.push(ROp::Use(x));
            }
            if r.chance(1, 2) {
                ops.push(ROp::IfEof(n));
            }
        }
    }
    for _ in 0..gdepth {
        ops.push(ROp::EGroup);
        if r.chance(1, 2) {
            ops.push(ROp::Use((b'a' + r.below(3) as u8) as char));
        }
    }
    let mut files = files;
    if r.chance(1, 2) {
        // \openin with every variant of the names (all rd files are plain)
        let mut names: Vec<W> = ops.iter().map(|o| if let ROp::Open(_, f) = o { W::Input(f.clone()) } else { W::Sp }).collect();
        add_name_variants(&mut files, names.iter_mut().collect(), &[], true, r);
        for (o, w) in ops.iter_mut().zip(names) {
            if let (ROp::Open(_, f), W::Input(n)) = (o, w) {
                *f = n;
            }
        }
    }
    RdCase { files, term, ops }
}

// ------------------------------------------------------------------------------------------
// The property
// ------------------------------------------------------------------------------------------

#[derive(Default)]
struct C19 {
    res: Resolver,
}

const SIG_ENDINPUT: &str = "in: \\endinput drops the rest of its line";
const SIG_EXT: &str = "name: an extension in the path part is replaced instead of kept (PathBuf::set_extension)";
const SIG_ELC: &str = "rd: the first unread line of a stream carries the \\endlinechar of the previous \\read";
const SIG_EOF: &str = "rd: stream closed after its last real line (TeX: after the appended empty line)";

impl C19 {
    /// Output and error class of the real VM on a plain token list (recording handlers).
    fn run_stream(cache: &mut HashMap<Vec<i64>, Result<RunOut, String>>, toks: &[i64]) -> Result<RunOut, String> {
        if let Some(r) = cache.get(toks) {
            return r.clone();
        }
        let r = match direct_output(toks) {
            Some(s) => Ok(RunOut { out: s, err: None }),
            None => run_vm(&render_tokens(toks), &[], &[], false),
        };
        cache.insert(toks.to_vec(), r.clone());
        r
    }

    fn run_in(&mut self, c: &InCase, chain: Option<i64>, drv: &mut Driver) -> CaseOutcome {
        let mut out = CaseOutcome::default();
        let n_inputs = c.main.lines.iter().chain(c.files.iter().flat_map(|f| f.lines.iter())).flatten().filter(|w| matches!(w, W::Input(_) | W::End | W::Call(_))).count();
        out.nontrivial = n_inputs > 0;
        // Which file each written name denotes: by the code (M), by TeX (S), by the unrepaired
        // code (only to name finding C19-c).
        let written = c.written_names();
        for w in &written {
            if !self.res.name_is_whole(w, drv) {
                out.fail(Kind::ModelVsSpec, "in", "name: the token rule does not read the written name as one name", w.clone());
            }
            if w.chars().any(|x| NAME_SPECIALS.contains(x)) {
                out.tag("name:character-of-category-1-to-8");
            }
        }
        let b_code = self.res.bind(0, &written, &c.files, drv);
        let b_tex = self.res.bind(1, &written, &c.files, drv);
        let b_leg = self.res.bind(2, &written, &c.files, drv);
        let ask5 = |drv: &mut Driver, b: &[Option<usize>]| -> Vec<String> {
            let req = c.request(&written, b);
            let reply = drv.ask(&req);
            let parts: Vec<String> = reply.split('|').map(|s| s.trim().to_string()).collect();
            if parts.len() != 6 {
                panic!("driver reply malformed: {reply} (request {req})");
            }
            parts
        };
        let parts_code = ask5(drv, &b_code);
        let parts = if b_tex == b_code { parts_code.clone() } else { ask5(drv, &b_tex) };
        // Finding C19-c is repaired in /repo (fbe0742): its signature is retired, nothing is
        // named after the unrepaired resolution any more (set C19_LEGACY_NAMES to get it back).
        let parts_leg = if std::env::var("C19_LEGACY_NAMES").is_ok() && (b_leg != b_code || b_leg != b_tex) { Some(ask5(drv, &b_leg)) } else { None };
        let (m_status, m_toks) = parse_status_toks(&parts_code[0]);
        let wf = parts[1] == "1";
        let s_lex = parse_i64s(&parts[2]);
        let s_tex = parse_i64s(&parts[3]);
        let end_last = parts[4] == "1";
        if b_tex != b_code {
            out.fail(Kind::ModelVsSpec, "in", "name: the code's resolution differs from TeX's", format!("written: {written:?}
code: {b_code:?}
TeX: {b_tex:?}"));
        }
        for w in &written {
            let dots = w.rsplit('/').next().unwrap().matches('.').count();
            out.tag(format!("name:{}{}{}", if w.contains('/') { "dir/" } else { "" }, match dots { 0 => "bare", 1 => "one-dot", _ => "several-dots" }, if w.ends_with('.') { "-trailing" } else { "" }));
            if !w.is_ascii() {
                let before_dot = w.rfind('.').map(|j| !w[..j].is_ascii()).unwrap_or(false);
                out.tag(if before_dot { "name:multi-byte-before-a-dot" } else { "name:multi-byte" });
            }
        }
        {
            let lits: Vec<String> = c.files.iter().map(|f| literal_name(&f.name)).collect();
            if lits.iter().any(|l| lits.iter().any(|m| *m == format!("{l}.tex"))) {
                out.tag("name:bare-file-next-to-tex-file");
            }
            if b_leg != b_code {
                out.tag("name:legacy-resolution-differs");
            }
        }
        let main_text = c.main_text();
        let files = c.file_texts();

        // tags
        out.tag(format!("in:files={}", c.files.len().min(9)));
        out.tag(if wf { "in:wf" } else { "in:outside-quantifier" });
        out.tag(format!("in:model-status={m_status}"));
        if !end_last {
            out.tag("in:endinput-mid-line");
        }
        out.tag(format!("in:depth={}", c.depth_of(&c.main, 0, &written, &b_tex).min(7)));
        for f in c.files.iter().chain(std::iter::once(&c.main)) {
            let net = |open: &dyn Fn(&W) -> bool, close: &dyn Fn(&W) -> bool| -> i64 {
                f.lines.iter().flatten().map(|w| open(w) as i64 - close(w) as i64).sum()
            };
            if net(&|w| *w == W::Bg, &|w| *w == W::Eg) != 0 {
                out.tag("in:file-ends-inside-group");
            }
            if net(&|w| matches!(w, W::Cs(1) | W::Cs(2)), &|w| *w == W::Cs(4)) != 0 {
                out.tag("in:file-ends-inside-conditional");
            }
            if f.lines.is_empty() {
                out.tag("in:empty-file");
            }
            if !f.nl {
                out.tag("in:no-final-newline");
            }
            if f.lines.iter().any(|l| l.is_empty()) {
                out.tag("in:empty-line");
            }
            for l in &f.lines {
                for (i, w) in l.iter().enumerate() {
                    let pos = if i == 0 && l.len() == 1 { "only" } else if i == 0 { "first" } else if i + 1 == l.len() { "last" } else { "middle" };
                    match w {
                        W::Input(_) => out.tag(format!("in:input-{pos}")),
                        W::End => out.tag(format!("in:endinput-{pos}")),
                        W::Call(m) => {
                            let b = c.body_of(*m);
                            if b.iter().any(|w| matches!(w, W::Input(_))) {
                                out.tag("in:input-in-macro");
                            }
                            if b.contains(&W::End) {
                                out.tag("in:endinput-in-macro");
                            }
                        }
                        W::Bg | W::Eg => out.tag("in:group-token"),
                        W::Cs(1..=4) => out.tag("in:conditional-token"),
                        _ => {}
                    }
                }
            }
        }

        let i = match run_vm(&main_text, &files, &[], false) {
            Ok(r) => r,
            Err(p) => {
                out.fail(Kind::ImplPanic, "in", format!("panic {}", strip_msg(&p)), format!("VM panicked: {p}\nmain: {main_text:?}\nfiles: {files:?}"));
                return out;
            }
        };
        out.tag(format!("in:impl-{}", i.err.clone().unwrap_or_else(|| "ok".into()).split(':').next().unwrap()));
        let mut cache = HashMap::new();
        let ctx = |what: &str, exp: &dyn std::fmt::Debug| format!("{what}\nmain: {main_text:?}\nfiles: {files:?}\nimpl: {i:?}\nexpected: {exp:?}");

        // Does the run equal what the model / the inlining gives when names are bound as the
        // unrepaired code bound them? Then the difference is finding C19-c.
        let mut legacy_explains = |i: &RunOut, cache: &mut HashMap<Vec<i64>, Result<RunOut, String>>| -> bool {
            let Some(pl) = &parts_leg else { return false };
            let (st, toks) = parse_status_toks(&pl[0]);
            let by_model = match st {
                0 => Self::run_stream(cache, &toks).ok().as_ref() == Some(i),
                1 => i.err.as_deref() == Some("notfound"),
                2 => i.err.as_deref() == Some("toodeep"),
                _ => false,
            };
            by_model
                || Self::run_stream(cache, &parse_i64s(&pl[3])).ok().as_ref() == Some(i)
                || Self::run_stream(cache, &parse_i64s(&pl[2])).ok().as_ref() == Some(i)
        };
        let sig_m = |default: &str, explained: bool| -> String { if explained { SIG_EXT.to_string() } else { default.to_string() } };

        // ---- I vs M
        match m_status {
            3 => out.fail(Kind::ImplVsModel, "in", "in: model out of fuel", ctx("model ran out of fuel", &"")),
            0 => match Self::run_stream(&mut cache, &m_toks) {
                Ok(e) => {
                    if e != i {
                        let ex = legacy_explains(&i, &mut cache);
                        out.fail(Kind::ImplVsModel, "in", sig_m("in: output differs from the source-stack model", ex), ctx("model token stream run on the VM", &e));
                    }
                }
                Err(p) => out.fail(Kind::ImplPanic, "in", format!("panic {}", strip_msg(&p)), format!("VM panicked on the model's stream: {p}")),
            },
            s => {
                let cls = if s == 1 { "notfound" } else { "toodeep" };
                if i.err.as_deref() != Some(cls) {
                    let ex = legacy_explains(&i, &mut cache);
                    out.fail(Kind::ImplVsModel, "in", sig_m(&format!("in: model says {cls}"), ex), ctx("model error class", &cls));
                } else if let Some(d) = direct_output(&m_toks) {
                    if d != i.out {
                        let ex = legacy_explains(&i, &mut cache);
                        out.fail(Kind::ImplVsModel, "in", sig_m("in: output before the error differs from the model", ex), ctx("model output before error", &d));
                    }
                }
            }
        }

        // ---- M vs S (theorems input_inlines, endinput_finishes_line_partial)
        if wf && (m_status != 0 || m_toks != s_lex) {
            out.fail(Kind::ModelVsSpec, "in", "in: model differs from inlining", format!("model: {m_status} {m_toks:?}\ninline: {s_lex:?}"));
        }
        // theorem endinput_is_tex_on_truncated_program: TeX on the program with the rest of every
        // \endinput line deleted is the code's inlining (which the run is compared with)
        if parse_i64s(&parts[5]) != s_lex {
            out.fail(Kind::ModelVsSpec, "in", "in: TeX on the truncated program differs from the code's inlining", format!("{:?}\n{s_lex:?}", parts[5]));
        }
        if end_last && s_lex != s_tex {
            out.fail(Kind::ModelVsSpec, "in", "in: inlinings differ although every \\endinput ends its line", format!("{s_lex:?}\n{s_tex:?}"));
        }

        // ---- I vs S
        if wf {
            match Self::run_stream(&mut cache, &s_tex) {
                Ok(e) => {
                    if e != i {
                        let lex = Self::run_stream(&mut cache, &s_lex);
                        // C19-a only if some \endinput is not last on its line, the model (which
                        // drops the rest of that line and nothing else) reproduces the run
                        // exactly, and so does the inlining with exactly that deviation
                        let m_same = m_status == 0 && Self::run_stream(&mut cache, &m_toks).ok().as_ref() == Some(&i);
                        let sig = if lex.as_ref().ok() == Some(&i) && !end_last && m_same && b_tex == b_code {
                            SIG_ENDINPUT
                        } else if legacy_explains(&i, &mut cache) {
                            SIG_EXT
                        } else {
                            "in: output differs from the inlined program"
                        };
                        out.fail(Kind::ImplVsSpec, "in", sig, ctx(&format!("inlined program (TeX): {:?}", render_tokens(&s_tex)), &e));
                    }
                }
                Err(p) => out.fail(Kind::ImplPanic, "in", format!("panic {}", strip_msg(&p)), format!("VM panicked on the inlined program: {p}")),
            }
            // second stream: the public script runner on both sides
            let a = run_vm(&main_text, &files, &[], true);
            let b = run_vm(&render_tokens(&s_tex), &[], &[], true);
            match (a, b) {
                (Ok(a), Ok(b)) => {
                    out.tag("in:script-stream");
                    if a != b {
                        let l = run_vm(&render_tokens(&s_lex), &[], &[], true);
                        let leg = parts_leg.as_ref().map(|pl| {
                            let (st, _) = parse_status_toks(&pl[0]);
                            (st == 1 && a.err.as_deref() == Some("notfound"))
                                || (st == 2 && a.err.as_deref() == Some("toodeep"))
                                || [2usize, 3].iter().any(|k| run_vm(&render_tokens(&parse_i64s(&pl[*k])), &[], &[], true).ok().as_ref() == Some(&a))
                        });
                        let m_same = m_status == 0 && run_vm(&render_tokens(&m_toks), &[], &[], true).ok().as_ref() == Some(&a);
                        let sig = if l.as_ref().ok() == Some(&a) && !end_last && m_same && b_tex == b_code {
                            SIG_ENDINPUT
                        } else if leg == Some(true) {
                            SIG_EXT
                        } else {
                            "in: script output differs from the inlined program"
                        };
                        out.fail(Kind::ImplVsSpec, "in_script", sig, format!("main: {main_text:?}\nfiles: {files:?}\nwith files: {a:?}\ninlined: {b:?}"));
                    }
                }
                (Err(p), _) | (_, Err(p)) => out.fail(Kind::ImplPanic, "in_script", format!("panic {}", strip_msg(&p)), format!("run_to_string panicked: {p}")),
            }
        } else if let Some(n) = chain {
            // beyond the documented limit of 100 levels the run must stop with the documented error
            if n >= 100 && i.err.as_deref() != Some("toodeep") {
                out.fail(Kind::ImplVsSpec, "in", "in: no error beyond 100 input levels", ctx("expected: too many input levels", &""));
            }
            if n < 100 {
                out.fail(Kind::ModelVsSpec, "in", "in: chain below the limit is not well-formed", ctx("WF false", &""));
            }
        }
        out
    }

    fn run_rd(&mut self, c: &RdCase, drv: &mut Driver) -> CaseOutcome {
        let mut out = CaseOutcome::default();
        out.nontrivial = c.ops.iter().any(|o| matches!(o, ROp::Read(..) | ROp::GRead(..)));
        let written = c.written_names();
        for w in &written {
            if !self.res.name_is_whole(w, drv) {
                out.fail(Kind::ModelVsSpec, "rd", "name: the token rule does not read the written name as one name", w.clone());
            }
            if w.chars().any(|x| NAME_SPECIALS.contains(x)) {
                out.tag("name:character-of-category-1-to-8");
            }
        }
        let b_code = self.res.bind(0, &written, &c.files, drv);
        let b_tex = self.res.bind(1, &written, &c.files, drv);
        let b_leg = self.res.bind(2, &written, &c.files, drv);
        let ask2 = |drv: &mut Driver, b: &[Option<usize>]| -> Vec<String> {
            let req = c.request(&written, b);
            let reply = drv.ask(&req);
            let parts: Vec<String> = reply.split('|').map(|s| s.trim().to_string()).collect();
            if parts.len() != 4 {
                panic!("driver reply malformed: {reply} (request {req})");
            }
            parts
        };
        let parts_code = ask2(drv, &b_code);
        let parts = if b_tex == b_code { parts_code.clone() } else { ask2(drv, &b_tex) };
        let parts_leg = if std::env::var("C19_LEGACY_NAMES").is_ok() && (b_leg != b_code || b_leg != b_tex) { Some(ask2(drv, &b_leg)) } else { None };
        let (m_status, m_toks) = parse_status_toks(&parts_code[0]);
        let (s_status, s_toks) = parse_status_toks(&parts[1]);
        if b_tex != b_code {
            out.fail(Kind::ModelVsSpec, "rd", "name: the code's resolution differs from TeX's", format!("written: {written:?}
code: {b_code:?}
TeX: {b_tex:?}"));
        }
        for w in &written {
            let dots = w.rsplit('/').next().unwrap().matches('.').count();
            out.tag(format!("name:{}{}{}", if w.contains('/') { "dir/" } else { "" }, match dots { 0 => "bare", 1 => "one-dot", _ => "several-dots" }, if w.ends_with('.') { "-trailing" } else { "" }));
            if !w.is_ascii() {
                let before_dot = w.rfind('.').map(|j| !w[..j].is_ascii()).unwrap_or(false);
                out.tag(if before_dot { "name:multi-byte-before-a-dot" } else { "name:multi-byte" });
            }
        }
        {
            let lits: Vec<String> = c.files.iter().map(|f| literal_name(&f.name)).collect();
            if lits.iter().any(|l| lits.iter().any(|m| *m == format!("{l}.tex"))) {
                out.tag("name:bare-file-next-to-tex-file");
            }
            if b_leg != b_code {
                out.tag("name:legacy-resolution-differs");
            }
        }
        let main_text = c.main_text();
        let files = c.file_texts();
        let term: Vec<String> = c.term.iter().map(|l| render_words(l, false)).collect();

        for o in &c.ops {
            out.tag(match o {
                ROp::Open(n, _) => format!("rd:openin{}", if *n > 15 { "-bad" } else { "" }),
                ROp::Close(n) => format!("rd:closein{}", if *n > 15 { "-bad" } else { "" }),
                ROp::Read(n, _) => format!("rd:read{}", if *n < 0 || *n > 15 { "-terminal-index" } else { "" }),
                ROp::GRead(..) => "rd:global-read".into(),
                ROp::SetElc(v) => format!("rd:endlinechar={v}"),
                ROp::BGroup => "rd:begin-group".into(),
                ROp::EGroup => "rd:end-group".into(),
                ROp::IfEof(n) => format!("rd:ifeof{}", if *n > 15 { "-bad" } else { "" }),
                ROp::Use(_) => "rd:use".into(),
            });
        }
        let mut used: Vec<i64> = c.ops.iter().filter_map(|o| match o { ROp::Open(n, _) if *n < 16 => Some(*n), _ => None }).collect();
        used.sort();
        used.dedup();
        out.tag(format!("rd:streams-opened={}", used.len()));
        for f in &c.files {
            if f.lines.is_empty() {
                out.tag("rd:empty-file");
            }
            if !f.nl {
                out.tag("rd:no-final-newline");
            }
            if f.lines.iter().any(|l| l.contains(&W::Bg) && !l.contains(&W::Eg)) {
                out.tag("rd:multi-line-group");
            }
        }
        out.tag(format!("rd:model-status={m_status}"));
        out.tag(format!("rd:spec-status={s_status}"));

        let i = match run_vm(&main_text, &files, &term, false) {
            Ok(r) => r,
            Err(p) => {
                out.fail(Kind::ImplPanic, "rd", format!("panic {}", strip_msg(&p)), format!("VM panicked: {p}\nmain: {main_text:?}\nfiles: {files:?}"));
                return out;
            }
        };
        // The macro bodies are observed through the characters they print; braces in a body
        // open and close groups silently.
        let show = |toks: &[i64]| -> String {
            let t: Vec<i64> = toks.iter().copied().filter(|t| *t != T_BG && *t != T_EG).collect();
            direct_output(&t).expect("rd tokens are printable")
        };
        let m = RunOut { out: show(&m_toks), err: status_class_rd(m_status) };
        let s = RunOut { out: show(&s_toks), err: status_class_rd(s_status) };
        let ctx = |what: &str| format!("{what}\nmain: {main_text:?}\nfiles: {files:?}\nterminal: {term:?}\nimpl:  {i:?}\nmodel: {m:?}\nTeX:   {s:?}");
        // finding C19-c: the run is what model / TeX give with names bound as the unrepaired code did
        let legacy_explains = parts_leg.as_ref().map(|pl| {
            pl.iter().any(|part| {
                let (st, toks) = parse_status_toks(part);
                RunOut { out: show(&toks), err: status_class_rd(st) } == i
            })
        }) == Some(true);
        let mix = |k: usize| -> RunOut {
            let (st, toks) = parse_status_toks(&parts_code[k]);
            RunOut { out: show(&toks), err: status_class_rd(st) }
        };
        if i != m {
            let has_elc = c.ops.iter().any(|o| matches!(o, ROp::SetElc(_)));
            let sig = if legacy_explains {
                SIG_EXT
            } else if has_elc && i == mix(3) {
                SIG_ELC
            } else {
                "rd: output differs from the stream model"
            };
            out.fail(Kind::ImplVsModel, "rd", sig, ctx("I vs M"));
        }
        if m != s {
            out.tag("rd:model-differs-from-tex");
        }
        if i != s {
            // The model deviates from TeX in exactly one documented way (a stream is closed as
            // soon as its last real line has been read: `readFile` vs `texReadFile`); a
            // difference that the model reproduces is that defect, anything else is new.
            // The model deviates from TeX in exactly one way: a stream is closed as soon as its
            // last real line has been read (C19-b: `readFile` vs `texReadFile`). The unrepaired
            // lexer (fix-pending C19-d) additionally gave the first unread line of a stream the
            // \endlinechar of the previous \read. A known signature is emitted only if the model
            // (C19-b) / the model with the unrepaired lexer (C19-d) reproduces the run exactly,
            // and undoing exactly that deviation gives TeX's answer.
            let has_elc = c.ops.iter().any(|o| matches!(o, ROp::SetElc(_)));
            let sig = if i == m && b_tex == b_code {
                SIG_EOF.to_string()
            } else if b_tex == b_code && has_elc && i == mix(3) && m == s {
                SIG_ELC.to_string()
            } else if b_tex == b_code && has_elc && i == mix(3) {
                format!("{SIG_ELC} + {SIG_EOF}")
            } else if legacy_explains {
                SIG_EXT.to_string()
            } else {
                "rd: output differs from TeX".to_string()
            };
            out.fail(Kind::ImplVsSpec, "rd", sig, ctx("I vs S (TeX §485-486)"));
        }
        out
    }
}

fn lim_case(n: i64, v: i64) -> InCase {
    // main inputs c1, c_k inputs c_{k+1}, the last prints X (v = 0) or inputs itself (v = 1)
    let name = |k: i64| -> String {
        let k = k as usize;
        format!("c{}{}", (b'a' + (k / 26) as u8) as char, (b'a' + (k % 26) as u8) as char)
    };
    let mut files = vec![];
    for k in 1..=n {
        let mut l = vec![W::Chr('A')];
        if k < n {
            l.push(W::Input(name(k + 1)));
            l.push(W::Chr('B'));
        } else if v == 1 {
            l.push(W::Input(name(k)));
        } else {
            l.push(W::Chr('X'));
        }
        files.push(SrcFile { name: name(k), nl: k % 2 == 0, eol: (k % 3) as u8, lines: vec![l] });
    }
    let main = SrcFile { name: "main".into(), nl: true, eol: 0, lines: vec![if n > 0 { vec![W::Chr('M'), W::Input(name(1)), W::Chr('N')] } else { vec![W::Chr('M')] }] };
    InCase { main, macros: vec![], files }
}

impl Property for C19 {
    fn id(&self) -> &'static str {
        "C19"
    }
    fn rule(&self) -> String {
        "in: corpus (the repository's own test inputs, both findings), every position of \\input / \\endinput / a macro holding them in lines of 0..3 characters x 12 file shapes x final newline or not (exhaustive), chains of 0..102 nested files, then random trees of depth 0..5 generated in execution order (empty files, empty lines, no final newline, files ending inside a group or a conditional, macros holding \\input/\\endinput, reuse of files); \
         rd: every prefix length of \\read..\\ifeof over 14 file shapes (exhaustive), then random scripts of \\openin/\\read/\\ifeof/\\closein/use on up to 16 streams with up to 3 files and a mock terminal. \
         Non-trivial = an `in` case executes at least one \\input, \\endinput or macro call; an `rd` case performs at least one \\read. Distinct = distinct case string."
            .into()
    }
    fn builtin_corpus(&self) -> Vec<String> {
        let mut v: Vec<String> = vec![
            // C19-a (end_input_simple) and its neighbours
            "in main+: A e B / C /".into(),
            "in main+: A e / C /".into(),
            "in main+: A i:a B / ; f:a+: C e D / E /".into(),
            // end_input_in_second_file
            "in main+: B i:a A / ; m:a: H e M ; f:a+: H m:a W /".into(),
            // the repository's \input tests
            "in main+: i:a H / ; f:a+: C /".into(),
            "in main+: i:c / ; f:c-: i:d / ; f:d-: C /".into(),
            "in main+: i:missing /".into(),
            "lim 0 0".into(),
            "lim 1 1".into(),
            // files ending inside a group / a conditional
            "in main+: i:a } \\q / ; f:a+: { \\def \\q { X } \\q /".into(),
            "in main+: i:a B \\else C \\fi D / ; f:a-: \\iftrue A /".into(),
            "in main+: i:a C \\fi D / ; f:a-: \\iftrue A \\else B /".into(),
            // C19-b (read_1) and the other \read tests
            "rd f:a-: 1 / 2 % / 3 / ; t: ; ops: o0:a r0:a u:a r0:a u:a r0:a u:a ?0".into(),
            "rd f:a-: 1 / 2 % / 3 / ; t: ; ops: o0:a r0:a r0:a ?0 r0:a ?0 r0:b u:b ?0".into(),
            "rd f:a-: 1 { / 2 / 3 } / ; t: ; ops: o0:a r0:a u:a ?0".into(),
            "rd f:a-: 1 } 1 / 2 / ; t: ; ops: o0:a r0:a u:a r0:a u:a".into(),
            "rd f:a+: ; t: ; ops: o0:a ?0 r0:a u:a ?0".into(),
            "rd f:a-: H _ { _ W / ; t: ; ops: o0:a r0:a u:a".into(),
            "rd t: F / S _ { / T _ } / F } L / ; ops: r0:a u:a r0:a u:a r0:a u:a".into(),
            "rd t: A / ; ops: r0:a r0:a".into(),
            "rd t: ; ops: ?0 o0:zz ?0 o16:zz".into(),
            "rd f:a+: A / ; t: ; ops: o0:a ?0 o0:zz ?0 o0:a c0 ?0 ?16".into(),
        ];
        // which file: the seeded change "the bare name is tried first" and finding C19-c
        v.push("in main+: A i:a B / ; f:a+: X / ; F:a+: Y /".into());
        v.push("in main+: A i:nested/part B / ; f:nested/part+: X / ; F:nested/part+: Y /".into());
        v.push("in main+: A i:a.tex.tex B / ; f:a+: X / ; F:a.tex.tex+: Y /".into());
        v.push("in main+: A i:a. B / ; F:a+: X / ; F:a.+: Y /".into());
        v.push("rd f:a+: X / ; F:a+: Y / Z / ; t: ; ops: o0:a r0:a u:a ?0".into());
        v.push("rd f:a+: X / W / ; F:a.tex.tex+: Y / ; t: ; ops: o0:a.tex.tex r0:a u:a ?0".into());
        for n in [2, 5, 50, 97, 98, 99, 100, 101, 102] {
            v.push(format!("lim {n} 0"));
        }
        for n in [1, 3, 60, 99, 100] {
            v.push(format!("lim {n} 1"));
        }
        v
    }
    fn generate(&mut self, ctx: &Ctx, rng: &mut Rng) -> Vec<String> {
        let mut v = vec![];
        // ---- exhaustive: every position in a short line
        let shapes: &[&str] = &[
            "f:a+:",
            "f:a+: /",
            "f:a+: X /",
            "f:a-: X /",
            "f:a+: X / Y /",
            "f:a-: X / Y /",
            "f:a+: X / / Y /",
            "f:a+: i:g / ; f:g-: Z /",
            "f:a+: X e Y / W /",
            "f:a+: e /",
            "f:a+: X \\relax /",
            "f:a-: X _ Y / / ",
            // CRLF / mixed terminators, blank last lines
            "f:a*: X / /",
            "f:a*: X / / /",
            "f:a^: X / Y / /",
            "f:a*: /",
            "f:a~: X / Y /",
            "f:a+: X / / /",
        ];
        let inserts: &[&str] = &["i:a", "e", "m:a", "m:b", "i:a e", "i:a i:a"];
        for n in 0..=3usize {
            for p in 0..=n {
                for ins in inserts {
                    for sh in shapes {
                        for nl in ["+", "-"] {
                            for second in [false, true] {
                                let mut words: Vec<String> = (0..n).map(|k| ((b'A' + k as u8) as char).to_string()).collect();
                                words.insert(p, ins.to_string());
                                let tail = if second { " / Q" } else { "" };
                                v.push(format!("in main{nl}: {}{tail} / ; m:a: U e V ; m:b: U i:a V ; {sh}", words.join(" ")));
                            }
                        }
                    }
                }
            }
        }
        // ---- exhaustive: k reads of each file shape, \ifeof after every one
        let rd_shapes: &[&str] = &[
            "f:a+:",
            "f:a+: /",
            "f:a+: A /",
            "f:a-: A /",
            "f:a+: A / B /",
            "f:a-: A / B % / C /",
            "f:a+: A { / B / C } D / E /",
            "f:a+: A { / B } /",
            "f:a+: A } B / C /",
            "f:a+: A } B /",
            "f:a+: A { / B /",
            "f:a+: { } / { { } / } /",
            "f:a+: A / / B /",
            "f:a-: \\relax / A \\ua /",
            "f:a*: A / /",
            "f:a*: A / B / / /",
            "f:a^: A / B / /",
            "f:a*: /",
            "f:a*: A { / B } / /",
            "f:a~: A / B /",
        ];
        for sh in rd_shapes {
            for k in 0..=5 {
                for term in ["t:", "t: T / U /"] {
                    let mut ops = vec!["o3:a".to_string(), "?3".into()];
                    for _ in 0..k {
                        ops.extend(["r3:a".to_string(), "u:a".into(), "?3".into()]);
                    }
                    v.push(format!("rd {sh} ; {term} ; ops: {}", ops.join(" ")));
                }
            }
        }
        // ---- exhaustive: which file a written name denotes (ASCII and multi-byte characters
        // in every position: before / after dots, in directories)
        for (bn, dn) in [("a", "d"), ("\u{e4}", "\u{fc}"), ("gr\u{f6}\u{df}e", "d"), ("\u{1d11e}", "\u{20ac}"), ("e\u{301}b", "\u{e9}")] {
            let fill = |t: &str| -> String { t.replace("{B}", bn).replace("{D}", dn) };
            let disk: Vec<String> = [
                "{B}", "{B}.tex", "{B}.tex.tex", "{B}.TEX", "{B}.", "{B}.dat", "{B}.tex.dat", "{B}.dat.tex", "{D}/{B}", "{D}/{B}.tex", "{D}/{B}.tex.tex", "{D}.{D}/{B}",
                "{D}.{D}/{B}.tex", "{D}.{D}/{B}.b", "{D}.{D}/{B}.b.tex", "{D}.tex", "{B}.b.c", "{B}.c", "{B}.b.c.tex", "{B}..tex", "{B}.{B}", "{B}.{B}.tex",
            ]
            .iter()
            .map(|t| fill(t))
            .collect();
            let written: Vec<String> = [
                "{B}", "{B}.tex", "{B}.tex.tex", "{B}.TEX", "{B}.", "{B}.dat", "{B}.tex.dat", "{D}/{B}", "{D}/{B}.tex", "{D}.{D}/{B}", "{D}.{D}/{B}.b", "{D}.{D}/{B}.", "{B}.b.c",
                "{B}.b.", "{B}.{B}",
            ]
            .iter()
            .map(|t| fill(t))
            .collect();
            for w in &written {
                // generation only: the file TeX means (the verdict is Lean's)
                let target = if w.rsplit('/').next().unwrap().contains('.') { w.to_string() } else { format!("{w}.tex") };
                let we = encode_name(w);
                for variant in 0..3 {
                    let mut secs = vec![];
                    let mut lines_of = vec![];
                    for (k, l) in disk.iter().enumerate() {
                        let keep = match variant {
                            0 => true,
                            1 => *l != target,
                            _ => *l == target,
                        };
                        if keep {
                            let c = (b'A' + k as u8) as char;
                            let le = encode_name(l);
                            secs.push(format!("F:{le}+: {c} /"));
                            lines_of.push(format!("F:{le}+: {c} / {c} {c} /"));
                        }
                    }
                    v.push(format!("in main+: Y i:{we} Z / ; {}", secs.join(" ; ")));
                    v.push(format!("in main+: m:a / ; m:a: Y i:{we} Z ; {}", secs.join(" ; ")));
                    v.push(format!("rd {} ; t: ; ops: ?2 o2:{we} ?2 r2:a u:a ?2 r2:b u:b ?2", lines_of.join(" ; ")));
                }
            }
        }
        // ---- exhaustive: characters of the categories 1-8 inside a name, with the near-miss files
        for sp in ["_", "&", "#", "^", "$", "{", "}"] {
            for (k, w) in [format!("ch{sp}one"), format!("ch{sp}one.tex"), format!("d/ch{sp}one"), format!("ch{sp}"), format!("{sp}one.dat")].iter().enumerate() {
                let target = if w.rsplit('/').next().unwrap().contains('.') { w.clone() } else { format!("{w}.tex") };
                let mut disk: Vec<String> = vec![target.clone(), "ch.tex".into(), "ch".into(), "one.tex".into(), "d/ch.tex".into(), "d.tex".into(), ".dat".replace('.', "one.")];
                disk.dedup();
                for variant in 0..2 {
                    let secs: Vec<String> = disk
                        .iter()
                        .enumerate()
                        .filter(|(_, l)| variant == 0 || **l != target)
                        .map(|(j, l)| format!("F:{}+: {} / {} /", encode_name(l), (b'A' + j as u8) as char, (b'K' + k as u8) as char))
                        .collect();
                    let we = encode_name(w);
                    v.push(format!("in main+: Y i:{we} Z / ; {}", secs.join(" ; ")));
                    v.push(format!("in main+: Y i:{we} ! \\relax Z / ; {}", secs.join(" ; ")));
                    v.push(format!("rd {} ; t: ; ops: ?2 o2:{we} ?2 r2:a u:a ?2", secs.join(" ; ")));
                }
            }
        }
        // ---- random
        let (n_in, n_rd) = if ctx.thorough { (100_000, 140_000) } else { (8_000, 12_000) };
        let mut r = rng.fork();
        for k in 0..n_in {
            let depth = (k % 6) as usize;
            let c = TreeGen::case(&mut r, k % 3 != 0, depth);
            v.push(c.show());
        }
        let mut r = rng.fork();
        for k in 0..n_rd {
            v.push(gen_rd(&mut r, k % 4 == 0).show());
        }
        v
    }

    fn run_case(&mut self, case: &str, drv: &mut Driver) -> CaseOutcome {
        if std::env::var("C19_TRACE").is_ok() {
            eprintln!("{case}");
        }
        let (cmd, rest) = case.split_once(' ').unwrap_or((case, ""));
        match cmd {
            "in" => {
                let c = InCase::parse(rest);
                self.run_in(&c, None, drv)
            }
            "lim" => {
                let v = parse_i64s(rest);
                let c = lim_case(v[0], v[1]);
                let mut o = self.run_in(&c, Some(if v[1] == 1 { 1000 } else { v[0] }), drv);
                o.tag(format!("lim:{}", if v[1] == 1 { "recursive".to_string() } else if v[0] >= 100 { "beyond".into() } else if v[0] >= 97 { "at-limit".into() } else { "below".into() }));
                o
            }
            "rd" => {
                let c = RdCase::parse(rest);
                self.run_rd(&c, drv)
            }
            "c09g" => {
                // probe for C09's builder; not part of C19's generated cases
                let mut o = CaseOutcome::default();
                let r = caught(|| {
                    let mut vm = vm::VM::<lib::StdLibState>::new_with_built_in_commands(lib::built_in_commands());
                    vm.push_source("main.tex", "\\nonstopmode\\read 0 to \\x").unwrap();
                    lib::script::run_to_string(&mut vm).map_err(|e| e.error.title())
                });
                match r {
                    Err(p) => o.fail(Kind::ImplPanic, "c09g", format!("panic {}", strip_msg(&p)), format!("\\nonstopmode\\read 0 to \\x panicked: {p}")),
                    Ok(r) => println!("c09g: {r:?}"),
                }
                o
            }
            _ => panic!("bad case {case}"),
        }
    }

    fn shrink(&self, case: &str) -> Vec<String> {
        let (cmd, rest) = case.split_once(' ').unwrap_or((case, ""));
        let mut out = vec![];
        match cmd {
            "in" => {
                let c = InCase::parse(rest);
                let used_files = |c: &InCase| -> Vec<String> {
                    let mut u = vec![];
                    for l in c.main.lines.iter().chain(c.files.iter().flat_map(|f| f.lines.iter())) {
                        for w in l {
                            if let W::Input(n) = w {
                                u.push(n.clone());
                            }
                        }
                    }
                    for (_, b) in &c.macros {
                        for w in b {
                            if let W::Input(n) = w {
                                u.push(n.clone());
                            }
                        }
                    }
                    u
                };
                // drop unused files / macros
                let u = used_files(&c);
                let calls: Vec<char> = c.main.lines.iter().chain(c.files.iter().flat_map(|f| f.lines.iter())).flatten().filter_map(|w| if let W::Call(m) = w { Some(*m) } else { None }).collect();
                let mut d = c.clone();
                d.files.retain(|f| {
                    let lit = literal_name(&f.name);
                    u.iter().any(|w| lit == *w || lit == format!("{w}.tex") || lit == legacy_resolve(w))
                });
                d.macros.retain(|(m, _)| calls.contains(m));
                if d.files.len() < c.files.len() || d.macros.len() < c.macros.len() {
                    out.push(d.show());
                }
                // drop one file (decoys next to the file that is read)
                for k in 0..c.files.len() {
                    let mut d = c.clone();
                    d.files.remove(k);
                    out.push(d.show());
                }
                // drop a line / a word anywhere
                let nfiles = c.files.len();
                for fi in 0..=nfiles {
                    let get = |c: &InCase| -> SrcFile { if fi == nfiles { c.main.clone() } else { c.files[fi].clone() } };
                    let set = |c: &mut InCase, f: SrcFile| {
                        if fi == nfiles {
                            c.main = f
                        } else {
                            c.files[fi] = f
                        }
                    };
                    let f = get(&c);
                    for li in 0..f.lines.len() {
                        let mut g = f.clone();
                        g.lines.remove(li);
                        let mut d = c.clone();
                        set(&mut d, g);
                        out.push(d.show());
                    }
                    for li in 0..f.lines.len() {
                        for wi in 0..f.lines[li].len() {
                            // structure tokens come in units (`\def\q{X}`, …): never split one
                            if matches!(f.lines[li][wi], W::Cs(_) | W::Bg | W::Eg | W::Tight) || f.lines[li].contains(&W::Cs(5)) || f.lines[li].contains(&W::Cs(10)) {
                                continue;
                            }
                            let mut g = f.clone();
                            g.lines[li].remove(wi);
                            let mut d = c.clone();
                            set(&mut d, g);
                            out.push(d.show());
                        }
                    }
                }
                for mi in 0..c.macros.len() {
                    for wi in 0..c.macros[mi].1.len() {
                        let mut d = c.clone();
                        d.macros[mi].1.remove(wi);
                        out.push(d.show());
                    }
                }
            }
            "rd" => {
                let c = RdCase::parse(rest);
                if c.ops.len() > 1 {
                    let mut d = c.clone();
                    d.ops.truncate(c.ops.len() / 2);
                    out.push(d.show());
                }
                for k in (0..c.ops.len()).rev() {
                    let mut d = c.clone();
                    d.ops.remove(k);
                    out.push(d.show());
                }
                for fi in 0..c.files.len() {
                    for li in 0..c.files[fi].lines.len() {
                        let mut d = c.clone();
                        d.files[fi].lines.remove(li);
                        out.push(d.show());
                        for wi in 0..c.files[fi].lines[li].len() {
                            let mut d = c.clone();
                            d.files[fi].lines[li].remove(wi);
                            out.push(d.show());
                        }
                    }
                }
                for li in 0..c.term.len() {
                    let mut d = c.clone();
                    d.term.remove(li);
                    out.push(d.show());
                }
            }
            "lim" => {
                let v = parse_i64s(rest);
                if v[0] > 0 {
                    out.push(format!("lim {} {}", v[0] - 1, v[1]));
                    out.push(format!("lim {} {}", v[0] / 2, v[1]));
                }
            }
            _ => {}
        }
        // shrinking must never produce an unparsable case
        out.retain(|c| caught(|| { let (cmd, rest) = c.split_once(' ').unwrap_or((c, "")); match cmd { "in" => { let x = InCase::parse(rest); let w = x.written_names(); let _ = x.request(&w, &vec![None; w.len()]); for l in x.main.lines.iter().chain(x.files.iter().flat_map(|f| f.lines.iter())).flatten() { if let W::Call(m) = l { let _ = x.body_of(*m); } } } "rd" => { let x = RdCase::parse(rest); let w = x.written_names(); let _ = x.request(&w, &vec![None; w.len()]); } _ => {} } }).is_ok());
        out
    }
}

fn main() {
    run(C19::default());
}
