//! Shared machinery of the correspondence harness.
//!
//! Every property is a binary `src/bin/cXX.rs` that implements [`Property`]: a *case* is a
//! self-contained ASCII string (one line); generators produce cases, `run_case` runs the
//! real implementation (I) from `/repo`'s working tree, asks the Lean driver for the
//! model's answer (M) and the specification's verdict (S), and returns the comparison.
//! The corpus, the replays and the shrinker all work on case strings, so a failure found
//! once is reproduced by feeding the same line back (`--replay-case`).

use std::collections::{BTreeMap, HashSet};
use std::io::{BufRead, BufReader, Write};
use std::process::{Child, ChildStdin, ChildStdout, Command, Stdio};
use std::time::Instant;

// ------------------------------------------------------------------------------------------
// Deterministic PRNG (splitmix64): every random choice derives from VERIF_SEED.
// ------------------------------------------------------------------------------------------

#[derive(Clone)]
pub struct Rng(pub u64);

impl Rng {
    pub fn new(seed: u64) -> Self {
        Rng(seed.wrapping_mul(0x9E3779B97F4A7C15).wrapping_add(0x1234_5678_9abc_def1))
    }
    pub fn next_u64(&mut self) -> u64 {
        self.0 = self.0.wrapping_add(0x9E3779B97F4A7C15);
        let mut z = self.0;
        z = (z ^ (z >> 30)).wrapping_mul(0xBF58476D1CE4E5B9);
        z = (z ^ (z >> 27)).wrapping_mul(0x94D049BB133111EB);
        z ^ (z >> 31)
    }
    /// Uniform in `0..n` (n > 0).
    pub fn below(&mut self, n: u64) -> u64 {
        self.next_u64() % n
    }
    pub fn range(&mut self, lo: i64, hi: i64) -> i64 {
        // inclusive
        lo + (self.below((hi - lo + 1) as u64) as i64)
    }
    pub fn chance(&mut self, num: u64, den: u64) -> bool {
        self.below(den) < num
    }
    pub fn pick<'a, T>(&mut self, xs: &'a [T]) -> &'a T {
        &xs[self.below(xs.len() as u64) as usize]
    }
    /// A derived, independent generator (for per-stream reproducibility).
    pub fn fork(&mut self) -> Rng {
        Rng(self.next_u64())
    }
}

// ------------------------------------------------------------------------------------------
// The Lean driver: one request line in, one reply line out.
// ------------------------------------------------------------------------------------------

pub struct Driver {
    child: Child,
    stdin: ChildStdin,
    stdout: BufReader<ChildStdout>,
    pub requests: u64,
}

impl Driver {
    pub fn spawn(path: &str) -> Driver {
        let mut child = Command::new(path)
            .stdin(Stdio::piped())
            .stdout(Stdio::piped())
            .spawn()
            .unwrap_or_else(|e| panic!("cannot start Lean driver {path}: {e}"));
        let stdin = child.stdin.take().unwrap();
        let stdout = BufReader::new(child.stdout.take().unwrap());
        Driver { child, stdin, stdout, requests: 0 }
    }
    /// Send one request line, read one reply line.
    pub fn ask(&mut self, req: &str) -> String {
        debug_assert!(!req.contains('\n'));
        self.requests += 1;
        self.stdin.write_all(req.as_bytes()).unwrap();
        self.stdin.write_all(b"\n").unwrap();
        self.stdin.flush().unwrap();
        let mut line = String::new();
        let n = self.stdout.read_line(&mut line).unwrap();
        if n == 0 {
            panic!("Lean driver closed its output on request: {req}");
        }
        line.trim_end().to_string()
    }
    /// Pipeline many requests (much faster than one round trip each).
    pub fn ask_many(&mut self, reqs: &[String]) -> Vec<String> {
        // Write from a helper thread so that neither pipe can fill up.
        self.requests += reqs.len() as u64;
        let mut out = Vec::with_capacity(reqs.len());
        std::thread::scope(|s| {
            let stdin = &mut self.stdin;
            s.spawn(move || {
                for r in reqs {
                    stdin.write_all(r.as_bytes()).unwrap();
                    stdin.write_all(b"\n").unwrap();
                }
                stdin.flush().unwrap();
            });
            for _ in 0..reqs.len() {
                let mut line = String::new();
                let n = self.stdout.read_line(&mut line).unwrap();
                if n == 0 {
                    panic!("Lean driver closed its output");
                }
                out.push(line.trim_end().to_string());
            }
        });
        out
    }
}

impl Drop for Driver {
    fn drop(&mut self) {
        let _ = self.child.kill();
        let _ = self.child.wait();
    }
}

// ------------------------------------------------------------------------------------------
// Panics are outcomes, not crashes of the harness.
// ------------------------------------------------------------------------------------------

thread_local! {
    static LAST_PANIC: std::cell::RefCell<Option<String>> = const { std::cell::RefCell::new(None) };
}

pub fn install_panic_hook() {
    std::panic::set_hook(Box::new(|info| {
        let loc = info
            .location()
            .map(|l| {
                let f = l.file();
                // keep paths stable across checkouts: strip everything up to "crates/"
                let f = f.find("crates/").map(|i| &f[i..]).unwrap_or(f);
                format!("{}:{}", f, l.line())
            })
            .unwrap_or_else(|| "?".into());
        let msg = if let Some(s) = info.payload().downcast_ref::<&str>() {
            s.to_string()
        } else if let Some(s) = info.payload().downcast_ref::<String>() {
            s.clone()
        } else {
            "?".into()
        };
        LAST_PANIC.with(|p| *p.borrow_mut() = Some(format!("{loc}: {msg}")));
    }));
}

/// Run `f`; a panic becomes `Err("file:line: message")`.
pub fn caught<T>(f: impl FnOnce() -> T) -> Result<T, String> {
    match std::panic::catch_unwind(std::panic::AssertUnwindSafe(f)) {
        Ok(v) => Ok(v),
        Err(_) => Err(LAST_PANIC
            .with(|p| p.borrow_mut().take())
            .unwrap_or_else(|| "panic (no message)".into())),
    }
}

// ------------------------------------------------------------------------------------------
// Results
// ------------------------------------------------------------------------------------------

/// What differed. The three comparisons of DESIGN.md section 1, plus panics.
#[derive(Clone, Copy, Debug, PartialEq, Eq, Hash, PartialOrd, Ord)]
pub enum Kind {
    /// The implementation violates the property on this input (I vs S). This is a replay.
    ImplVsSpec,
    /// The implementation panicked where the property demands a result or an error.
    ImplPanic,
    /// The model no longer describes the code (I vs M): correspondence broken.
    ImplVsModel,
    /// The model disagrees with the specification (should be impossible: theorem).
    ModelVsSpec,
}

impl Kind {
    pub fn as_str(&self) -> &'static str {
        match self {
            Kind::ImplVsSpec => "impl-vs-spec",
            Kind::ImplPanic => "impl-panic",
            Kind::ImplVsModel => "impl-vs-model",
            Kind::ModelVsSpec => "model-vs-spec",
        }
    }
}

#[derive(Clone, Debug)]
pub struct Failure {
    pub kind: Kind,
    /// Which comparison stream found it (e.g. "de_ser", "var_remove").
    pub stream: String,
    /// Canonical identity of the *defect* (not of the input), used to look the failure up
    /// in known_findings.json. Property-specific; stable across seeds.
    pub signature: String,
    /// Human-readable: what was expected, what was observed.
    pub detail: String,
    /// The case string that reproduces it (filled in by the runner).
    pub case: String,
}

#[derive(Default)]
pub struct CaseOutcome {
    pub failures: Vec<Failure>,
    /// Branch/feature tags this case exercised (for the histogram in the evidence).
    pub tags: Vec<String>,
    /// Non-trivial by the property's stated rule.
    pub nontrivial: bool,
}

impl CaseOutcome {
    pub fn fail(&mut self, kind: Kind, stream: &str, signature: impl Into<String>, detail: impl Into<String>) {
        self.failures.push(Failure {
            kind,
            stream: stream.into(),
            signature: signature.into(),
            detail: detail.into(),
            case: String::new(),
        });
    }
    pub fn tag(&mut self, t: impl Into<String>) {
        self.tags.push(t.into());
    }
}

pub struct Ctx {
    pub tier: String,
    pub thorough: bool,
    pub seed: u64,
    pub repo: String,
    pub verif: String,
    pub jobs: usize,
}

pub trait Property {
    fn id(&self) -> &'static str;
    /// How cases are generated and what makes one non-trivial.
    fn rule(&self) -> String;
    /// Hand-written boundary cases; run first, after the corpus files.
    fn builtin_corpus(&self) -> Vec<String> {
        vec![]
    }
    /// All generated cases for this run, in order. Called once.
    fn generate(&mut self, ctx: &Ctx, rng: &mut Rng) -> Vec<String>;
    /// Run one case three ways.
    fn run_case(&mut self, case: &str, drv: &mut Driver) -> CaseOutcome;
    /// Smaller variants of a failing case (greedy delta debugging picks the first that still
    /// fails with the same kind and signature).
    fn shrink(&self, _case: &str) -> Vec<String> {
        vec![]
    }
    /// Extra, property-specific evidence (JSON object body without braces), optional.
    fn extra_evidence(&self) -> Option<String> {
        None
    }
}

// ------------------------------------------------------------------------------------------
// JSON (tiny writer; no dependency on the crates under test)
// ------------------------------------------------------------------------------------------

pub fn jstr(s: &str) -> String {
    let mut o = String::with_capacity(s.len() + 2);
    o.push('"');
    for c in s.chars() {
        match c {
            '"' => o.push_str("\\\""),
            '\\' => o.push_str("\\\\"),
            '\n' => o.push_str("\\n"),
            '\r' => o.push_str("\\r"),
            '\t' => o.push_str("\\t"),
            c if (c as u32) < 0x20 => o.push_str(&format!("\\u{:04x}", c as u32)),
            c => o.push(c),
        }
    }
    o.push('"');
    o
}

fn trunc(s: &str, n: usize) -> String {
    if s.len() <= n {
        s.to_string()
    } else {
        let mut end = n;
        while !s.is_char_boundary(end) {
            end -= 1;
        }
        format!("{}…[{} bytes]", &s[..end], s.len())
    }
}

// ------------------------------------------------------------------------------------------
// The runner
// ------------------------------------------------------------------------------------------

pub struct Args {
    pub tier: String,
    pub seed: u64,
    pub driver: String,
    pub out: String,
    pub replay_case: Option<String>,
    pub repo: String,
    pub verif: String,
}

pub fn parse_args() -> Args {
    let mut a = Args {
        tier: std::env::var("VERIF_TIER").unwrap_or_else(|_| "quick".into()),
        seed: std::env::var("VERIF_SEED").ok().and_then(|s| s.parse().ok()).unwrap_or(1),
        driver: String::new(),
        out: String::new(),
        replay_case: None,
        repo: std::env::var("VERIF_REPO").unwrap_or_else(|_| "/repo".into()),
        verif: std::env::var("VERIF_DIR").unwrap_or_else(|_| "/verif".into()),
    };
    let mut it = std::env::args().skip(1);
    while let Some(k) = it.next() {
        let mut v = || it.next().unwrap_or_else(|| panic!("missing value for {k}"));
        match k.as_str() {
            "--tier" => a.tier = v(),
            "--seed" => a.seed = v().parse().expect("seed"),
            "--driver" => a.driver = v(),
            "--out" => a.out = v(),
            "--replay-case" => a.replay_case = Some(v()),
            "--repo" => a.repo = v(),
            "--verif" => a.verif = v(),
            other => panic!("unknown argument {other}"),
        }
    }
    a
}

fn read_corpus(verif: &str, id: &str) -> Vec<String> {
    let dir = format!("{verif}/harness/corpus/{id}");
    let mut out = vec![];
    let Ok(rd) = std::fs::read_dir(&dir) else { return out };
    let mut files: Vec<_> = rd.filter_map(|e| e.ok()).map(|e| e.path()).collect();
    files.sort();
    for f in files {
        if f.extension().and_then(|e| e.to_str()) != Some("case") {
            continue;
        }
        if let Ok(s) = std::fs::read_to_string(&f) {
            for l in s.lines() {
                let l = l.trim_end();
                if !l.is_empty() && !l.starts_with("# ") {
                    out.push(l.to_string());
                }
            }
        }
    }
    out
}

/// Run a property end to end and write the report JSON for `check`.
pub fn run<P: Property>(mut p: P) {
    let args = parse_args();
    install_panic_hook();
    let t0 = Instant::now();
    let mut drv = Driver::spawn(&args.driver);
    let ctx = Ctx {
        thorough: args.tier == "thorough",
        tier: args.tier.clone(),
        seed: args.seed,
        repo: args.repo.clone(),
        verif: args.verif.clone(),
        jobs: std::env::var("VERIF_JOBS").ok().and_then(|s| s.parse().ok()).unwrap_or(16),
    };

    if let Some(case) = &args.replay_case {
        let out = run_one(&mut p, case, &mut drv);
        if out.failures.is_empty() {
            println!("replay: case passes (I, M and S agree)");
        }
        for f in &out.failures {
            println!("replay: {} stream={} signature={}\n  {}", f.kind.as_str(), f.stream, f.signature, f.detail);
        }
        std::process::exit(if out.failures.is_empty() { 0 } else { 1 });
    }

    let mut rng = Rng::new(args.seed);
    let mut cases = read_corpus(&args.verif, p.id());
    let n_corpus_files = cases.len();
    cases.extend(p.builtin_corpus());
    let n_corpus = cases.len();
    cases.extend(p.generate(&ctx, &mut rng));

    // Watchdog: a case that does not come back (a non-terminating implementation, typically
    // under a seeded change) must not hang the check. The report then holds that one failure.
    let wd_state: std::sync::Arc<std::sync::Mutex<(Instant, String, u64)>> =
        std::sync::Arc::new(std::sync::Mutex::new((Instant::now(), String::new(), 0)));
    {
        let wd = wd_state.clone();
        let out_path = args.out.clone();
        let pid = p.id().to_string();
        let tier = args.tier.clone();
        let seed = args.seed;
        let rule = p.rule();
        let limit: u64 = std::env::var("VERIF_CASE_TIMEOUT").ok().and_then(|s| s.parse().ok()).unwrap_or(120);
        std::thread::spawn(move || loop {
            std::thread::sleep(std::time::Duration::from_secs(1));
            let (t, case, n) = {
                let g = wd.lock().unwrap();
                (g.0, g.1.clone(), g.2)
            };
            if !case.is_empty() && t.elapsed().as_secs() > limit {
                let j = format!(
                    "{{\n  \"property\": {}, \"tier\": {}, \"seed\": {}, \"evaluations\": {}, \"distinct_nontrivial\": 0,\n  \"corpus_cases\": 0, \"driver_requests\": 0, \"failing_cases\": 1, \"rule\": {},\n  \"samples\": [{}], \"histogram\": {{}},\n  \"failures\": [{{\"kind\": \"impl-panic\", \"stream\": \"watchdog\", \"signature\": \"does not terminate\", \"detail\": {}, \"case\": {}}}],\n  \"wall_s\": {}\n}}\n",
                    jstr(&pid), jstr(&tier), seed, n, jstr(&rule), jstr(&trunc(&case, 400)),
                    jstr(&format!("case did not finish within {limit} s (implementation or driver does not terminate)")),
                    jstr(&case), t.elapsed().as_secs()
                );
                if out_path.is_empty() {
                    print!("{j}");
                } else {
                    let _ = std::fs::write(&out_path, j);
                }
                std::process::exit(0);
            }
        });
    }

    let mut seen: HashSet<u64> = HashSet::new();
    let mut distinct_nontrivial = 0u64;
    let mut evaluations = 0u64;
    let mut hist: BTreeMap<String, u64> = BTreeMap::new();
    let mut failures: Vec<Failure> = vec![];
    let mut failure_sigs: HashSet<(Kind, String)> = HashSet::new();
    let mut n_failing_cases = 0u64;
    let mut samples: Vec<String> = vec![];
    let sample_every = (cases.len() / 6).max(1);

    for (i, case) in cases.iter().enumerate() {
        evaluations += 1;
        {
            let mut g = wd_state.lock().unwrap();
            *g = (Instant::now(), case.clone(), evaluations);
        }
        let out = run_one(&mut p, case, &mut drv);
        let h = fxhash(case);
        let fresh = seen.insert(h);
        if fresh && out.nontrivial {
            distinct_nontrivial += 1;
        }
        for t in &out.tags {
            *hist.entry(t.clone()).or_insert(0) += 1;
        }
        if i % sample_every == 0 && samples.len() < 8 {
            samples.push(trunc(case, 400));
        }
        if !out.failures.is_empty() {
            n_failing_cases += 1;
        }
        for mut f in out.failures {
            let key = (f.kind, f.signature.clone());
            if failure_sigs.contains(&key) {
                continue; // one representative per defect signature
            }
            if failures.len() >= 40 {
                continue;
            }
            failure_sigs.insert(key);
            {
                // shrinking re-runs many variants: give it its own allowance
                let mut g = wd_state.lock().unwrap();
                *g = (Instant::now() + std::time::Duration::from_secs(600), case.clone(), evaluations);
            }
            f.case = shrink_case(&mut p, case, &f, &mut drv);
            if f.case != *case {
                // describe the minimised case, not the one it was found on
                let again = run_one(&mut p, &f.case, &mut drv);
                if let Some(g) = again.failures.into_iter().find(|g| g.kind == f.kind && g.signature == f.signature) {
                    f.detail = g.detail;
                }
            }
            failures.push(f);
        }
    }

    let wall = t0.elapsed().as_secs_f64();
    let mut j = String::new();
    j.push_str("{\n");
    j.push_str(&format!("  \"property\": {},\n", jstr(p.id())));
    j.push_str(&format!("  \"tier\": {},\n", jstr(&args.tier)));
    j.push_str(&format!("  \"seed\": {},\n", args.seed));
    j.push_str(&format!("  \"evaluations\": {evaluations},\n"));
    j.push_str(&format!("  \"distinct_nontrivial\": {distinct_nontrivial},\n"));
    j.push_str(&format!("  \"corpus_cases\": {n_corpus},\n"));
    j.push_str(&format!("  \"corpus_file_cases\": {n_corpus_files},\n"));
    j.push_str(&format!("  \"driver_requests\": {},\n", drv.requests));
    j.push_str(&format!("  \"failing_cases\": {n_failing_cases},\n"));
    j.push_str(&format!("  \"rule\": {},\n", jstr(&p.rule())));
    j.push_str("  \"samples\": [");
    j.push_str(&samples.iter().map(|s| jstr(s)).collect::<Vec<_>>().join(", "));
    j.push_str("],\n  \"histogram\": {");
    j.push_str(
        &hist
            .iter()
            .map(|(k, v)| format!("{}: {}", jstr(k), v))
            .collect::<Vec<_>>()
            .join(", "),
    );
    j.push_str("},\n");
    if let Some(extra) = p.extra_evidence() {
        j.push_str(&format!("  \"extra\": {{{extra}}},\n"));
    }
    j.push_str("  \"failures\": [\n");
    j.push_str(
        &failures
            .iter()
            .map(|f| {
                format!(
                    "    {{\"kind\": {}, \"stream\": {}, \"signature\": {}, \"detail\": {}, \"case\": {}}}",
                    jstr(f.kind.as_str()),
                    jstr(&f.stream),
                    jstr(&f.signature),
                    jstr(&trunc(&f.detail, 4000)),
                    jstr(&f.case)
                )
            })
            .collect::<Vec<_>>()
            .join(",\n"),
    );
    j.push_str("\n  ],\n");
    j.push_str(&format!("  \"wall_s\": {wall:.3}\n}}\n"));
    if args.out.is_empty() {
        print!("{j}");
    } else {
        std::fs::write(&args.out, j).expect("write report");
    }
}

fn run_one<P: Property>(p: &mut P, case: &str, drv: &mut Driver) -> CaseOutcome {
    // A panic that escapes `run_case` is a harness-level catch-all: properties normally
    // wrap the implementation call in `caught` themselves and classify the panic.
    match std::panic::catch_unwind(std::panic::AssertUnwindSafe(|| p.run_case(case, drv))) {
        Ok(o) => o,
        Err(_) => {
            let msg = LAST_PANIC
                .with(|p| p.borrow_mut().take())
                .unwrap_or_else(|| "panic".into());
            let mut o = CaseOutcome::default();
            o.fail(Kind::ImplPanic, "uncaught", format!("panic {}", strip_msg(&msg)), msg);
            o
        }
    }
}

/// `file:line: message` → `file:line` (messages may contain input-dependent numbers).
pub fn strip_msg(m: &str) -> String {
    let mut parts = m.splitn(3, ':');
    match (parts.next(), parts.next()) {
        (Some(f), Some(l)) => format!("{f}:{l}"),
        _ => m.to_string(),
    }
}

fn shrink_case<P: Property>(p: &mut P, case: &str, f: &Failure, drv: &mut Driver) -> String {
    let mut cur = case.to_string();
    let mut budget = 400;
    'outer: loop {
        for cand in p.shrink(&cur) {
            if budget == 0 {
                break 'outer;
            }
            budget -= 1;
            if cand.len() >= cur.len() && cand >= cur {
                continue;
            }
            let out = run_one(p, &cand, drv);
            if out.failures.iter().any(|g| g.kind == f.kind && g.signature == f.signature) {
                cur = cand;
                continue 'outer;
            }
        }
        break;
    }
    cur
}

pub fn fxhash(s: &str) -> u64 {
    let mut h: u64 = 0xcbf29ce484222325;
    for b in s.as_bytes() {
        h ^= *b as u64;
        h = h.wrapping_mul(0x100000001b3);
    }
    h
}

// ------------------------------------------------------------------------------------------
// Small helpers for case strings
// ------------------------------------------------------------------------------------------

pub fn join<T: std::fmt::Display>(xs: &[T]) -> String {
    let mut s = String::new();
    for (i, x) in xs.iter().enumerate() {
        if i > 0 {
            s.push(' ');
        }
        s.push_str(&x.to_string());
    }
    s
}

pub fn parse_i64s(s: &str) -> Vec<i64> {
    s.split_ascii_whitespace().map(|w| w.parse().unwrap_or_else(|_| panic!("bad int {w:?}"))).collect()
}

/// Boundary-heavy 32-bit integer.
pub fn interesting_i32(rng: &mut Rng) -> i32 {
    const B: &[i64] = &[
        0, 1, -1, 2, 127, 128, -128, -129, 255, 256, 32767, 32768, -32768, -32769, 65535, 65536,
        8388607, 8388608, -8388608, -8388609, 16777215, 16777216, 1073741823, 1073741824,
        -1073741823, -1073741824, 2147483647, -2147483647, -2147483648,
    ];
    match rng.below(10) {
        0..=5 => {
            let b = *rng.pick(B);
            (b + rng.range(-2, 2)).clamp(i32::MIN as i64, i32::MAX as i64) as i32
        }
        6 | 7 => rng.range(-300, 300) as i32,
        _ => rng.next_u64() as i32,
    }
}

pub fn interesting_u32(rng: &mut Rng) -> u32 {
    const B: &[u64] = &[
        0, 1, 63, 64, 127, 128, 255, 256, 65535, 65536, 16777215, 16777216, 2147483647, 2147483648,
        4294967295,
    ];
    match rng.below(10) {
        0..=5 => {
            let b = *rng.pick(B) as i64;
            (b + rng.range(-2, 2)).clamp(0, u32::MAX as i64) as u32
        }
        6 | 7 => rng.below(300) as u32,
        _ => rng.next_u64() as u32,
    }
}

// ------------------------------------------------------------------------------------------
// Child processes that probe stack exhaustion
// ------------------------------------------------------------------------------------------

#[repr(C)]
struct RLimit {
    cur: u64,
    max: u64,
}
const RLIMIT_STACK: i32 = 3;
/// The main-thread stack the stack-exhaustion findings (C09-n, C10-i, C18) are stated for.
pub const USUAL_STACK: u64 = 8 << 20;

extern "C" {
    fn getrlimit(resource: i32, rlim: *mut RLimit) -> i32;
    fn setrlimit(resource: i32, rlim: *const RLimit) -> i32;
}

/// The hard limit on the stack size in the environment of the check (`None`: unknown).
pub fn hard_stack_limit() -> Option<u64> {
    let mut r = RLimit { cur: 0, max: 0 };
    if unsafe { getrlimit(RLIMIT_STACK, &mut r) } == 0 {
        Some(r.max)
    } else {
        None
    }
}

/// The child's main thread gets the usual 8 MiB whatever `ulimit -s` says where the check runs
/// (the soft limit at exec time sizes it; capped by the hard limit).
pub fn pin_child_stack(cmd: &mut std::process::Command) {
    use std::os::unix::process::CommandExt;
    unsafe {
        cmd.pre_exec(|| {
            let mut r = RLimit { cur: 0, max: 0 };
            if getrlimit(RLIMIT_STACK, &mut r) == 0 {
                r.cur = if r.max < USUAL_STACK { r.max } else { USUAL_STACK };
                setrlimit(RLIMIT_STACK, &r);
            }
            Ok(())
        });
    }
}

