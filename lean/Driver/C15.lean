import TexcraftModel.Util.Proto
import TexcraftModel.Model.C15

/-! Driver for C15 (hpack). One request:

`hp <mode> <amount> <n> <item>… <rflag> [<h> <w> <d> <order> <num> <den>]`

`mode` 0 = exact, 1 = additional. Items (all integers):
`0|1 fw w fh h fd d` char|ligature with the font repository's answers (flag 0 = `None`),
`2|3 h w d s` hbox|vbox, `4 h w d` rule, `5 w st so sh sho` glue, `6 w` kern,
`7 p` penalty, `8` discretionary, `9` whatsit. `rflag` 1 = the real `HBox::pack` returned
the six values that follow, 0 = it did not return (panic).

Reply: `fits=<b> fitsold=<b> M <h w d o num den> O <…unpatched model…> S <h w d sign o num den>
ms=<b> is=<b> dims=<b> ord=<b> rat=<b> tex=<case> zhi=<b>` where `ms` = model agrees with
the spec, `is`/`dims`/`ord`/`rat` = the *real* output agrees with the spec (whole / per
clause; 1 when there is no real output), `tex` = the branch TeX takes, `zhi` = some glue
item has an order above TeX's chosen one for the relevant sign (its total is zero). -/
open C15 Proto

namespace DrvC15

def b2i (b : Bool) : Int := if b then 1 else 0

def decOrder : Int → Option Order
  | 0 => some .normal | 1 => some .fil | 2 => some .fill | 3 => some .filll | _ => none
def encOrder (o : Order) : Int := o.toNat
def encSign : Sign → Int | .normal => 0 | .stretching => 1 | .shrinking => 2

def opt (f v : Int) : Option Int := if f = 0 then none else some v

def decItem (c : Cur) : Option (Item × Cur) :=
  match c with
  | 0 :: fw :: w :: fh :: h :: fd :: d :: t => some (.char (opt fw w) (opt fh h) (opt fd d), t)
  | 1 :: fw :: w :: fh :: h :: fd :: d :: t => some (.char (opt fw w) (opt fh h) (opt fd d), t)
  | 2 :: h :: w :: d :: s :: t => some (.box h w d s, t)
  | 3 :: h :: w :: d :: s :: t => some (.box h w d s, t)
  | 4 :: h :: w :: d :: t => some (.rule h w d, t)
  | 5 :: w :: st :: so :: sh :: sho :: t => do
      pure (.glue ⟨w, st, ← decOrder so, sh, ← decOrder sho⟩, t)
  | 6 :: w :: t => some (.kern w, t)
  | 7 :: _ :: t => some (.inert, t)
  | 8 :: t => some (.inert, t)
  | 9 :: t => some (.inert, t)
  | _ => none

def decItems : Nat → Cur → Option (List Item × Cur)
  | 0, c => some ([], c)
  | n + 1, c => do
    let (i, c) ← decItem c
    let (l, c) ← decItems n c
    pure (i :: l, c)

def showBox (b : HBox) : String :=
  showInts [b.height, b.width, b.depth, encOrder b.order, b.num, b.den]

def showTex (t : TexBox) : String :=
  showInts [t.height, t.width, t.depth, encSign t.sign, encOrder t.order, t.setNum, t.setDen]

def glueOrders (stretch : Bool) : List Item → List Order
  | [] => []
  | .glue g :: l => (if stretch then g.stretchOrder else g.shrinkOrder) :: glueOrders stretch l
  | _ :: l => glueOrders stretch l

def texCase (l : List Item) (pw : PackWidth) : String × Bool :=
  let t := texHpack l pw
  let x := t.width - natWidth l
  if x = 0 then ("exact", false)
  else if x > 0 then
    let zhi := (glueOrders true l).any (fun o => t.order.lt o)
    (if t.sign = .normal then "stretch-unset" else "stretch", zhi)
  else
    let zhi := (glueOrders false l).any (fun o => t.order.lt o)
    let over := totalShrink l t.order < -x ∧ t.order = .normal ∧ l ≠ []
    (if over then (if t.sign = .normal then "overfull-zero" else "overfull")
     else if t.sign = .normal then "shrink-unset" else "shrink", zhi)

def handle (line : String) : String :=
  match words line with
  | "hp" :: ws =>
    match ints? ws with
    | some (mode :: amount :: n :: rest) =>
      if n < 0 ∨ (mode ≠ 0 ∧ mode ≠ 1) then "bad-request" else
      match decItems n.toNat rest with
      | some (l, tail) =>
        let pw : PackWidth := if mode = 0 then .exact amount else .additional amount
        let m := hpack l pw
        let old := hpackOld l pw
        let s := texHpack l pw
        let real : Option (Option HBox) :=
          match tail with
          | [0] => some none
          | [1, h, w, d, o, num, den] => (decOrder o).map fun o => some ⟨h, w, d, o, num, den⟩
          | _ => none
        match real with
        | none => "bad-request"
        | some r =>
          let (is, dims, ord, rat) :=
            match r with
            | none => (true, true, true, true)
            | some b =>
              (decide (b.agrees s),
               decide (b.height = s.height ∧ b.width = s.width ∧ b.depth = s.depth),
               decide (b.order = s.order),
               decide ((⟨s.height, s.width, s.depth, s.order, b.num, b.den⟩ : HBox).agrees s))
          let (tc, zhi) := texCase l pw
          s!"fits={b2i (inRange l pw)} fitsold={b2i (inRangeOld l pw)} M {showBox m} O {showBox old} S {showTex s} ms={b2i (decide (m.agrees s))} is={b2i is} dims={b2i dims} ord={b2i ord} rat={b2i rat} tex={tc} zhi={b2i zhi}"
      | none => "bad-request"
    | _ => "bad-request"
  | _ => "bad-request"

end DrvC15

def main : IO Unit := Proto.main DrvC15.handle
